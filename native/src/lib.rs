// bounded stand-ins live in tests/
