//! BOUNDED replay search for C09 (client side: transport failures are contained and reported)
//! through the public API: the hand-written transport fails the k-th invocation (k = 0, 1, 2) of
//! one of its five operations (read, ready, start_send, flush, close) -- every later invocation of
//! a failed transport fails too -- in small scenarios: 1 or 2 calls, the first one answered or
//! not, abandoned or not (so that a cancellation gets written), the client handle dropped at the
//! end or kept (then one more call is issued after the failure).
//! Oracles = the property: a failure while reading / readying / flushing / closing / writing a
//! cancellation ends the dispatch with an error naming that activity; every call outstanding then
//! resolves with a connection error; a call issued afterwards fails instead of hanging; nothing
//! reports success without a reply; a failed *request* write fails only that call; nothing panics.
//! Source of concrete failing inputs when the deductive check of unit `client` is undecided or
//! fails; a pass is never counted as proof.
use futures::prelude::*;
use futures::task::noop_waker_ref;
use std::collections::VecDeque;
use std::future::Future;
use std::pin::Pin;
use std::sync::{Arc, Mutex};
use std::task::{Context, Poll};
use tarpc::client::{self, RpcError};
use tarpc::{context, ChannelError, ClientMessage, Response};

#[derive(Clone, Copy, Debug, PartialEq)]
enum Op {
    Read,
    Ready,
    Send,
    Flush,
    Close,
}

#[derive(Default)]
struct Shared {
    fault: Option<(Op, usize)>,
    counts: [usize; 5],
    failed: Option<Op>,
    failed_item: Option<String>,
    failed_request: Option<String>,
    /// readiness is reported Pending once before each real answer (a transport that needs a flush / a wake first)
    hesitant: bool,
    hesitated: bool,
    inbound: VecDeque<Response<String>>,
    wire: Vec<String>,
    writes_after_failure: usize,
}
impl Shared {
    fn hit(&mut self, op: Op) -> bool {
        let i = op as usize;
        let n = self.counts[i];
        self.counts[i] += 1;
        if self.failed.is_some() {
            return true; // a failed transport stays failed
        }
        if self.fault == Some((op, n)) {
            self.failed = Some(op);
            return true;
        }
        false
    }
}
fn boom(op: Op) -> std::io::Error {
    std::io::Error::new(std::io::ErrorKind::BrokenPipe, format!("injected {op:?} failure"))
}

#[derive(Clone)]
struct T(Arc<Mutex<Shared>>);
impl Stream for T {
    type Item = Result<Response<String>, std::io::Error>;
    fn poll_next(self: Pin<&mut Self>, _: &mut Context<'_>) -> Poll<Option<Self::Item>> {
        let mut s = self.0.lock().unwrap();
        if s.inbound.is_empty() && s.failed.is_none() && s.fault.map_or(true, |(op, _)| op != Op::Read) {
            return Poll::Pending;
        }
        if s.hit(Op::Read) {
            return Poll::Ready(Some(Err(boom(Op::Read))));
        }
        match s.inbound.pop_front() {
            Some(r) => Poll::Ready(Some(Ok(r))),
            None => Poll::Pending,
        }
    }
}
impl Sink<ClientMessage<String>> for T {
    type Error = std::io::Error;
    fn poll_ready(self: Pin<&mut Self>, _: &mut Context<'_>) -> Poll<Result<(), Self::Error>> {
        let mut s = self.0.lock().unwrap();
        if s.hesitant && !s.hesitated && s.failed.is_none() {
            s.hesitated = true;
            return Poll::Pending;
        }
        s.hesitated = false;
        if s.hit(Op::Ready) {
            return Poll::Ready(Err(boom(Op::Ready)));
        }
        Poll::Ready(Ok(()))
    }
    fn start_send(self: Pin<&mut Self>, m: ClientMessage<String>) -> Result<(), Self::Error> {
        let mut s = self.0.lock().unwrap();
        let (what, is_request) = match &m {
            ClientMessage::Request(r) => (format!("Req {}", r.id), true),
            ClientMessage::Cancel { request_id, .. } => (format!("Cancel {request_id}"), false),
            _ => ("other".to_string(), false),
        };
        if s.failed.is_some() {
            s.writes_after_failure += 1;
            return Err(boom(Op::Send));
        }
        let n = s.counts[Op::Send as usize];
        s.counts[Op::Send as usize] += 1;
        if s.fault == Some((Op::Send, n)) {
            if is_request {
                // only this write fails; the transport stays usable ("failing to write one request fails only that call")
                s.failed_request = Some(what);
            } else {
                s.failed = Some(Op::Send);
                s.failed_item = Some(what);
            }
            return Err(boom(Op::Send));
        }
        s.wire.push(what);
        Ok(())
    }
    fn poll_flush(self: Pin<&mut Self>, _: &mut Context<'_>) -> Poll<Result<(), Self::Error>> {
        let mut s = self.0.lock().unwrap();
        if s.hit(Op::Flush) {
            return Poll::Ready(Err(boom(Op::Flush)));
        }
        Poll::Ready(Ok(()))
    }
    fn poll_close(self: Pin<&mut Self>, _: &mut Context<'_>) -> Poll<Result<(), Self::Error>> {
        let mut s = self.0.lock().unwrap();
        if s.hit(Op::Close) {
            return Poll::Ready(Err(boom(Op::Close)));
        }
        s.wire.push("Closed".to_string());
        Poll::Ready(Ok(()))
    }
}

type CallFut = Pin<Box<dyn Future<Output = Result<String, RpcError>>>>;
type DispatchOut = Result<(), ChannelError<std::io::Error>>;

fn cx() -> Context<'static> {
    Context::from_waker(noop_waker_ref())
}
fn names(e: &ChannelError<std::io::Error>) -> Op {
    match e {
        ChannelError::Read(_) => Op::Read,
        ChannelError::Ready(_) => Op::Ready,
        ChannelError::Write(_) => Op::Send,
        ChannelError::Flush(_) => Op::Flush,
        ChannelError::Close(_) => Op::Close,
    }
}

fn one(n_calls: usize, fault: (Op, usize), reply_first: bool, abandon_first: bool, drop_client: bool, hesitant: bool, reached: &std::cell::Cell<usize>) -> Vec<String> {
    let desc = format!("{n_calls} call(s), fault = {:?} #{}, first call answered {reply_first}, abandoned {abandon_first}, client dropped {drop_client}, readiness pending once before each answer {hesitant}", fault.0, fault.1);
    let shared = Arc::new(Mutex::new(Shared { fault: Some(fault), hesitant, ..Default::default() }));
    let client::NewClient { client, dispatch } = client::new::<String, String, _>(client::Config::default(), T(shared.clone()));
    let mut dispatch: Pin<Box<dyn Future<Output = DispatchOut>>> = Box::pin(dispatch);
    let mut dispatch_done: Option<DispatchOut> = None;
    let mut client = Some(client);
    let mut calls: Vec<Option<CallFut>> = vec![];
    let mut results: Vec<Option<Result<String, RpcError>>> = vec![];
    let mut errs = vec![];
    macro_rules! poll_all {
        () => {{
            if dispatch_done.is_none() {
                if let Poll::Ready(r) = dispatch.as_mut().poll(&mut cx()) {
                    dispatch_done = Some(r);
                }
            }
            for k in 0..calls.len() {
                if let Some(f) = calls[k].as_mut() {
                    if let Poll::Ready(r) = f.as_mut().poll(&mut cx()) {
                        results[k] = Some(r);
                        calls[k] = None;
                    }
                }
            }
        }};
    }
    macro_rules! create {
        () => {{
            let k = calls.len();
            let c = client.as_ref().unwrap().clone();
            let mut f: CallFut = Box::pin(async move { c.call(context::current(), format!("req {k}")).await });
            match f.as_mut().poll(&mut cx()) {
                Poll::Ready(r) => {
                    calls.push(None);
                    results.push(Some(r));
                }
                Poll::Pending => {
                    calls.push(Some(f));
                    results.push(None);
                }
            }
        }};
    }
    for _ in 0..n_calls {
        create!();
    }
    poll_all!();
    poll_all!();
    let mut abandoned = vec![false; n_calls + 1];
    if reply_first {
        shared.lock().unwrap().inbound.push_back(Response { request_id: 0, message: Ok("reply to 0".to_string()) });
        poll_all!();
    }
    if abandon_first && calls[0].is_some() {
        calls[0] = None;
        abandoned[0] = true;
        poll_all!();
    }
    poll_all!();
    let failed_before_late_call = shared.lock().unwrap().failed;
    if !drop_client {
        // one more call, after whatever has happened so far
        create!();
    } else {
        client = None;
    }
    for _ in 0..12 {
        poll_all!();
    }
    let s = shared.lock().unwrap();
    if s.failed_request.is_some() || s.failed.is_some() {
        reached.set(reached.get() + 1);
    }
    if let Some(w) = &s.failed_request {
        // failing to write one request fails only that call
        let id: usize = w[4..].parse().unwrap();
        match results.get(id) {
            Some(Some(Err(RpcError::Send(_)))) => {}
            Some(None) if abandoned.get(id) == Some(&true) => {}
            other => errs.push(format!("C09: the write of request {id} failed, but that call resolved with {other:?} (expected a send error); {desc}")),
        }
        if let Some(Err(e)) = &dispatch_done {
            errs.push(format!("C09: the write of one request failed and the dispatch ended with {e:?} (only that call may fail); {desc}"));
        }
        for k in 0..results.len() {
            if k != id {
                if let Some(Err(e)) = &results[k] {
                    errs.push(format!("C09: the write of request {id} failed and call {k} failed too ({e:?}); {desc}"));
                }
            }
        }
        return errs;
    }
    let failed = match s.failed {
        None => return errs, // the fault was never reached in this scenario
        Some(op) => op,
    };
    match &dispatch_done {
        Some(Err(e)) if names(e) == failed => {}
        Some(Err(e)) => errs.push(format!("C09: the transport failed during {failed:?} but the dispatch ended with an error naming {:?}; {desc}", names(e))),
        Some(Ok(())) => errs.push(format!("C09: the transport failed during {failed:?} but the dispatch completed successfully; {desc}")),
        None => errs.push(format!("C09: the transport failed during {failed:?} but the dispatch did not end; {desc}")),
    }
    if s.writes_after_failure > 0 {
        errs.push(format!("C09/C14: {} item(s) written after the transport had reported a {failed:?} failure; {desc}", s.writes_after_failure));
    }
    for k in 0..results.len() {
        let late = k >= n_calls;
        match (&results[k], calls[k].is_some()) {
            (None, true) => errs.push(format!("C09: call {k}{} is still pending after the transport failed during {failed:?} (dispatch: {dispatch_done:?}); {desc}", if late { " (issued afterwards)" } else { "" })),
            (Some(Ok(body)), _) => {
                let legit = k == 0 && reply_first && body == "reply to 0";
                if !legit {
                    errs.push(format!("C09: call {k} reported success ({body:?}) without a reply; {desc}"));
                }
            }
            (Some(Err(RpcError::Channel(_))), _) | (Some(Err(RpcError::Shutdown)), _) => {}
            (Some(Err(other)), _) => errs.push(format!("C09: call {k} resolved with {other:?} after a transport failure during {failed:?} (expected a connection error); {desc}")),
            (None, false) => {}
        }
    }
    if late_call_hangs(&results, &calls, n_calls, failed_before_late_call, &dispatch_done) {
        errs.push(format!("C09: the call issued after the dispatch had ended hangs instead of failing fast; {desc}"));
    }
    errs
}

fn late_call_hangs(results: &[Option<Result<String, RpcError>>], calls: &[Option<CallFut>], n_calls: usize, failed_before: Option<Op>, dispatch_done: &Option<DispatchOut>) -> bool {
    failed_before.is_some() && dispatch_done.is_some() && results.len() > n_calls && results[n_calls].is_none() && calls[n_calls].is_some()
}

#[test]
fn client_fault_injection() {
    let rt = tokio::runtime::Builder::new_current_thread().enable_time().start_paused(true).build().unwrap();
    let _g = rt.enter();
    let mut evaluations = 0usize;
    let reached = std::cell::Cell::new(0usize);
    let mut failures: Vec<(String, String)> = vec![];
    for n_calls in [1usize, 2] {
        for op in [Op::Read, Op::Ready, Op::Send, Op::Flush, Op::Close] {
            for k in 0..3 {
                for reply_first in [false, true] {
                    for abandon_first in [false, true] {
                        for (drop_client, hesitant) in [(false, false), (true, false), (false, true), (true, true)] {
                            evaluations += 1;
                            let r = std::panic::catch_unwind(std::panic::AssertUnwindSafe(|| one(n_calls, (op, k), reply_first, abandon_first, drop_client, hesitant, &reached)));
                            let errs = match r {
                                Ok(e) => e,
                                Err(_) => vec![format!("C09/C16: the endpoint panicked; {n_calls} call(s), fault = {op:?} #{k}, first call answered {reply_first}, abandoned {abandon_first}, client dropped {drop_client}, hesitant readiness {hesitant}")],
                            };
                            for e in errs {
                                let tag = e.split(':').next().unwrap_or("").to_string();
                                if !failures.iter().any(|(t, _)| *t == tag) {
                                    failures.push((tag, e));
                                }
                            }
                        }
                    }
                }
            }
        }
    }
    for (_, e) in &failures {
        println!("VERIF-FAIL {e}");
    }
    println!("VERIF-BOUNDED client_faults evaluations={evaluations} fault_reached={} bound=1|2 calls x 5 operations x failing invocation 0..2 x first call answered|not x abandoned|not x client dropped|kept (one more call issued) x readiness immediate|pending once first", reached.get());
    assert!(failures.is_empty(), "{}", failures[0].1);
}
