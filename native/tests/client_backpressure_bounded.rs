//! BOUNDED replay search for the client under back-pressure (properties C03, C11): more calls than the in-flight
//! maximum m plus the request buffer b can hold, so that some calls are transmitted, some are buffered and some are
//! still blocked in front of the buffer; then every call is abandoned (in issue order or in reverse, with or without
//! letting the dispatch run in between). No reply is ever sent, so at quiescence
//!   * every request that was transmitted has exactly one cancellation on the wire, after it (C03 -- and C11: otherwise
//!     its entry and timer stay tracked at both ends until the deadline),
//!   * no cancellation is written for a request that was never transmitted (C03),
//!   * a call issued afterwards is transmitted (the capacity was reclaimed: C11).
//! Source of *concrete failing inputs*; a pass is never counted as proof.
use futures::{future::poll_fn, prelude::*};
use std::{future::Future, pin::Pin, task::Poll};
use tarpc::{client, context, transport, ClientMessage, Response};

type Call = Pin<Box<dyn Future<Output = Result<String, client::RpcError>>>>;

async fn settle() {
    for _ in 0..50 {
        tokio::task::yield_now().await;
    }
}

async fn one(m: usize, b: usize, extra: usize, reverse: bool, settle_between: bool) -> Result<(), String> {
    let desc = format!("in-flight maximum {m}, request buffer {b}, {} calls, abandoned in {} order, dispatch {} between abandonments", m + b + extra, if reverse { "reverse" } else { "issue" }, if settle_between { "runs" } else { "does not run" });
    let (client_transport, mut server) = transport::channel::unbounded::<Response<String>, ClientMessage<String>>();
    let mut config = client::Config::default();
    config.max_in_flight_requests = m;
    config.pending_request_buffer = b;
    let client: client::Channel<String, String> = client::new(config, client_transport).spawn();
    let mut calls: Vec<Option<Call>> = vec![];
    for k in 0..m + b + extra {
        let c = client.clone();
        let mut f: Call = Box::pin(async move { c.call(context::current(), format!("call {k}")).await });
        let early = poll_fn(|cx| Poll::Ready(f.as_mut().poll(cx).is_ready())).await;
        if early {
            return Err(format!("C03: call {k} resolved although no reply was sent; {desc}"));
        }
        calls.push(Some(f));
        settle().await;
    }
    let order: Vec<usize> = if reverse { (0..calls.len()).rev().collect() } else { (0..calls.len()).collect() };
    for k in order {
        calls[k] = None;
        if settle_between {
            settle().await;
        }
    }
    settle().await;
    let mut wire: Vec<(bool, u64)> = vec![]; // (is_request, id)
    while let Some(item) = server.next().now_or_never() {
        match item {
            Some(Ok(ClientMessage::Request(r))) => wire.push((true, r.id)),
            Some(Ok(ClientMessage::Cancel { request_id, .. })) => wire.push((false, request_id)),
            other => return Err(format!("C03: unexpected item on the wire {:?}; {desc}", other.map(|o| o.is_ok()))),
        }
    }
    for (i, (is_req, id)) in wire.iter().enumerate() {
        if *is_req {
            let cancels = wire[i + 1..].iter().filter(|(r, c)| !*r && c == id).count();
            if cancels != 1 {
                return Err(format!("C03/C11: request {id} was transmitted, its call was abandoned and never answered, and {cancels} cancellation(s) followed it; wire (request?, id) {wire:?}; {desc}"));
            }
        } else if !wire[..i].iter().any(|(r, c)| *r && c == id) {
            return Err(format!("C03: a cancellation for {id} was written although its request never was; wire {wire:?}; {desc}"));
        }
    }
    let c = client.clone();
    let mut later: Call = Box::pin(async move { c.call(context::current(), "later".to_string()).await });
    let _ = poll_fn(|cx| Poll::Ready(later.as_mut().poll(cx).is_ready())).await;
    settle().await;
    match server.next().now_or_never() {
        Some(Some(Ok(ClientMessage::Request(r)))) if r.message == "later" => {}
        other => return Err(format!("C11: a call issued after every earlier call was abandoned is not transmitted ({:?}): capacity was not reclaimed; {desc}", other.map(|o| o.map(|r| r.is_ok())))),
    }
    Ok(())
}

#[tokio::test(flavor = "current_thread")]
async fn abandoned_calls_under_back_pressure() {
    let mut evaluations = 0u64;
    let mut failures: Vec<String> = vec![];
    for m in 1..=2usize {
        for b in 1..=2usize {
            for extra in 0..=3usize {
                for reverse in [false, true] {
                    for settle_between in [false, true] {
                        evaluations += 1;
                        if let Err(e) = one(m, b, extra, reverse, settle_between).await {
                            if !failures.iter().any(|f: &String| f.split(':').next() == e.split(':').next()) {
                                failures.push(e);
                            }
                        }
                    }
                }
            }
        }
    }
    println!("VERIF-BOUNDED client_backpressure evaluations={evaluations} bound=in-flight maximum 1..=2 x request buffer 1..=2 x 0..=3 calls blocked in front of the buffer x abandoned in issue|reverse order x dispatch running|not between abandonments");
    for f in &failures {
        println!("VERIF-FAIL {f}");
    }
    assert!(failures.is_empty(), "{}", failures[0]);
}
