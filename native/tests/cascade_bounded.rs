//! BOUNDED replay search for the cascade clause of C04 ("abandoning a call at the head of a chain
//! of services cancels every unfinished handler down the chain") and the trace clause of C18 for
//! nested calls, through the public API with real tasks: caller -> service A -> service B, both
//! hops over `tarpc::transport::channel::unbounded()`. A's handler calls B with the context it was
//! given; B's handler parks until released. The caller abandons its call to A
//!   * while B's handler is parked (A's handler is awaiting B),
//!   * before A's handler got to call B (A parks first, then would call B),
//!   * never (control: B is released and the reply travels back).
//! Oracles: after the abandonment both handlers are stopped (their drop flags fire) without B being
//! released and without the clock moving; in the control run the caller gets B's answer through A;
//! C18: B observes the caller's trace id and sampling decision, and the span ids of the three hops
//! are pairwise different.
//! Source of concrete failing inputs for the C04 clauses of units `server` (execute inside
//! Abortable, cancel handling) and `client` (ResponseGuard::drop, Channel::call); never counted as proof.
use futures::prelude::*;
use std::sync::atomic::{AtomicBool, Ordering};
use std::sync::{Arc, Mutex};
use std::time::Duration;
use tarpc::client::{self, Channel as ClientChannel};
use tarpc::server::{self, BaseChannel, Channel};
use tarpc::trace::{self, SamplingDecision, SpanId, TraceId};
use tarpc::{context, transport};

struct Flag(Arc<AtomicBool>);
impl Drop for Flag {
    fn drop(&mut self) {
        self.0.store(true, Ordering::SeqCst);
    }
}
async fn settle() {
    for _ in 0..50 {
        tokio::task::yield_now().await;
    }
}

#[derive(Clone, Copy, Debug, PartialEq)]
enum When {
    WhileBRuns,
    /// as WhileBRuns, but A's handler owns the LAST handle to the client of B (a per-request connection): the
    /// handle is dropped together with the abandoned call
    WhileBRunsOwnHandle,
    BeforeACallsB,
    Never,
}

async fn one(when: When) -> Vec<String> {
    let desc = format!("caller abandons its call to A: {when:?}");
    let mut errs = vec![];
    // service B
    let (b_client_t, b_server_t) = transport::channel::unbounded();
    let b_started = Arc::new(AtomicBool::new(false));
    let b_stopped = Arc::new(AtomicBool::new(false));
    let b_release = Arc::new(tokio::sync::Notify::new());
    let b_seen: Arc<Mutex<Option<trace::Context>>> = Default::default();
    let (bs, bst, br, bseen) = (b_started.clone(), b_stopped.clone(), b_release.clone(), b_seen.clone());
    tokio::spawn(
        BaseChannel::with_defaults(b_server_t)
            .execute(server::serve(move |ctx: context::Context, req: String| {
                let (bs, bst, br, bseen) = (bs.clone(), bst.clone(), br.clone(), bseen.clone());
                async move {
                    *bseen.lock().unwrap() = Some(ctx.trace_context);
                    bs.store(true, Ordering::SeqCst);
                    let _f = Flag(bst);
                    br.notified().await;
                    Ok(format!("B({req})"))
                }
            }))
            .for_each(|f| async move {
                tokio::spawn(f);
            }),
    );
    let client::NewClient { client: b_client, dispatch } = client::new::<String, String, _>(client::Config::default(), b_client_t);
    tokio::spawn(dispatch);
    let b_client: ClientChannel<String, String> = b_client;
    let own_handle = when == When::WhileBRunsOwnHandle;
    // (moved, not cloned: in the own-handle case no other handle to B's client may stay alive)
    let (b_client, b_only) = if own_handle { (None, Some(b_client)) } else { (Some(b_client), None) };
    let b_only: Arc<Mutex<Option<ClientChannel<String, String>>>> = Arc::new(Mutex::new(b_only));
    // service A: calls B with the context it was given
    let (a_client_t, a_server_t) = transport::channel::unbounded();
    let a_stopped = Arc::new(AtomicBool::new(false));
    let a_gate = Arc::new(tokio::sync::Notify::new());
    let a_seen: Arc<Mutex<Option<trace::Context>>> = Default::default();
    let park_first = when == When::BeforeACallsB;
    let (ast, ag, aseen) = (a_stopped.clone(), a_gate.clone(), a_seen.clone());
    tokio::spawn(
        BaseChannel::with_defaults(a_server_t)
            .execute(server::serve(move |ctx: context::Context, req: String| {
                let b = match &b_client {
                    Some(c) => c.clone(),
                    None => b_only.lock().unwrap().take().expect("one request only"),
                };
                let (ast, ag, aseen) = (ast.clone(), ag.clone(), aseen.clone());
                async move {
                    *aseen.lock().unwrap() = Some(ctx.trace_context);
                    let _f = Flag(ast);
                    if park_first {
                        ag.notified().await;
                    }
                    match b.call(ctx, format!("A({req})")).await {
                        Ok(r) => Ok(r),
                        Err(e) => Err(tarpc::ServerError::new(std::io::ErrorKind::Other, e.to_string())),
                    }
                }
            }))
            .for_each(|f| async move {
                tokio::spawn(f);
            }),
    );
    let client::NewClient { client: a_client, dispatch } = client::new::<String, String, _>(client::Config::default(), a_client_t);
    tokio::spawn(dispatch);
    // the caller
    let mut ctx = context::current();
    ctx.deadline = std::time::Instant::now() + Duration::from_secs(3600);
    ctx.trace_context = trace::Context { trace_id: TraceId::from((7u128 << 64) + 9), span_id: SpanId::from(0x42), sampling_decision: SamplingDecision::Sampled };
    let caller_ctx = ctx.trace_context;
    let ac = a_client.clone();
    let call = tokio::spawn(async move { ac.call(ctx, "x".to_string()).await });
    settle().await;
    match when {
        When::WhileBRuns | When::WhileBRunsOwnHandle | When::BeforeACallsB => {
            if when != When::BeforeACallsB && !b_started.load(Ordering::SeqCst) {
                errs.push(format!("C04: B's handler did not start; {desc}"));
            }
            call.abort();
            settle().await;
            if !a_stopped.load(Ordering::SeqCst) {
                errs.push(format!("C04: the caller abandoned its call and A's handler keeps running; {desc}"));
            }
            if when == When::BeforeACallsB {
                a_gate.notify_one(); // if A's handler survived, it now calls B
                settle().await;
                if b_started.load(Ordering::SeqCst) && !b_stopped.load(Ordering::SeqCst) {
                    errs.push(format!("C04: A's handler went on to call B after its request was cancelled; {desc}"));
                }
            } else if !b_stopped.load(Ordering::SeqCst) {
                errs.push(format!("C04: the caller abandoned its call to A and B's handler (started by A's handler) keeps running: the cancellation did not cascade; {desc}"));
            }
        }
        When::Never => {
            b_release.notify_one();
            match tokio::time::timeout(Duration::from_secs(5), call).await {
                Ok(Ok(Ok(r))) if r == "B(A(x))" => {}
                other => errs.push(format!("C01: the reply did not travel back through the chain: {other:?}; {desc}")),
            }
        }
    }
    if when != When::BeforeACallsB {
        let (a, b) = (*a_seen.lock().unwrap(), *b_seen.lock().unwrap());
        match (a, b) {
            (Some(a), Some(b)) => {
                for (hop, c) in [("A", a), ("B", b)] {
                    if c.trace_id != caller_ctx.trace_id || c.sampling_decision != caller_ctx.sampling_decision {
                        errs.push(format!("C18: handler {hop} observes trace id {:?} / {:?}, the caller supplied {:?} / {:?}; {desc}", c.trace_id, c.sampling_decision, caller_ctx.trace_id, caller_ctx.sampling_decision));
                    }
                }
                if a.span_id == b.span_id || a.span_id == caller_ctx.span_id || b.span_id == caller_ctx.span_id {
                    errs.push(format!("C18: two hops share a span id (caller {:?}, A {:?}, B {:?}); {desc}", caller_ctx.span_id, a.span_id, b.span_id));
                }
            }
            _ => errs.push(format!("C08: a handler of the chain never ran; {desc}")),
        }
    }
    errs
}

#[tokio::test(start_paused = true)]
async fn cancellation_cascades_down_a_chain() {
    let mut evaluations = 0u64;
    let mut failures: Vec<(String, String)> = vec![];
    for when in [When::WhileBRuns, When::WhileBRunsOwnHandle, When::BeforeACallsB, When::Never] {
        evaluations += 1;
        for e in one(when).await {
            let tag = e.split(':').next().unwrap_or("").to_string();
            if !failures.iter().any(|(t, _)| *t == tag) {
                failures.push((tag, e));
            }
        }
    }
    for (_, e) in &failures {
        println!("VERIF-FAIL {e}");
    }
    println!("VERIF-BOUNDED cascade evaluations={evaluations} bound=two-hop chain, the caller abandons while B runs (A's handler sharing | owning the last handle to B) | before A calls B | never");
    assert!(failures.is_empty(), "{}", failures[0].1);
}
