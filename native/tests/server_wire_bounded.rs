//! BOUNDED replay search for the server channel through the public API (properties C04, C08, C10,
//! C11, C12, C14): a structured enumeration of small peer scripts -- up to 4 messages over two ids
//! (request, duplicate request, cancel), a dispatch poll or not after each, every handler release
//! order, response sink gated or not, with and without a per-channel request limit, inbound side
//! half-closed at the end or not -- against a hand-written transport that records the wire, buffers
//! until flushed and checks the Sink contract. Oracles are stated on what the peer can observe plus
//! handler invocation counts.
//!
//! Source of *concrete failing inputs* when the deductive check is undecided or fails; a pass is
//! never counted as proof.
use futures::prelude::*;
use futures::task::noop_waker_ref;
use std::collections::VecDeque;
use std::future::Future;
use std::pin::Pin;
use std::sync::{Arc, Mutex};
use std::task::{Context, Poll};
use tarpc::server::{self, BaseChannel, Channel};
use tarpc::{context, ClientMessage, Request, Response};

#[derive(Default)]
struct Shared {
    /// readiness polls since the driver last polled the task (watchdog against retrying within one poll)
    ready_polls: usize,
    gate_open: bool,
    granted: bool,
    inbound: VecDeque<ClientMessage<String>>,
    inbound_closed: bool,
    wire: Vec<(u64, Result<String, std::io::ErrorKind>)>,
    flushed: usize,
    violations: Vec<String>,
    // handler bookkeeping
    started: Vec<(u64, usize)>,  // (request id, incarnation number) in start order
    released: Vec<bool>,         // by incarnation number
    running: usize,
    max_running: usize,
}

#[derive(Clone)]
struct T(Arc<Mutex<Shared>>);
impl Stream for T {
    type Item = Result<ClientMessage<String>, std::io::Error>;
    fn poll_next(self: Pin<&mut Self>, _: &mut Context<'_>) -> Poll<Option<Self::Item>> {
        let mut s = self.0.lock().unwrap();
        match s.inbound.pop_front() {
            Some(m) => Poll::Ready(Some(Ok(m))),
            None if s.inbound_closed => Poll::Ready(None),
            None => Poll::Pending,
        }
    }
}
impl Sink<Response<String>> for T {
    type Error = std::io::Error;
    fn poll_ready(self: Pin<&mut Self>, _: &mut Context<'_>) -> Poll<Result<(), Self::Error>> {
        let mut s = self.0.lock().unwrap();
        s.ready_polls += 1;
        if s.ready_polls > 10_000 {
            panic!("C14: the transport said not-ready and its readiness was polled more than 10000 times within one poll of the task: retrying within the same poll instead of returning control");
        }
        if s.gate_open {
            s.granted = true;
            Poll::Ready(Ok(()))
        } else {
            Poll::Pending
        }
    }
    fn start_send(self: Pin<&mut Self>, r: Response<String>) -> Result<(), Self::Error> {
        let mut s = self.0.lock().unwrap();
        if !s.granted {
            // a sink that was not asked for room has none: the item is lost (as with a full slot)
            s.violations.push(format!("C14: start_send (response for id {}) without a readiness report for that item", r.request_id));
            return Ok(());
        }
        s.granted = false;
        let m = r.message.map_err(|e| e.kind);
        s.wire.push((r.request_id, m));
        Ok(())
    }
    fn poll_flush(self: Pin<&mut Self>, _: &mut Context<'_>) -> Poll<Result<(), Self::Error>> {
        let mut s = self.0.lock().unwrap();
        s.flushed = s.wire.len();
        Poll::Ready(Ok(()))
    }
    fn poll_close(self: Pin<&mut Self>, cx: &mut Context<'_>) -> Poll<Result<(), Self::Error>> {
        self.poll_flush(cx)
    }
}

#[derive(Clone, Copy, Debug, PartialEq)]
enum Msg {
    Req(u64),
    Cancel(u64),
}

type Exec = Pin<Box<dyn Future<Output = ()>>>;

struct Run<S: Stream + Unpin> {
    shared: Arc<Mutex<Shared>>,
    requests: S,
    ended: bool,
    errored: bool,
    execs: Vec<Exec>,
    /// the handler tasks are not scheduled during the next poll (a busy executor runs them later)
    skip_handlers_once: bool,
}

fn cx() -> Context<'static> {
    Context::from_waker(noop_waker_ref())
}

fn req(id: u64) -> ClientMessage<String> {
    ClientMessage::Request(Request { context: context::current(), id, message: format!("req {id}") })
}

impl<S, C> Run<S>
where
    S: Stream<Item = Result<server::InFlightRequest<String, String>, C>> + Unpin,
{
    fn poll(&mut self) {
        self.shared.lock().unwrap().ready_polls = 0;
        // the request stream (also drives response writing)
        loop {
            if self.ended {
                break;
            }
            match Pin::new(&mut self.requests).poll_next(&mut cx()) {
                Poll::Ready(Some(Ok(r))) => {
                    let shared = self.shared.clone();
                    let id = r.get().id;
                    let f = r.execute(server::serve(move |_ctx, body: String| {
                        let shared = shared.clone();
                        async move {
                            let inc = {
                                let mut s = shared.lock().unwrap();
                                let inc = s.started.len();
                                s.started.push((id, inc));
                                s.released.push(false);
                                s.running += 1;
                                s.max_running = s.max_running.max(s.running);
                                inc
                            };
                            struct Guard(Arc<Mutex<Shared>>);
                            impl Drop for Guard {
                                fn drop(&mut self) {
                                    self.0.lock().unwrap().running -= 1;
                                }
                            }
                            let _g = Guard(shared.clone());
                            futures::future::poll_fn(|_| if shared.lock().unwrap().released[inc] { Poll::Ready(()) } else { Poll::Pending }).await;
                            Ok(format!("answer to {body} #{inc}"))
                        }
                    }));
                    self.execs.push(Box::pin(f));
                }
                Poll::Ready(Some(Err(_))) => {
                    self.errored = true;
                    self.ended = true;
                }
                Poll::Ready(None) => self.ended = true,
                Poll::Pending => {
                    // C14: control went back to the executor: nothing written may remain unflushed
                    // (this transport's flush always succeeds at once)
                    let mut s = self.shared.lock().unwrap();
                    if s.flushed != s.wire.len() && !s.violations.iter().any(|v| v.starts_with("C14: went idle")) {
                        let n = s.wire.len() - s.flushed;
                        s.violations.push(format!("C14: went idle (Pending) with {n} written response(s) not flushed"));
                    }
                    break;
                }
            }
        }
        if self.skip_handlers_once {
            self.skip_handlers_once = false;
        } else {
            self.poll_handlers();
        }
    }
    fn poll_handlers(&mut self) {
        let mut i = 0;
        while i < self.execs.len() {
            if self.execs[i].as_mut().poll(&mut cx()).is_ready() {
                let _ = self.execs.remove(i);
            } else {
                i += 1;
            }
        }
    }
}

/// how many requests for `id` an ideal channel accepts when no handler finishes before the script ends:
/// a request is accepted iff its id is not tracked; a cancel untracks
fn accepted_model(script: &[Msg], id: u64) -> usize {
    let mut tracked = false;
    let mut n = 0;
    for m in script {
        match m {
            Msg::Req(i) if *i == id => {
                if !tracked {
                    tracked = true;
                    n += 1;
                }
            }
            Msg::Cancel(i) if *i == id => tracked = false,
            _ => {}
        }
    }
    n
}

/// requests for `id` an ideal channel accepts and that are not cancelled while tracked: the most responses
/// bearing `id` that may ever be written (holds whether handlers finish late or just before the last message,
/// because a finished handler's request stays tracked until its response is written)
fn answerable_model(script: &[Msg], id: u64) -> usize {
    let mut tracked = false;
    let mut n = 0;
    for m in script {
        match m {
            Msg::Req(i) if *i == id => {
                if !tracked {
                    tracked = true;
                    n += 1;
                }
            }
            Msg::Cancel(i) if *i == id => {
                if tracked {
                    tracked = false;
                    n -= 1;
                }
            }
            _ => {}
        }
    }
    n
}

/// C12, "a request is refused only if L requests really were in flight when it was read": the outcomes (requests
/// accepted, accepted and later cancelled, and throttle replies, per id) an ideal limiter can produce for `script` when no handler finishes before
/// the whole script has been read. A request whose id is tracked is a duplicate (ignored); a request read while L are
/// tracked is refused (one reply, not tracked); any other request is accepted -- except at the one place where the
/// real code is known to deviate (known finding F7, listed in known_findings.json): the request read directly after a
/// cancellation that freed a slot of a full channel may be refused as well. Both outcomes are allowed there, so
/// that a *different* over-refusal is still reported.
fn limiter_outcomes(script: &[Msg], l: usize) -> Vec<([usize; 2], [usize; 2], [usize; 2])> {
    // state: (tracked ids, accepted per id, accepted-then-cancelled per id, refusals per id, a cancellation freed a slot of a full channel just before)
    let mut states: Vec<(Vec<u64>, [usize; 2], [usize; 2], [usize; 2], bool)> = vec![(vec![], [0, 0], [0, 0], [0, 0], false)];
    let ix = |id: u64| (id - 7) as usize;
    for m in script {
        let mut next = vec![];
        for (tracked, acc, canc, refd, freed) in states {
            match m {
                Msg::Cancel(j) => {
                    let was_full = tracked.len() >= l;
                    let had = tracked.contains(j);
                    let t: Vec<u64> = tracked.iter().copied().filter(|x| x != j).collect();
                    let mut c = canc;
                    if had {
                        c[ix(*j)] += 1;
                    }
                    next.push((t, acc, c, refd, freed || (was_full && had)));
                }
                Msg::Req(i) => {
                    if tracked.contains(i) {
                        next.push((tracked, acc, canc, refd, freed));
                    } else if tracked.len() >= l {
                        let mut r = refd;
                        r[ix(*i)] += 1;
                        next.push((tracked, acc, canc, r, false));
                    } else {
                        let mut t = tracked.clone();
                        t.push(*i);
                        let mut v = acc;
                        v[ix(*i)] += 1;
                        next.push((t, v, canc, refd, false));
                        if freed {
                            let mut r = refd;
                            r[ix(*i)] += 1;
                            next.push((tracked, acc, canc, r, false));
                        }
                    }
                }
            }
        }
        states = next;
    }
    states.into_iter().map(|(_, a, c, r, _)| (a, c, r)).collect()
}

fn check(s: &Shared, script: &[Msg], limit: Option<usize>, ended: bool, half_close: bool, in_flight_after: usize, handlers_pending_throughout: bool, model_applies: bool, in_order: bool, desc: &str) -> Vec<String> {
    let mut errs: Vec<String> = vec![];
    for v in &s.violations {
        errs.push(format!("{v}; {desc}"));
    }
    let n_req = |id: u64| script.iter().filter(|m| **m == Msg::Req(id)).count();
    for id in [7u64, 8] {
        let ok_responses = s.wire.iter().filter(|(i, m)| *i == id && m.is_ok()).count();
        let all_responses = s.wire.iter().filter(|(i, _)| *i == id).count();
        let invocations = s.started.iter().filter(|(i, _)| *i == id).count();
        if all_responses > n_req(id) {
            errs.push(format!("C08: {all_responses} responses bearing id {id} for {} requests read; wire {:?}; {desc}", n_req(id), s.wire));
        }
        if handlers_pending_throughout && limit.is_none() && invocations > accepted_model(script, id) {
            errs.push(format!("C08: {invocations} handler invocations for id {id}, but a request reusing an id that is still in flight must be ignored (at most {} can be accepted); {desc}", accepted_model(script, id)));
        }
        if limit.is_none() && handlers_pending_throughout && all_responses < answerable_model(script, id) {
            errs.push(format!("C04/C08: only {all_responses} response(s) bearing id {id} although {} request(s) for it were accepted and never cancelled, and every handler has finished: a request lost its response (e.g. to a cancellation that was not meant for it); wire {:?}; {desc}", answerable_model(script, id), s.wire));
        }
        if limit.is_none() && model_applies && all_responses > answerable_model(script, id) {
            errs.push(format!("C04/C08: {all_responses} response(s) bearing id {id} although at most {} request(s) for it were accepted and not cancelled; wire {:?}; {desc}", answerable_model(script, id), s.wire));
        }
        if invocations > n_req(id) {
            errs.push(format!("C08: {invocations} handler invocations for id {id} but only {} requests; {desc}", n_req(id)));
        }
        if ok_responses > invocations {
            errs.push(format!("C08: a successful response for id {id} without a handler having run; wire {:?}; {desc}", s.wire));
        }
        if limit.is_none() && script.iter().filter(|m| matches!(m, Msg::Req(_))).count() > 0 {
            // without a limit every response is a handler's answer
            if all_responses != ok_responses {
                errs.push(format!("C12: an error response although no limit is configured; wire {:?}; {desc}", s.wire));
            }
        }
    }
    for (id, m) in &s.wire {
        if n_req(*id) == 0 {
            errs.push(format!("C08: response for id {id}, which was never requested on this channel; {desc}"));
        }
        if let Err(k) = m {
            if *k != std::io::ErrorKind::WouldBlock {
                errs.push(format!("C12: throttle reply with kind {k:?}; {desc}"));
            }
        }
    }
    if let Some(l) = limit {
        // Running handlers are the in-flight requests of C12 unless the peer re-uses an id it has cancelled while the
        // first handler's finished response is still queued: that response then answers (and untracks) the second
        // request, whose own handler is still running although its request no longer counts as in flight. C12 speaks
        // about in-flight requests, so the count of running handlers is only an oracle without that corner.
        let id_reused_after_cancel = (0..script.len()).any(|i| matches!(script[i], Msg::Cancel(c) if script[i + 1..].contains(&Msg::Req(c))));
        if s.max_running > l && (handlers_pending_throughout || !id_reused_after_cancel) {
            errs.push(format!("C12: {} handlers ran concurrently with limit {l}; {desc}", s.max_running));
        }
    }
    if let (Some(l), true, true) = (limit, handlers_pending_throughout, in_order) {
        // the whole script was read while every handler was still pending, so what is in flight at each read follows from the script
        let inv = [7u64, 8].map(|id| s.started.iter().filter(|(i, _)| *i == id).count());
        let refd = [7u64, 8].map(|id| s.wire.iter().filter(|(i, m)| *i == id && m.is_err()).count());
        // a request that was accepted and then cancelled may or may not have had its handler started
        let possible = limiter_outcomes(script, l).into_iter().any(|(acc, canc, r)| r == refd && (0..2).all(|k| inv[k] <= acc[k] && inv[k] + canc[k] >= acc[k]));
        if !possible {
            errs.push(format!("C12: handler invocations {inv:?} and throttle replies {refd:?} (for ids 7, 8) are not an outcome of a limiter that refuses a request only when {l} request(s) are in flight when it is read (the known over-refusal F7 -- the request read right after a cancellation that freed a slot -- allowed for); wire {:?}; {desc}", s.wire));
        }
    }
    if half_close {
        if !ended {
            errs.push(format!("C10: inbound ended, every handler finished or was aborted, but the request stream did not end; wire {:?}; {desc}", s.wire));
        }
        if s.flushed != s.wire.len() {
            errs.push(format!("C10/C14: the stream ended with {} response(s) written but not flushed; {desc}", s.wire.len() - s.flushed));
        }
        if in_flight_after != 0 {
            errs.push(format!("C11: {in_flight_after} requests still reported in flight after everything ended; {desc}"));
        }
    }
    if let (Some(_), true, true) = (limit, half_close, ended) {
        // everything has been processed: a request read once and never cancelled was either handed to the
        // application or refused with exactly one throttle reply -- never both, never neither
        for id in [7u64, 8] {
            if n_req(id) == 1 && !script.contains(&Msg::Cancel(id)) {
                let invocations = s.started.iter().filter(|(i, _)| *i == id).count();
                let refusals = s.wire.iter().filter(|(i, m)| *i == id && m.is_err()).count();
                if invocations + refusals != 1 {
                    errs.push(format!("C12: request {id} was read once and never cancelled, and ended with {invocations} handler invocation(s) and {refusals} throttle reply(ies) on the wire; wire {:?}; {desc}", s.wire));
                }
            }
        }
    }
    if limit == Some(1) && handlers_pending_throughout && script.first() == Some(&Msg::Req(7)) && !script.iter().any(|m| matches!(m, Msg::Cancel(_))) {
        // request 7 holds the only slot until every message has been read: each request 8 is refused, with one reply each
        let invocations = s.started.iter().filter(|(i, _)| *i == 8).count();
        let refusals = s.wire.iter().filter(|(i, m)| *i == 8 && m.is_err()).count();
        if invocations != 0 || refusals != n_req(8) {
            errs.push(format!("C12: limit 1 and request 7 in flight throughout: the {} request(s) with id 8 got {invocations} handler invocation(s) and {refusals} throttle reply(ies); wire {:?}; {desc}", n_req(8), s.wire));
        }
    }
    errs
}

/// quick tier: the first bound; thorough tier (VERIF_TIER=thorough, set by vx/native_run.py): the second
fn bound(quick: usize, thorough: usize) -> usize {
    if std::env::var("VERIF_TIER").as_deref() == Ok("thorough") { thorough } else { quick }
}

fn scripts(max_len: usize) -> Vec<Vec<Msg>> {
    let alphabet = [Msg::Req(7), Msg::Req(8), Msg::Cancel(7), Msg::Cancel(8)];
    let mut out = vec![];
    let mut cur: Vec<Vec<Msg>> = vec![vec![]];
    for _ in 0..max_len {
        let mut next = vec![];
        for s in &cur {
            for a in alphabet {
                let mut t = s.clone();
                t.push(a);
                next.push(t);
            }
        }
        out.extend(next.iter().cloned());
        cur = next;
    }
    out
}

fn one(script: &[Msg], polls: u32, release_rev: bool, release_before_last: bool, gated: bool, limit: Option<usize>, half_close: bool, late_tasks: bool) -> Result<(), Vec<String>> {
    let desc = format!("script {script:?}, polls {polls:#b}, release_rev {release_rev}, release_before_last {release_before_last}, gated {gated}, limit {limit:?}, half_close {half_close}, handler tasks scheduled late after a cancel {late_tasks}");
    let shared = Arc::new(Mutex::new(Shared { gate_open: true, ..Default::default() }));
    let base = BaseChannel::with_defaults(T(shared.clone()));
    macro_rules! drive {
        ($requests:expr, $in_flight:expr) => {{
            let mut run = Run { shared: shared.clone(), requests: $requests, ended: false, errored: false, execs: vec![], skip_handlers_once: false };
            if gated {
                shared.lock().unwrap().gate_open = false;
            }
            for (i, m) in script.iter().enumerate() {
                if release_before_last && i + 1 == script.len() {
                    {
                        let mut s = shared.lock().unwrap();
                        for r in s.released.iter_mut() {
                            *r = true;
                        }
                    }
                    // the handlers finish (their responses get buffered) before the channel is polled again
                    run.poll_handlers();
                }
                shared.lock().unwrap().inbound.push_back(match m {
                    Msg::Req(id) => req(*id),
                    Msg::Cancel(id) => ClientMessage::Cancel { trace_context: Default::default(), request_id: *id },
                });
                if polls & (1 << i) != 0 {
                    // an aborted handler's task may get to run only after the channel has read the next message
                    run.skip_handlers_once = late_tasks && matches!(m, Msg::Cancel(_));
                    run.poll();
                }
            }
            run.poll();
            shared.lock().unwrap().gate_open = true;
            if half_close {
                shared.lock().unwrap().inbound_closed = true;
            }
            // release every handler (in the chosen order), polling in between
            loop {
                run.poll();
                let next = {
                    let s = shared.lock().unwrap();
                    let idx: Vec<usize> = (0..s.released.len()).filter(|i| !s.released[*i]).collect();
                    if release_rev { idx.last().copied() } else { idx.first().copied() }
                };
                match next {
                    Some(i) => shared.lock().unwrap().released[i] = true,
                    None => break,
                }
            }
            for _ in 0..6 {
                run.poll();
            }
            let s = shared.lock().unwrap();
            let in_flight: usize = $in_flight(&run);
            if run.errored {
                return Err(vec![format!("C09: the request stream reported an error although the transport never failed; {desc}")]);
            }
            // the response-count model is exact when handlers stay pending to the end, or when they finish just before the
            // last message and every earlier message had already been processed
            let all_earlier_polled = (0..script.len().saturating_sub(1)).all(|i| polls & (1 << i) != 0);
            let errs = check(&s, script, limit, run.ended, half_close, in_flight, !release_before_last, !release_before_last || all_earlier_polled, !gated && !late_tasks, &desc);
            if errs.is_empty() { Ok(()) } else { Err(errs) }
        }};
    }
    match limit {
        None => drive!(base.requests(), |r: &Run<server::Requests<BaseChannel<String, String, T>>>| r.requests.channel().in_flight_requests()),
        Some(l) => drive!(base.max_concurrent_requests(l).requests(), |r: &Run<server::Requests<server::limits::requests_per_channel::MaxRequests<BaseChannel<String, String, T>>>>| r.requests.channel().in_flight_requests()),
    }
}

#[test]
fn server_wire_scripts() {
    let rt = tokio::runtime::Builder::new_current_thread().enable_time().start_paused(true).build().unwrap();
    let _g = rt.enter();
    let mut evaluations = 0usize;
    let mut failures: Vec<(String, String)> = vec![];
    let max_len = bound(4, 5);
    for script in scripts(max_len) {
        let n = script.len();
        for polls in 0..(1u32 << n) {
            for release_rev in [false, true] {
                for release_before_last in [false, true] {
                    for gated in [false, true] {
                        for limit in [None, Some(1usize)] {
                            for (half_close, late_tasks) in [(false, false), (true, false), (false, true), (true, true)] {
                                if late_tasks && !script.iter().any(|m| matches!(m, Msg::Cancel(_))) {
                                    continue;
                                }
                                evaluations += 1;
                                if let Err(errs) = one(&script, polls, release_rev, release_before_last, gated, limit, half_close, late_tasks) {
                                    // keep the first failure of every oracle (by its property prefix), over the whole search, for attribution
                                    for e in errs {
                                        let tag = e.split(':').next().unwrap_or("").to_string();
                                        if !failures.iter().any(|(t, _): &(String, String)| *t == tag) {
                                            failures.push((tag, e));
                                        }
                                    }
                                }
                            }
                        }
                    }
                }
            }
        }
    }
    for (_, e) in &failures {
        println!("VERIF-FAIL {e}");
    }
    println!("VERIF-BOUNDED server_wire evaluations={evaluations} bound=peer scripts of <= {max_len} messages over {{Req 7, Req 8, Cancel 7, Cancel 8}} x a poll or not after each x handler release order x early release x sink gated|not x limit none|1 x half-close|not x handler tasks prompt|late after a cancel");
    assert!(failures.is_empty(), "{}", failures[0].1);
}
