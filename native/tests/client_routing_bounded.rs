//! BOUNDED stand-in / replay search for C01 (and the unknown-id part of C16) through the public
//! API: three concurrent calls; the peer answers in every order, and additionally injects one
//! unsolicited response whose id is derived from a live id by a boundary transformation, at every
//! position. Every call must receive exactly its own body; the dispatch must not die.
//! Used as the source of *concrete failing inputs* when the deductive check is undecided or
//! fails; a pass is never counted as proof.
use futures::prelude::*;
use std::time::Duration;
use tarpc::{client, context, transport, ClientMessage, Response};

fn perms() -> Vec<[usize; 3]> {
    vec![[0, 1, 2], [0, 2, 1], [1, 0, 2], [1, 2, 0], [2, 0, 1], [2, 1, 0]]
}

/// boundary transformations of a live id that yield an id that was never issued
fn strangers(live: u64) -> Vec<u64> {
    vec![live ^ (1 << 32), live ^ (1 << 63), live.wrapping_add(1 << 16), live.wrapping_add(1000), u64::MAX - live, live | (1 << 40)]
}

async fn one_run(order: [usize; 3], stranger: Option<(usize, usize, usize)>, dup_first: bool) -> Result<(), String> {
    let (tx, mut rx): (transport::channel::UnboundedChannel<Response<String>, ClientMessage<String>>, transport::channel::UnboundedChannel<ClientMessage<String>, Response<String>>) = transport::channel::unbounded();
    let client::NewClient { client, dispatch } = client::new::<String, String, _>(client::Config::default(), tx);
    let _d = tokio::spawn(dispatch);
    let mut calls = vec![];
    for k in 0..3 {
        let c = client.clone();
        calls.push(tokio::spawn(async move { c.call(context::current(), format!("req {k}")).await }));
    }
    // peer: read the three requests
    let mut ids = [0u64; 3];
    for _ in 0..3 {
        match rx.next().await {
            Some(Ok(ClientMessage::Request(r))) => {
                let k: usize = r.message.trim_start_matches("req ").parse().unwrap();
                ids[k] = r.id;
            }
            _ => return Err("peer expected a request".to_string()),
        }
    }
    let mut answered: Vec<usize> = vec![];
    for (pos, &k) in order.iter().enumerate() {
        if let Some((at, of, which)) = stranger {
            if at == pos {
                let sid = strangers(ids[of])[which];
                if !ids.contains(&sid) {
                    rx.send(Response { request_id: sid, message: Ok("unsolicited".to_string()) }).await.map_err(|e| e.to_string())?;
                }
            }
        }
        rx.send(Response { request_id: ids[k], message: Ok(format!("reply to {k}")) }).await.map_err(|e| e.to_string())?;
        answered.push(k);
        if dup_first && pos == 1 {
            // duplicate of an already answered id
            rx.send(Response { request_id: ids[answered[0]], message: Ok("duplicate".to_string()) }).await.map_err(|e| e.to_string())?;
        }
    }
    for (k, c) in calls.into_iter().enumerate() {
        match tokio::time::timeout(Duration::from_secs(5), c).await {
            Ok(Ok(Ok(body))) if body == format!("reply to {k}") => {}
            other => return Err(format!("call {k} (id {}) resolved with {:?}; order {:?}, stranger {:?} (ids {:?}), dup {dup_first}", ids[k], other, order, stranger, ids)),
        }
    }
    Ok(())
}

#[tokio::test(flavor = "current_thread")]
async fn client_routing_exhaustive_small() {
    let mut evaluations = 0usize;
    for order in perms() {
        for dup in [false, true] {
            let r = one_run(order, None, dup).await;
            evaluations += 1;
            assert!(r.is_ok(), "C01 violated: {}", r.unwrap_err());
            for at in 0..3 {
                for of in 0..3 {
                    for which in 0..6 {
                        let r = one_run(order, Some((at, of, which)), dup).await;
                        evaluations += 1;
                        assert!(r.is_ok(), "C01 violated: {}", r.unwrap_err());
                    }
                }
            }
        }
    }
    println!("VERIF-BOUNDED client_routing evaluations={evaluations} bound=3 calls, all answer orders, one stranger id (6 boundary transformations) at every position, optional duplicate");
}
