//! BOUNDED replay search for C02 (no lost wakeup) on the client side, through the public API.
//! Every scenario is a sequence of external events -- a call is issued, the peer's reply to a
//! transmitted request arrives, a call is abandoned, the transport becomes writable, the last
//! client handle is dropped -- and is run twice over the same hand-written transport:
//!   * wake-driven: a task (the dispatch, each call) is polled only when its own waker fired
//!     (plus once when it is created), exactly as an executor does;
//!   * eagerly: every task is polled again and again after every event (unsolicited polls).
//! The property says progress never depends on an unsolicited poll, so both runs must end in the
//! same place: the same calls resolved with the same outcome, the same dispatch outcome, the same
//! items on the wire. Less progress in the wake-driven run is a lost wakeup, reported with the
//! event sequence.  The transport wakes the reader when a reply arrives and the writer when it
//! becomes writable, and nothing else.  (Timer expiry is not among the events: the clock does not
//! move.)
//! Source of concrete failing inputs for the C02 clauses (`Pending => wake source armed`) of unit
//! `client`; a pass is never counted as proof.
use futures::prelude::*;
use futures::task::{waker, ArcWake};
use std::collections::VecDeque;
use std::future::Future;
use std::pin::Pin;
use std::sync::atomic::{AtomicBool, Ordering};
use std::sync::{Arc, Mutex};
use std::task::{Context, Poll, Waker};
use tarpc::client::{self, RpcError};
use tarpc::{context, ClientMessage, Response};

struct Flag(AtomicBool);
impl ArcWake for Flag {
    fn wake_by_ref(a: &Arc<Self>) {
        a.0.store(true, Ordering::SeqCst);
    }
}

#[derive(Default)]
struct Shared {
    gate_open: bool,
    inbound: VecDeque<Response<String>>,
    wire: Vec<String>,
    read_waker: Option<Waker>,
    ready_waker: Option<Waker>,
    /// readiness polls since the last event (a watchdog against retrying within one poll)
    ready_polls: usize,
}

#[derive(Clone)]
struct T(Arc<Mutex<Shared>>);
impl Stream for T {
    type Item = Result<Response<String>, std::io::Error>;
    fn poll_next(self: Pin<&mut Self>, cx: &mut Context<'_>) -> Poll<Option<Self::Item>> {
        let mut s = self.0.lock().unwrap();
        match s.inbound.pop_front() {
            Some(r) => Poll::Ready(Some(Ok(r))),
            None => {
                s.read_waker = Some(cx.waker().clone());
                Poll::Pending
            }
        }
    }
}
impl Sink<ClientMessage<String>> for T {
    type Error = std::io::Error;
    fn poll_ready(self: Pin<&mut Self>, cx: &mut Context<'_>) -> Poll<Result<(), Self::Error>> {
        let mut s = self.0.lock().unwrap();
        s.ready_polls += 1;
        if s.ready_polls > 10_000 {
            panic!("C14/C02: the transport said not-ready and its readiness was polled more than 10000 times without any event in between: retrying within one poll instead of waiting to be woken");
        }
        if s.gate_open {
            Poll::Ready(Ok(()))
        } else {
            s.ready_waker = Some(cx.waker().clone());
            Poll::Pending
        }
    }
    fn start_send(self: Pin<&mut Self>, m: ClientMessage<String>) -> Result<(), Self::Error> {
        let mut s = self.0.lock().unwrap();
        s.wire.push(match m {
            ClientMessage::Request(r) => format!("Req {}", r.id),
            ClientMessage::Cancel { request_id, .. } => format!("Cancel {request_id}"),
            _ => "other".to_string(),
        });
        Ok(())
    }
    fn poll_flush(self: Pin<&mut Self>, _: &mut Context<'_>) -> Poll<Result<(), Self::Error>> {
        Poll::Ready(Ok(()))
    }
    fn poll_close(self: Pin<&mut Self>, _: &mut Context<'_>) -> Poll<Result<(), Self::Error>> {
        self.0.lock().unwrap().wire.push("Closed".to_string());
        Poll::Ready(Ok(()))
    }
}

#[derive(Clone, Copy, Debug, PartialEq)]
enum Ev {
    Call,
    Reply(usize),
    Abandon(usize),
    OpenGate,
    DropClient,
}

type CallFut = Pin<Box<dyn Future<Output = Result<String, RpcError>>>>;

#[derive(Debug, PartialEq)]
struct Outcome {
    calls: Vec<String>,
    dispatch: String,
    wire: Vec<String>,
}

/// runs the events; `eager` = poll every task repeatedly after every event, otherwise only woken tasks.
/// None = the scenario is not well-formed (e.g. a reply for a request that is not on the wire yet).
fn run(events: &[Ev], capacity: usize, gated: bool, eager: bool) -> Option<Outcome> {
    let shared = Arc::new(Mutex::new(Shared { gate_open: !gated, ..Default::default() }));
    let mut cfg = client::Config::default();
    cfg.max_in_flight_requests = capacity;
    let client::NewClient { client, dispatch } = client::new::<String, String, _>(cfg, T(shared.clone()));
    let mut client = Some(client);
    let mut dispatch: Pin<Box<dyn Future<Output = Result<(), String>>>> = Box::pin(dispatch.map_err(|e| format!("{e:?}")));
    let dflag = Arc::new(Flag(AtomicBool::new(true))); // a new task is polled once
    let mut dispatch_done: Option<Result<(), String>> = None;
    let mut calls: Vec<Option<CallFut>> = vec![];
    let mut cflags: Vec<Arc<Flag>> = vec![];
    let mut results: Vec<Option<String>> = vec![];
    let mut replied: Vec<bool> = vec![];

    macro_rules! settle {
        () => {{
            let mut rounds = 0;
            loop {
                let mut polled = false;
                if dispatch_done.is_none() && (eager || dflag.0.swap(false, Ordering::SeqCst)) {
                    polled = true;
                    let w = waker(dflag.clone());
                    if let Poll::Ready(r) = dispatch.as_mut().poll(&mut Context::from_waker(&w)) {
                        dispatch_done = Some(r);
                    }
                }
                for k in 0..calls.len() {
                    if calls[k].is_some() && (eager || cflags[k].0.swap(false, Ordering::SeqCst)) {
                        polled = true;
                        let w = waker(cflags[k].clone());
                        if let Poll::Ready(r) = calls[k].as_mut().unwrap().as_mut().poll(&mut Context::from_waker(&w)) {
                            results[k] = Some(match r {
                                Ok(b) => format!("Ok({b})"),
                                Err(e) => format!("Err({})", format!("{e:?}").split('(').next().unwrap_or("")),
                            });
                            calls[k] = None;
                        }
                    }
                }
                rounds += 1;
                if eager {
                    if rounds >= 6 {
                        break;
                    }
                } else if !polled || rounds > 50 {
                    break;
                }
            }
        }};
    }
    settle!();
    for ev in events {
        match *ev {
            Ev::Call => {
                let c = client.as_ref()?.clone();
                let k = calls.len();
                calls.push(Some(Box::pin(async move { c.call(context::current(), format!("req {k}")).await })));
                cflags.push(Arc::new(Flag(AtomicBool::new(true))));
                results.push(None);
                replied.push(false);
            }
            Ev::Reply(k) => {
                if k >= calls.len() || replied[k] {
                    return None;
                }
                let mut s = shared.lock().unwrap();
                if !s.wire.contains(&format!("Req {k}")) || s.wire.contains(&format!("Cancel {k}")) {
                    return None; // replies only to requests that are on the wire and not cancelled
                }
                s.inbound.push_back(Response { request_id: k as u64, message: Ok(format!("reply to {k}")) });
                replied[k] = true;
                if let Some(w) = s.read_waker.take() {
                    w.wake();
                }
            }
            Ev::Abandon(k) => {
                if k >= calls.len() || calls[k].is_none() {
                    return None;
                }
                calls[k] = None;
                results[k] = Some("abandoned".to_string());
            }
            Ev::OpenGate => {
                let mut s = shared.lock().unwrap();
                if s.gate_open {
                    return None;
                }
                s.gate_open = true;
                if let Some(w) = s.ready_waker.take() {
                    w.wake();
                }
            }
            Ev::DropClient => {
                client.take()?;
            }
        }
        shared.lock().unwrap().ready_polls = 0;
        settle!();
    }
    let wire = shared.lock().unwrap().wire.clone();
    Some(Outcome {
        calls: results.into_iter().map(|r| r.unwrap_or_else(|| "pending".to_string())).collect(),
        dispatch: match dispatch_done {
            None => "running".to_string(),
            Some(Ok(())) => "Ok".to_string(),
            Some(Err(e)) => format!("Err({e})"),
        },
        wire,
    })
}

/// every event sequence of at most `max_len` events that is well-formed independently of the code under test:
/// at most 3 calls, replies/abandons only for calls that exist and were not replied/abandoned before,
/// at most one gate opening, at most one drop of the client handle (no call afterwards)
fn scripts(max_len: usize) -> Vec<Vec<Ev>> {
    fn go(cur: &mut Vec<Ev>, calls: usize, replied: u8, abandoned: u8, gate: bool, dropped: bool, max_len: usize, out: &mut Vec<Vec<Ev>>) {
        if !cur.is_empty() {
            out.push(cur.clone());
        }
        if cur.len() == max_len {
            return;
        }
        if calls < 3 && !dropped {
            cur.push(Ev::Call);
            go(cur, calls + 1, replied, abandoned, gate, dropped, max_len, out);
            cur.pop();
        }
        for k in 0..calls {
            if replied & (1 << k) == 0 && abandoned & (1 << k) == 0 {
                cur.push(Ev::Reply(k));
                go(cur, calls, replied | (1 << k), abandoned, gate, dropped, max_len, out);
                cur.pop();
                cur.push(Ev::Abandon(k));
                go(cur, calls, replied, abandoned | (1 << k), gate, dropped, max_len, out);
                cur.pop();
            }
        }
        if !gate {
            cur.push(Ev::OpenGate);
            go(cur, calls, replied, abandoned, true, dropped, max_len, out);
            cur.pop();
        }
        if !dropped && calls > 0 {
            cur.push(Ev::DropClient);
            go(cur, calls, replied, abandoned, gate, true, max_len, out);
            cur.pop();
        }
    }
    let mut out = vec![];
    go(&mut vec![], 0, 0, 0, false, false, max_len, &mut out);
    out.retain(|s| s[0] == Ev::Call);
    out.sort_by_key(|s| s.len());
    out
}

#[test]
fn wake_driven_equals_eager() {
    let rt = tokio::runtime::Builder::new_current_thread().enable_time().start_paused(true).build().unwrap();
    let _g = rt.enter();
    let max_len = if std::env::var("VERIF_TIER").as_deref() == Ok("thorough") { 8 } else { 7 };
    let mut evaluations = 0u64;
    let mut failures: Vec<String> = vec![];
    'outer: for script in scripts(max_len) {
        for capacity in [1usize, 2] {
            for gated in [false, true] {
                if !gated && script.contains(&Ev::OpenGate) {
                    continue;
                }
                let (Some(eager), Some(driven)) = (run(&script, capacity, gated, true), run(&script, capacity, gated, false)) else { continue };
                evaluations += 1;
                if eager != driven {
                    failures.push(format!(
                        "C02: events {script:?}, in-flight maximum {capacity}, transport writable from the start {}: polled only when woken the system ends at {driven:?}, with unsolicited polls it ends at {eager:?}",
                        !gated
                    ));
                    if failures.len() >= 3 {
                        break 'outer;
                    }
                }
            }
        }
    }
    for f in &failures {
        println!("VERIF-FAIL {f}");
    }
    println!("VERIF-BOUNDED client_wakeups evaluations={evaluations} bound=well-formed event sequences <= {max_len} over {{call (<= 3), reply k, abandon k, transport becomes writable, last handle dropped}} x in-flight maximum 1|2 x writable from the start|not, each run wake-driven and eagerly");
    assert!(failures.is_empty(), "{}", failures[0]);
}
