//! BOUNDED replay search for C02 (no lost wakeup) on the server side, through the public API.
//! Events: a message arrives (Req 7, Req 8, Cancel 7), handler #k finishes, the response sink becomes
//! writable, the peer closes the inbound side.  Tasks: the channel's request stream and one task
//! per handler invocation.  Every scenario is run twice over the same hand-written transport --
//! wake-driven (a task is polled only when its own waker fired, plus once when it is created) and
//! eagerly (every task polled repeatedly after every event) -- with and without the request-limit
//! layer.  The property says progress never depends on an unsolicited poll, so both runs must end
//! in the same place: same responses on the wire, same handlers started/finished/aborted, same
//! stream state.  Less progress in the wake-driven run is a lost wakeup.
//! The transport wakes the reader when a message arrives or the inbound side closes and the
//! writer when it becomes writable, and nothing else.  (The clock does not move.)
//! Source of concrete failing inputs for the C02 clauses of unit `server`; never counted as proof.
use futures::prelude::*;
use futures::task::{waker, ArcWake};
use std::collections::VecDeque;
use std::future::Future;
use std::pin::Pin;
use std::sync::atomic::{AtomicBool, Ordering};
use std::sync::{Arc, Mutex};
use std::task::{Context, Poll, Waker};
use tarpc::server::{self, BaseChannel, Channel};
use tarpc::{context, ClientMessage, Request, Response};

struct Flag(AtomicBool);
impl ArcWake for Flag {
    fn wake_by_ref(a: &Arc<Self>) {
        a.0.store(true, Ordering::SeqCst);
    }
}

#[derive(Default)]
struct Shared {
    gate_open: bool,
    inbound: VecDeque<ClientMessage<String>>,
    inbound_closed: bool,
    wire: Vec<String>,
    read_waker: Option<Waker>,
    ready_waker: Option<Waker>,
    ready_polls: usize,
    // handlers, by invocation number
    started: Vec<u64>,
    released: Vec<bool>,
    finished: Vec<bool>,
    dropped: Vec<bool>,
    handler_wakers: Vec<Option<Waker>>,
}

#[derive(Clone)]
struct T(Arc<Mutex<Shared>>);
impl Stream for T {
    type Item = Result<ClientMessage<String>, std::io::Error>;
    fn poll_next(self: Pin<&mut Self>, cx: &mut Context<'_>) -> Poll<Option<Self::Item>> {
        let mut s = self.0.lock().unwrap();
        match s.inbound.pop_front() {
            Some(m) => Poll::Ready(Some(Ok(m))),
            None if s.inbound_closed => Poll::Ready(None),
            None => {
                s.read_waker = Some(cx.waker().clone());
                Poll::Pending
            }
        }
    }
}
impl Sink<Response<String>> for T {
    type Error = std::io::Error;
    fn poll_ready(self: Pin<&mut Self>, cx: &mut Context<'_>) -> Poll<Result<(), Self::Error>> {
        let mut s = self.0.lock().unwrap();
        s.ready_polls += 1;
        if s.ready_polls > 10_000 {
            panic!("C14/C02: the sink said not-ready and its readiness was polled more than 10000 times without any event in between");
        }
        if s.gate_open {
            Poll::Ready(Ok(()))
        } else {
            s.ready_waker = Some(cx.waker().clone());
            Poll::Pending
        }
    }
    fn start_send(self: Pin<&mut Self>, r: Response<String>) -> Result<(), Self::Error> {
        self.0.lock().unwrap().wire.push(format!("{} {}", r.request_id, if r.message.is_ok() { "ok" } else { "err" }));
        Ok(())
    }
    fn poll_flush(self: Pin<&mut Self>, _: &mut Context<'_>) -> Poll<Result<(), Self::Error>> {
        Poll::Ready(Ok(()))
    }
    fn poll_close(self: Pin<&mut Self>, _: &mut Context<'_>) -> Poll<Result<(), Self::Error>> {
        Poll::Ready(Ok(()))
    }
}

#[derive(Clone, Copy, Debug, PartialEq)]
enum Ev {
    Req(u64),
    Cancel(u64),
    Finish(usize),
    OpenGate,
    CloseInbound,
}

type Exec = Pin<Box<dyn Future<Output = ()>>>;

#[derive(Debug, PartialEq)]
struct Outcome {
    wire: Vec<String>,
    handlers: Vec<String>,
    stream: String,
}

fn run<S, E>(shared: Arc<Mutex<Shared>>, mut requests: S, events: &[Ev], eager: bool) -> Option<Outcome>
where
    S: Stream<Item = Result<server::InFlightRequest<String, String>, E>> + Unpin,
{
    let sflag = Arc::new(Flag(AtomicBool::new(true)));
    let mut stream_state = "open".to_string();
    let mut execs: Vec<Option<Exec>> = vec![];
    let mut eflags: Vec<Arc<Flag>> = vec![];
    macro_rules! settle {
        () => {{
            let mut rounds = 0;
            loop {
                let mut polled = false;
                if stream_state == "open" && (eager || sflag.0.swap(false, Ordering::SeqCst)) {
                    polled = true;
                    let w = waker(sflag.clone());
                    loop {
                        match Pin::new(&mut requests).poll_next(&mut Context::from_waker(&w)) {
                            Poll::Ready(Some(Ok(r))) => {
                                let sh = shared.clone();
                                let id = r.get().id;
                                let f = r.execute(server::serve(move |_ctx, body: String| {
                                    let sh = sh.clone();
                                    async move {
                                        let inc = {
                                            let mut s = sh.lock().unwrap();
                                            s.started.push(id);
                                            s.released.push(false);
                                            s.finished.push(false);
                                            s.dropped.push(false);
                                            s.handler_wakers.push(None);
                                            s.started.len() - 1
                                        };
                                        struct Guard(Arc<Mutex<Shared>>, usize);
                                        impl Drop for Guard {
                                            fn drop(&mut self) {
                                                self.0.lock().unwrap().dropped[self.1] = true;
                                            }
                                        }
                                        let _g = Guard(sh.clone(), inc);
                                        futures::future::poll_fn(|cx| {
                                            let mut s = sh.lock().unwrap();
                                            if s.released[inc] {
                                                Poll::Ready(())
                                            } else {
                                                s.handler_wakers[inc] = Some(cx.waker().clone());
                                                Poll::Pending
                                            }
                                        })
                                        .await;
                                        sh.lock().unwrap().finished[inc] = true;
                                        Ok(format!("answer to {body}"))
                                    }
                                }));
                                execs.push(Some(Box::pin(f)));
                                eflags.push(Arc::new(Flag(AtomicBool::new(true))));
                            }
                            Poll::Ready(Some(Err(_))) => {
                                stream_state = "error".to_string();
                                break;
                            }
                            Poll::Ready(None) => {
                                stream_state = "ended".to_string();
                                break;
                            }
                            Poll::Pending => break,
                        }
                    }
                }
                for k in 0..execs.len() {
                    if execs[k].is_some() && (eager || eflags[k].0.swap(false, Ordering::SeqCst)) {
                        polled = true;
                        let w = waker(eflags[k].clone());
                        if execs[k].as_mut().unwrap().as_mut().poll(&mut Context::from_waker(&w)).is_ready() {
                            execs[k] = None;
                        }
                    }
                }
                rounds += 1;
                if eager {
                    if rounds >= 6 {
                        break;
                    }
                } else if !polled || rounds > 50 {
                    break;
                }
            }
        }};
    }
    settle!();
    for ev in events {
        {
            let mut s = shared.lock().unwrap();
            s.ready_polls = 0;
            match *ev {
                Ev::Req(id) => {
                    if s.inbound_closed {
                        return None;
                    }
                    s.inbound.push_back(ClientMessage::Request(Request { context: context::current(), id, message: format!("req {id}") }));
                    if let Some(w) = s.read_waker.take() {
                        w.wake();
                    }
                }
                Ev::Cancel(id) => {
                    if s.inbound_closed {
                        return None;
                    }
                    s.inbound.push_back(ClientMessage::Cancel { trace_context: Default::default(), request_id: id });
                    if let Some(w) = s.read_waker.take() {
                        w.wake();
                    }
                }
                Ev::Finish(k) => {
                    if k >= s.released.len() || s.released[k] || s.dropped[k] {
                        return None;
                    }
                    s.released[k] = true;
                    if let Some(w) = s.handler_wakers[k].take() {
                        w.wake();
                    }
                }
                Ev::OpenGate => {
                    if s.gate_open {
                        return None;
                    }
                    s.gate_open = true;
                    if let Some(w) = s.ready_waker.take() {
                        w.wake();
                    }
                }
                Ev::CloseInbound => {
                    if s.inbound_closed {
                        return None;
                    }
                    s.inbound_closed = true;
                    if let Some(w) = s.read_waker.take() {
                        w.wake();
                    }
                }
            }
        }
        settle!();
    }
    let s = shared.lock().unwrap();
    Some(Outcome {
        wire: s.wire.clone(),
        handlers: (0..s.started.len())
            .map(|k| format!("#{k} id {} {}", s.started[k], if s.finished[k] { "finished" } else if s.dropped[k] { "aborted" } else { "running" }))
            .collect(),
        stream: stream_state,
    })
}

fn one(events: &[Ev], limit: Option<usize>, gated: bool, eager: bool) -> Option<Outcome> {
    let shared = Arc::new(Mutex::new(Shared { gate_open: !gated, ..Default::default() }));
    let base = BaseChannel::with_defaults(T(shared.clone()));
    match limit {
        None => run(shared, base.requests(), events, eager),
        Some(l) => run(shared, base.max_concurrent_requests(l).requests(), events, eager),
    }
}

fn advance(idx: &mut [usize], base: usize) -> bool {
    for p in (0..idx.len()).rev() {
        idx[p] += 1;
        if idx[p] < base {
            return true;
        }
        idx[p] = 0;
    }
    false
}

#[test]
fn wake_driven_equals_eager() {
    let rt = tokio::runtime::Builder::new_current_thread().enable_time().start_paused(true).build().unwrap();
    let _g = rt.enter();
    let alphabet = [Ev::Req(7), Ev::Req(8), Ev::Cancel(7), Ev::Finish(0), Ev::Finish(1), Ev::OpenGate, Ev::CloseInbound];
    let max_len = if std::env::var("VERIF_TIER").as_deref() == Ok("thorough") { 6 } else { 5 };
    let mut evaluations = 0u64;
    let mut failures: Vec<String> = vec![];
    'outer: for len in 1..=max_len {
        let mut idx = vec![0usize; len];
        loop {
            let script: Vec<Ev> = idx.iter().map(|&i| alphabet[i]).collect();
            if matches!(script[0], Ev::Req(_)) && script.iter().filter(|e| **e == Ev::OpenGate).count() <= 1 {
                for limit in [None, Some(1usize)] {
                    for gated in [false, true] {
                        if !gated && script.contains(&Ev::OpenGate) {
                            continue;
                        }
                        let (Some(eager), Some(driven)) = (one(&script, limit, gated, true), one(&script, limit, gated, false)) else { continue };
                        evaluations += 1;
                        if eager != driven {
                            failures.push(format!(
                                "C02: events {script:?}, request limit {limit:?}, sink writable from the start {}: polled only when woken the channel ends at {driven:?}, with unsolicited polls it ends at {eager:?}",
                                !gated
                            ));
                            if failures.len() >= 3 {
                                break 'outer;
                            }
                        }
                    }
                }
            }
            if !advance(&mut idx, alphabet.len()) {
                break;
            }
        }
        if !failures.is_empty() {
            break;
        }
    }
    for f in &failures {
        println!("VERIF-FAIL {f}");
    }
    println!("VERIF-BOUNDED server_wakeups evaluations={evaluations} bound=event sequences <= {max_len} over {{Req 7, Req 8, Cancel 7, handler #0|#1 finishes, sink becomes writable, inbound closes}} x request limit none|1 x sink writable from the start|not, each run wake-driven and eagerly");
    assert!(failures.is_empty(), "{}", failures[0]);
}
