//! BOUNDED replay search for C13 (per-key channel limit) through the public API:
//! `Incoming::max_channels_per_key(n, key)` over a `futures::channel::mpsc::unbounded` listener of
//! `BaseChannel`s, driven by every script of at most LEN events over the alphabet
//!   A0 / A1  a channel with key 0 / key 1 arrives at the listener,
//!   D0..D2   the k-th oldest yielded channel that is still alive is dropped,
//!   P        the filter is polled once,
//! for n = 1 and n = 2.  The oracle is the property itself, which is exact here because the real
//! filter decides on live strong counts: an arrival is admitted iff fewer than n yielded channels
//! with its key are alive when the filter reaches it; one poll yields the first admitted arrival
//! (shedding those before it) or is Pending when the listener is drained.
//! Used as the source of *concrete failing inputs* when the deductive check of unit `channels`
//! is undecided or fails; a pass is never counted as proof.
use futures::{prelude::*, task::noop_waker_ref};
use std::{
    collections::VecDeque,
    pin::Pin,
    task::{Context, Poll},
};
use tarpc::{
    server::{incoming::Incoming, BaseChannel, Channel, Config},
    transport::channel::{self, UnboundedChannel},
    ClientMessage, Response,
};

type Transport = UnboundedChannel<ClientMessage<()>, Response<()>>;
type Chan = BaseChannel<(), (), Transport>;
type ClientEnd = UnboundedChannel<Response<()>, ClientMessage<()>>;

/// quick tier: the first bound; thorough tier (VERIF_TIER=thorough, set by vx/native_run.py): the second
fn bound(quick: usize, thorough: usize) -> usize {
    if std::env::var("VERIF_TIER").as_deref() == Ok("thorough") { thorough } else { quick }
}


#[derive(Clone, Copy, Debug, PartialEq)]
enum Ev {
    Arrive(usize),
    Drop(usize),
    Poll,
}
const ALPHABET: [Ev; 6] = [Ev::Arrive(0), Ev::Arrive(1), Ev::Drop(0), Ev::Drop(1), Ev::Drop(2), Ev::Poll];

/// a server channel tagged with (key, serial) in its config, and the client half (kept alive)
fn conn(key: usize, serial: usize) -> (Chan, ClientEnd) {
    let (client, server) = channel::unbounded();
    (BaseChannel::new(Config { pending_response_buffer: (serial << 8) | key }, server), client)
}

fn run(n: u32, script: &[Ev]) -> Result<(), String> {
    let mut cx = Context::from_waker(noop_waker_ref());
    let (new_channels, listener) = futures::channel::mpsc::unbounded::<Chan>();
    let mut incoming = Box::pin(listener.max_channels_per_key(n, |c: &Chan| c.config().pending_response_buffer & 0xff));
    let mut clients: Vec<ClientEnd> = vec![];
    // model
    let mut queued: VecDeque<(usize, usize)> = VecDeque::new(); // (key, serial) waiting in the listener
    let mut alive_model: Vec<(usize, usize)> = vec![]; // yielded and alive, oldest first
    // real
    let mut alive = vec![]; // (key, serial, yielded channel), oldest first
    let mut serial = 0usize;
    for (step, ev) in script.iter().enumerate() {
        match *ev {
            Ev::Arrive(key) => {
                let (ch, client) = conn(key, serial);
                clients.push(client);
                new_channels.unbounded_send(ch).map_err(|e| e.to_string())?;
                queued.push_back((key, serial));
                serial += 1;
            }
            Ev::Drop(k) => {
                if k >= alive.len() {
                    return Ok(()); // not a script of this shape (pruned; counted once elsewhere)
                }
                alive_model.remove(k);
                drop(alive.remove(k));
            }
            Ev::Poll => {
                // model: shed until one is admitted
                let mut expect = None;
                while let Some((key, s)) = queued.pop_front() {
                    if alive_model.iter().filter(|(k, _)| *k == key).count() < n as usize {
                        expect = Some((key, s));
                        break;
                    }
                }
                let got = match Pin::as_mut(&mut incoming).poll_next(&mut cx) {
                    Poll::Ready(Some(ch)) => {
                        let tag = ch.config().pending_response_buffer;
                        let id = (tag & 0xff, tag >> 8);
                        alive.push((id.0, id.1, ch));
                        Some(id)
                    }
                    Poll::Ready(None) => return Err(format!("step {step}: the filter ended although the listener is open")),
                    Poll::Pending => None,
                };
                if let Some(id) = expect {
                    alive_model.push(id);
                }
                if got != expect {
                    let same = |v: &Vec<(usize, usize)>, key| v.iter().filter(|(k, _)| *k == key).count();
                    return Err(format!(
                        "n={n} script={script:?} step {step}: the filter yielded {got:?} (key, serial) where the property demands {expect:?}; alive per key before this poll: key0={} key1={}",
                        same(&alive_model, 0) - usize::from(expect.map_or(false, |e| e.0 == 0)),
                        same(&alive_model, 1) - usize::from(expect.map_or(false, |e| e.0 == 1)),
                    ));
                }
                for key in 0..2 {
                    let live = alive.iter().filter(|(k, _, _)| *k == key).count();
                    if live > n as usize {
                        return Err(format!("n={n} script={script:?} step {step}: {live} yielded channels with key {key} are alive"));
                    }
                }
            }
        }
    }
    Ok(())
}

fn valid(script: &[Ev]) -> bool {
    // structural pruning that does not depend on the filter: Drop(k) needs k < number of polls so far
    // (at most one channel is yielded per poll) and every script ends with a poll
    let mut polls = 0usize;
    let mut drops = 0usize;
    for ev in script {
        match ev {
            Ev::Poll => polls += 1,
            Ev::Drop(k) => {
                if *k + drops >= polls {
                    return false;
                }
                drops += 1;
            }
            _ => {}
        }
    }
    script.last() == Some(&Ev::Poll)
}

#[test]
fn channels_per_key_scripts() {
    let mut scripts = 0u64;
    let mut failures: Vec<String> = vec![];
    let max_len = bound(9, 10);
    for len in 1..=max_len {
        let mut idx = vec![0usize; len];
        'outer: loop {
            let script: Vec<Ev> = idx.iter().map(|&i| ALPHABET[i]).collect();
            if valid(&script) {
                for n in [1u32, 2] {
                    scripts += 1;
                    if let Err(e) = run(n, &script) {
                        if failures.len() < 3 {
                            failures.push(e);
                        }
                    }
                }
            }
            let mut p = len;
            loop {
                if p == 0 {
                    break 'outer;
                }
                p -= 1;
                idx[p] += 1;
                if idx[p] < ALPHABET.len() {
                    break;
                }
                idx[p] = 0;
            }
        }
        if !failures.is_empty() {
            break; // shortest failing scripts first
        }
    }
    // Longer histories than the exhaustive part reaches: close notifications pile up while keys are closed and re-opened.
    // (a) a structured family: one channel of each key admitted and dropped, then c cycles of "key 1 arrives, is admitted,
    //     is dropped" with a poll only at each arrival, then one arrival that stays, p catch-up polls, and two more arrivals;
    // (b) a fixed pseudo-random sample of scripts of 10..=18 events (LCG with a fixed seed; arrive : poll : drop = 3 : 4 : 3).
    let long_before = scripts;
    if failures.is_empty() {
        for first_other in [false, true] {
            for c in 0..=3usize {
                for p in 0..=2usize {
                    let mut script = vec![];
                    if first_other {
                        script.extend([Ev::Arrive(0), Ev::Poll]);
                    }
                    script.extend([Ev::Arrive(1), Ev::Poll]);
                    script.extend(std::iter::repeat(Ev::Drop(0)).take(if first_other { 2 } else { 1 }));
                    for _ in 0..c {
                        script.extend([Ev::Arrive(1), Ev::Poll, Ev::Drop(0)]);
                    }
                    script.extend([Ev::Arrive(1), Ev::Poll]);
                    script.extend(std::iter::repeat(Ev::Poll).take(p));
                    script.extend([Ev::Arrive(1), Ev::Poll, Ev::Arrive(1), Ev::Poll]);
                    for n in [1u32, 2] {
                        scripts += 1;
                        if let Err(e) = run(n, &script) {
                            if failures.len() < 3 {
                                failures.push(e);
                            }
                        }
                    }
                }
            }
        }
        let mut state: u64 = 0x5DEECE66D;
        let mut next = |m: u64| {
            state = state.wrapping_mul(6364136223846793005).wrapping_add(1442695040888963407);
            (state >> 33) % m
        };
        let samples = bound(20_000, 200_000);
        for _ in 0..samples {
            let len = 10 + next(9) as usize;
            let mut script = vec![];
            let mut polls = 0usize;
            let mut drops = 0usize;
            while script.len() + 1 < len {
                match next(10) {
                    0..=2 => script.push(Ev::Arrive(next(2) as usize)),
                    3..=6 => {
                        script.push(Ev::Poll);
                        polls += 1;
                    }
                    _ => {
                        if drops < polls {
                            script.push(Ev::Drop(0.max(next(3) as usize).min(polls - drops - 1)));
                            drops += 1;
                        }
                    }
                }
            }
            script.push(Ev::Poll);
            for n in [1u32, 2] {
                scripts += 1;
                if let Err(e) = run(n, &script) {
                    if failures.len() < 3 {
                        failures.push(e);
                    }
                }
            }
        }
    }
    println!("VERIF-BOUNDED channels_per_key evaluations={scripts} bound=events<={max_len},keys=2,n in 1..=2 exhaustive; plus {} longer scripts (close-and-reopen churn family; fixed pseudo-random sample of 10..=18 events)", scripts - long_before);
    for f in &failures {
        println!("VERIF-FAIL C13 {f}");
    }
    assert!(failures.is_empty(), "{}", failures[0]);
}
