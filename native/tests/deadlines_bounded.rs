//! BOUNDED replay search for deadline enforcement (properties C05 client side, C06 server side)
//! through the public API, on tokio's paused clock: for a grid of deadlines D and of times at which
//! the peer / the handler answers (never, before D, after D) it checks, by advancing the clock, that
//! nothing is timed out at 0.8 D ("never early"), that the timeout has happened by 1.2 D + 5 ms
//! ("once its deadline passes, to timer granularity"), that an answer processed before D is
//! delivered instead, that nothing is transmitted for an expired request afterwards and that other
//! requests on the same channel are unaffected.
//! (`context::Context::deadline` is a std Instant, which the paused tokio clock does not stop; the
//! real time that passes inside one scenario is microseconds, far below the 20 % margins.)
//! Source of *concrete failing inputs* when the deductive checks of the deadline clauses (units
//! client / server: insert_request, start_request, poll_expired, pump_write, BaseChannel::poll_next)
//! are undecided or fail; a pass is never counted as proof.
use futures::prelude::*;
use std::sync::atomic::{AtomicBool, Ordering};
use std::sync::Arc;
use std::time::{Duration, Instant};
use tarpc::client::{self, RpcError};
use tarpc::server::{self, BaseChannel, Channel};
use tarpc::{context, transport, ClientMessage, Request, Response};

type ClientEnd = transport::channel::UnboundedChannel<Response<String>, ClientMessage<String>>;
type ServerEnd = transport::channel::UnboundedChannel<ClientMessage<String>, Response<String>>;

async fn settle() {
    for _ in 0..20 {
        tokio::task::yield_now().await;
    }
}
async fn advance_to(t0: tokio::time::Instant, at: Duration) {
    let now = tokio::time::Instant::now();
    if t0 + at > now {
        tokio::time::advance(t0 + at - now).await;
    }
    settle().await;
}

/// C05: one call with deadline D; the peer answers at `reply_at` (or never).
async fn client_case(d: Duration, reply_at: Option<Duration>) -> Result<(), String> {
    let what = format!("client: deadline in {d:?}, peer replies at {reply_at:?}");
    let (tx, mut rx): (ClientEnd, ServerEnd) = transport::channel::unbounded();
    let client::NewClient { client, dispatch } = client::new::<String, String, _>(client::Config::default(), tx);
    let dispatch = tokio::spawn(dispatch);
    let t0 = tokio::time::Instant::now();
    let mut ctx = context::current();
    ctx.deadline = Instant::now() + d;
    let c = client.clone();
    let call = tokio::spawn(async move { c.call(ctx, "body".to_string()).await });
    settle().await;
    let id = match rx.next().now_or_never() {
        Some(Some(Ok(ClientMessage::Request(r)))) => r.id,
        other => return Err(format!("C05 {what}: the request was not transmitted ({:?})", other.map(|o| o.map(|r| r.is_ok())))),
    };
    let early = d.mul_f64(0.8);
    let late = d.mul_f64(1.2) + Duration::from_millis(5);
    let mut replied = false;
    for (at, is_late_mark) in [(early, false), (late, true)] {
        if let Some(r) = reply_at {
            if !replied && r <= at {
                advance_to(t0, r).await;
                let _ = rx.send(Response { request_id: id, message: Ok("reply".to_string()) }).await;
                replied = true;
                settle().await;
            }
        }
        advance_to(t0, at).await;
        let answered_in_time = reply_at.map_or(false, |r| r < d) && replied;
        if !is_late_mark {
            if call.is_finished() && !answered_in_time {
                return Err(format!("C05 {what}: the call was resolved at 0.8 x deadline, before its deadline and without a reply"));
            }
        } else if !call.is_finished() {
            return Err(format!("C05 {what}: the call is still pending at 1.2 x deadline + 5 ms"));
        }
    }
    let out = call.await.map_err(|e| e.to_string())?;
    match (reply_at, out) {
        (Some(r), Ok(body)) if r < d && body == "reply" => {}
        (Some(r), other) if r < d => return Err(format!("C05 {what}: a reply processed before the deadline must be delivered, got {other:?}")),
        (_, Err(RpcError::DeadlineExceeded)) => {}
        (_, other) => return Err(format!("C05 {what}: expected a deadline-exceeded error, got {other:?}")),
    }
    drop(client);
    dispatch.abort();
    Ok(())
}

/// C05, "time the request spent queued before transmission counts against the deadline": with an in-flight
/// maximum of 1, call B (deadline D = 2 s) waits 1 s of real time behind call A before it is transmitted
/// (`Context::deadline` is a std Instant, so the wait has to be real); the timer armed at transmission must then
/// have about 1 s left: still pending 0.5 s later, failed 1.5 s later (the margins tolerate half a second of
/// scheduling noise on a loaded machine).
async fn client_queued_case() -> Result<(), String> {
    let what = "client: in-flight maximum 1, call B (deadline in 2 s) queued for 1 s behind call A";
    let (tx, mut rx): (ClientEnd, ServerEnd) = transport::channel::unbounded();
    let mut cfg = client::Config::default();
    cfg.max_in_flight_requests = 1;
    let client::NewClient { client, dispatch } = client::new::<String, String, _>(cfg, tx);
    let dispatch = tokio::spawn(dispatch);
    let mut ctx_a = context::current();
    ctx_a.deadline = Instant::now() + Duration::from_secs(3600);
    let ca = client.clone();
    let call_a = tokio::spawn(async move { ca.call(ctx_a, "A".to_string()).await });
    settle().await;
    let id_a = match rx.next().now_or_never() {
        Some(Some(Ok(ClientMessage::Request(r)))) => r.id,
        _ => return Err(format!("C05 {what}: request A was not transmitted")),
    };
    let mut ctx_b = context::current();
    ctx_b.deadline = Instant::now() + Duration::from_millis(2000);
    let cb = client.clone();
    let call_b = tokio::spawn(async move { cb.call(ctx_b, "B".to_string()).await });
    settle().await;
    if rx.next().now_or_never().is_some() {
        return Err(format!("C11 {what}: request B was transmitted while A holds the only slot"));
    }
    std::thread::sleep(Duration::from_millis(1000));
    rx.send(Response { request_id: id_a, message: Ok("reply".to_string()) }).await.map_err(|e| e.to_string())?;
    settle().await;
    match rx.next().now_or_never() {
        Some(Some(Ok(ClientMessage::Request(r)))) if r.message == "B" => {}
        _ => return Err(format!("C05 {what}: request B was not transmitted once A was answered")),
    }
    let t0 = tokio::time::Instant::now();
    advance_to(t0, Duration::from_millis(500)).await;
    if call_b.is_finished() {
        return Err(format!("C05 {what}: B was resolved 0.5 s after its transmission, 1.5 s into a 2 s deadline"));
    }
    advance_to(t0, Duration::from_millis(1500)).await;
    if !call_b.is_finished() {
        return Err(format!("C05 {what}: B is still pending 1.5 s after its transmission, 2.5 s into a 2 s deadline: the time spent queued was not counted"));
    }
    match call_b.await.map_err(|e| e.to_string())? {
        Err(RpcError::DeadlineExceeded) => {}
        other => return Err(format!("C05 {what}: expected a deadline-exceeded error for B, got {other:?}")),
    }
    let _ = call_a.await;
    drop(client);
    dispatch.abort();
    Ok(())
}

/// C11 / C16: a call is abandoned at the very moment its reply arrives (the reply is read before the cancellation
/// is processed); later the call's deadline passes. Nothing may be left behind that fires then: the dispatch keeps
/// running and serves a further call.
async fn client_abandoned_then_answered_case() -> Result<(), String> {
    let what = "client: call (deadline in 300 ms) abandoned just as its reply arrives, then the deadline passes";
    let (tx, mut rx): (ClientEnd, ServerEnd) = transport::channel::unbounded();
    let client::NewClient { client, dispatch } = client::new::<String, String, _>(client::Config::default(), tx);
    let dispatch = tokio::spawn(dispatch);
    let mut ctx = context::current();
    ctx.deadline = Instant::now() + Duration::from_millis(300);
    let c = client.clone();
    let mut call: std::pin::Pin<Box<dyn std::future::Future<Output = Result<String, RpcError>>>> = Box::pin(async move { c.call(ctx, "first".to_string()).await });
    if futures::poll!(call.as_mut()).is_ready() {
        return Err(format!("C05 {what}: the call resolved before anything happened"));
    }
    settle().await;
    let id = match rx.next().now_or_never() {
        Some(Some(Ok(ClientMessage::Request(r)))) => r.id,
        _ => return Err(format!("C05 {what}: the request was not transmitted")),
    };
    rx.send(Response { request_id: id, message: Ok("reply".to_string()) }).await.map_err(|e| e.to_string())?;
    drop(call); // abandoned before the dispatch gets to run again
    settle().await;
    let t0 = tokio::time::Instant::now();
    advance_to(t0, Duration::from_millis(400)).await;
    if dispatch.is_finished() {
        let r = dispatch.await;
        return Err(format!("C16 {what}: the dispatch ended ({})", match r { Err(e) if e.is_panic() => "it panicked".to_string(), other => format!("{other:?}") }));
    }
    let mut ctx2 = context::current();
    ctx2.deadline = Instant::now() + Duration::from_secs(60);
    let c2 = client.clone();
    let second = tokio::spawn(async move { c2.call(ctx2, "second".to_string()).await });
    settle().await;
    loop {
        match rx.next().now_or_never() {
            Some(Some(Ok(ClientMessage::Request(r)))) => {
                rx.send(Response { request_id: r.id, message: Ok("reply 2".to_string()) }).await.map_err(|e| e.to_string())?;
                break;
            }
            Some(Some(Ok(_))) => continue, // the cancellation of the first call
            _ => return Err(format!("C16 {what}: a further call was not transmitted")),
        }
    }
    settle().await;
    if !second.is_finished() {
        return Err(format!("C16 {what}: a further call is not served"));
    }
    match second.await.map_err(|e| e.to_string())? {
        Ok(b) if b == "reply 2" => {}
        other => return Err(format!("C16 {what}: a further call resolved with {other:?}")),
    }
    drop(client);
    dispatch.abort();
    Ok(())
}

/// C01 / C05, "a late response for an expired call is discarded without disturbing any other call": `k` calls
/// (deadline 300 ms) expire unanswered; then `m` further calls (deadline 60 s) are transmitted; then the peer sends
/// late responses bearing the ids of the expired calls (twice each). None of the later calls may be resolved by
/// them; each must then resolve with the reply that bears its own id.
async fn client_late_reply_after_expiry_case(k: usize, m: usize) -> Result<(), String> {
    let what = format!("client: {k} call(s) expire unanswered, {m} further call(s) are written, then late replies for the expired ids arrive");
    let (tx, mut rx): (ClientEnd, ServerEnd) = transport::channel::unbounded();
    let client::NewClient { client, dispatch } = client::new::<String, String, _>(client::Config::default(), tx);
    let dispatch = tokio::spawn(dispatch);
    let t0 = tokio::time::Instant::now();
    let mut first = vec![];
    for i in 0..k {
        let mut ctx = context::current();
        ctx.deadline = Instant::now() + Duration::from_millis(300);
        let c = client.clone();
        first.push(tokio::spawn(async move { c.call(ctx, format!("a{i}")).await }));
    }
    settle().await;
    let mut expired_ids = vec![];
    while let Some(Some(Ok(msg))) = rx.next().now_or_never() {
        if let ClientMessage::Request(r) = msg {
            expired_ids.push(r.id);
        }
    }
    if expired_ids.len() != k {
        return Err(format!("C05 {what}: {} of {k} requests were transmitted", expired_ids.len()));
    }
    advance_to(t0, Duration::from_millis(400)).await;
    for h in first {
        match h.await.map_err(|e| e.to_string())? {
            Err(RpcError::DeadlineExceeded) => {}
            other => return Err(format!("C05 {what}: an unanswered call resolved with {other:?} after its deadline")),
        }
    }
    let mut later = vec![];
    for i in 0..m {
        let mut ctx = context::current();
        ctx.deadline = Instant::now() + Duration::from_secs(60);
        let c = client.clone();
        later.push(tokio::spawn(async move { c.call(ctx, format!("b{i}")).await }));
        settle().await;
    }
    let mut later_ids = vec![];
    while let Some(Some(Ok(msg))) = rx.next().now_or_never() {
        if let ClientMessage::Request(r) = msg {
            later_ids.push((r.id, r.message.clone()));
        }
    }
    if later_ids.len() != m {
        return Err(format!("C05 {what}: {} of {m} later requests were transmitted", later_ids.len()));
    }
    for _ in 0..2 {
        for id in &expired_ids {
            rx.send(Response { request_id: *id, message: Ok(format!("late reply for expired call {id}")) }).await.map_err(|e| e.to_string())?;
        }
    }
    settle().await;
    if dispatch.is_finished() {
        return Err(format!("C16 {what}: the dispatch ended"));
    }
    for (i, h) in later.iter().enumerate() {
        if h.is_finished() {
            return Err(format!("C01 {what}: later call b{i} was resolved by a response that bears the id of an expired call"));
        }
    }
    for (id, body) in &later_ids {
        rx.send(Response { request_id: *id, message: Ok(format!("reply to {body}")) }).await.map_err(|e| e.to_string())?;
    }
    settle().await;
    for (i, h) in later.into_iter().enumerate() {
        if !h.is_finished() {
            return Err(format!("C01 {what}: later call b{i} is still pending after the reply bearing its id arrived"));
        }
        match h.await.map_err(|e| e.to_string())? {
            Ok(b) if b == format!("reply to b{i}") => {}
            other => return Err(format!("C01 {what}: later call b{i} resolved with {other:?}")),
        }
    }
    drop(client);
    dispatch.abort();
    Ok(())
}

struct Flag(Arc<AtomicBool>);
impl Drop for Flag {
    fn drop(&mut self) {
        self.0.store(true, Ordering::SeqCst);
    }
}

/// C06: request 7 with deadline D whose handler finishes at `finish_at` (or never), next to
/// request 8 with deadline 10 D whose handler finishes at 1.5 D.
async fn server_case(d: Duration, finish_at: Option<Duration>, throttled: bool) -> Result<(), String> {
    let what = format!("server: deadline in {d:?}, handler finishes at {finish_at:?}, request-limit layer {throttled}");
    let (mut peer, server_end): (ClientEnd, ServerEnd) = transport::channel::unbounded();
    let ended7 = Arc::new(AtomicBool::new(false));
    let completed7 = Arc::new(AtomicBool::new(false));
    let (e7, c7) = (ended7.clone(), completed7.clone());
    let other_done_at = d.mul_f64(1.5);
    let handler = server::serve(move |_ctx: context::Context, body: String| {
        let (e7, c7) = (e7.clone(), c7.clone());
        async move {
            if body == "seven" {
                let _flag = Flag(e7);
                match finish_at {
                    Some(t) => tokio::time::sleep(t).await,
                    None => futures::future::pending::<()>().await,
                }
                c7.store(true, Ordering::SeqCst);
                Ok("seven done".to_string())
            } else {
                tokio::time::sleep(other_done_at).await;
                Ok("eight done".to_string())
            }
        }
    });
    let base = BaseChannel::with_defaults(server_end);
    let serving = if throttled {
        tokio::spawn(base.max_concurrent_requests(4).execute(handler).for_each(|f| async move {
            tokio::spawn(f);
        }))
    } else {
        tokio::spawn(base.execute(handler).for_each(|f| async move {
            tokio::spawn(f);
        }))
    };
    let t0 = tokio::time::Instant::now();
    let mut c7 = context::current();
    c7.deadline = Instant::now() + d;
    let mut c8 = context::current();
    c8.deadline = Instant::now() + d * 10;
    peer.send(ClientMessage::Request(Request { context: c7, id: 7, message: "seven".to_string() })).await.map_err(|e| e.to_string())?;
    peer.send(ClientMessage::Request(Request { context: c8, id: 8, message: "eight".to_string() })).await.map_err(|e| e.to_string())?;
    settle().await;
    let mut wire: Vec<(u64, bool)> = vec![];
    let mut drain = |peer: &mut ClientEnd, wire: &mut Vec<(u64, bool)>| {
        while let Some(Some(Ok(r))) = peer.next().now_or_never() {
            wire.push((r.request_id, r.message.is_ok()));
        }
    };
    let in_time = finish_at.map_or(false, |t| t < d);
    advance_to(t0, d.mul_f64(0.8)).await;
    drain(&mut peer, &mut wire);
    if ended7.load(Ordering::SeqCst) && !(in_time && completed7.load(Ordering::SeqCst)) {
        return Err(format!("C06 {what}: the handler was stopped at 0.8 x deadline, before its deadline"));
    }
    advance_to(t0, d.mul_f64(1.2) + Duration::from_millis(5)).await;
    drain(&mut peer, &mut wire);
    if !ended7.load(Ordering::SeqCst) {
        return Err(format!("C06 {what}: the handler is still running at 1.2 x deadline + 5 ms"));
    }
    if !in_time && completed7.load(Ordering::SeqCst) && finish_at.map_or(true, |t| t > d.mul_f64(1.2) + Duration::from_millis(5)) {
        return Err(format!("C06 {what}: the handler ran to completion although its deadline had passed"));
    }
    advance_to(t0, d.mul_f64(3.0)).await;
    drain(&mut peer, &mut wire);
    let n7 = wire.iter().filter(|(id, _)| *id == 7).count();
    let n8 = wire.iter().filter(|(id, ok)| *id == 8 && *ok).count();
    if in_time && n7 != 1 {
        return Err(format!("C06 {what}: the handler finished before the deadline but {n7} responses for the request were transmitted; wire {wire:?}"));
    }
    if !in_time && finish_at.is_none() && n7 != 0 {
        return Err(format!("C06 {what}: {n7} response(s) transmitted for a request whose handler was aborted at its deadline; wire {wire:?}"));
    }
    if n8 != 1 {
        return Err(format!("C06 {what}: the other request on the channel (deadline 10 x) got {n8} successful responses; wire {wire:?}"));
    }
    drop(peer);
    serving.abort();
    Ok(())
}

/// C06 / C08: the deadline passes while the channel is not being polled; the handler (not yet aborted, because the
/// expiry has not been processed) then finishes and stages its response; then the channel is polled. Nothing may be
/// transmitted for the expired request ("transmits nothing for it afterwards").
async fn server_late_completion_case(throttled: bool) -> Result<(), String> {
    use futures::task::noop_waker_ref;
    use std::task::{Context, Poll};
    let what = format!("server: handler finishes after the deadline but before the channel is polled again, request-limit layer {throttled}");
    let (mut peer, server_end): (ClientEnd, ServerEnd) = transport::channel::unbounded();
    let released = Arc::new(AtomicBool::new(false));
    let rel = released.clone();
    let handler = server::serve(move |_ctx: context::Context, body: String| {
        let rel = rel.clone();
        async move {
            futures::future::poll_fn(|_| if rel.load(Ordering::SeqCst) { Poll::Ready(()) } else { Poll::Pending }).await;
            Ok(body)
        }
    });
    let mut ctx = context::current();
    ctx.deadline = Instant::now() + Duration::from_secs(10);
    peer.send(ClientMessage::Request(Request { context: ctx, id: 7, message: "seven".to_string() })).await.map_err(|e| e.to_string())?;
    let base = BaseChannel::with_defaults(server_end);
    let mut cx = Context::from_waker(noop_waker_ref());
    macro_rules! go {
        ($requests:expr) => {{
            let mut requests = Box::pin($requests);
            let r = match requests.as_mut().poll_next(&mut cx) {
                Poll::Ready(Some(Ok(r))) => r,
                _ => return Err(format!("C08 {what}: the request was not yielded")),
            };
            let mut exec = Box::pin(r.execute(handler));
            let _ = exec.as_mut().poll(&mut cx);
            tokio::time::advance(Duration::from_secs(20)).await; // the deadline passes; the channel is not polled
            released.store(true, Ordering::SeqCst);
            let _ = exec.as_mut().poll(&mut cx); // the handler finishes late and stages its response
            for _ in 0..3 {
                let _ = requests.as_mut().poll_next(&mut cx);
            }
        }};
    }
    if throttled {
        go!(base.max_concurrent_requests(4).requests());
    } else {
        go!(base.requests());
    }
    if let Some(Some(Ok(r))) = peer.next().now_or_never() {
        return Err(format!("C06 {what}: a response for request {} was transmitted although its deadline had passed before the handler finished", r.request_id));
    }
    Ok(())
}

#[tokio::test(start_paused = true)]
async fn deadlines_enforced_and_never_early() {
    let mut evaluations = 0u64;
    let mut failures: Vec<String> = vec![];
    // the smallest deadline leaves 0.2 s of real-time slack at the 0.8 D probe (the deadline is a std Instant)
    let ds = [Duration::from_secs(1), Duration::from_secs(10), Duration::from_secs(60), Duration::from_secs(3600)];
    for d in ds {
        for reply_at in [None, Some(d.mul_f64(0.5)), Some(d.mul_f64(1.1))] {
            evaluations += 1;
            if let Err(e) = client_case(d, reply_at).await {
                failures.push(e);
            }
        }
        for finish_at in [None, Some(d.mul_f64(0.5)), Some(d.mul_f64(2.0))] {
            for throttled in [false, true] {
                evaluations += 1;
                if let Err(e) = server_case(d, finish_at, throttled).await {
                    failures.push(e);
                }
            }
        }
    }
    evaluations += 1;
    if let Err(e) = client_queued_case().await {
        failures.push(e);
    }
    evaluations += 1;
    if let Err(e) = client_abandoned_then_answered_case().await {
        failures.push(e);
    }
    for k in 1..=2 {
        for m in 1..=2 {
            evaluations += 1;
            if let Err(e) = client_late_reply_after_expiry_case(k, m).await {
                failures.push(e);
            }
        }
    }
    for throttled in [false, true] {
        evaluations += 1;
        if let Err(e) = server_late_completion_case(throttled).await {
            failures.push(e);
        }
    }
    println!("VERIF-BOUNDED deadlines evaluations={evaluations} bound=4 deadlines x (3 reply times | 3 handler finish times x 2 channel stacks) + 1 queued-before-transmission scenario + 1 abandoned-as-the-reply-arrives scenario + 2 late-handler-completion scenarios + 4 late-reply-after-expiry scenarios (1..=2 expired x 1..=2 later calls)");
    let mut kept: Vec<String> = vec![];
    for tag in ["C01", "C05", "C06", "C08", "C11", "C16"] {
        kept.extend(failures.iter().filter(|f| f.starts_with(tag)).take(2).cloned());
    }
    for f in &kept {
        println!("VERIF-FAIL {f}");
    }
    assert!(failures.is_empty(), "{}", failures[0]);
}
