//! BOUNDED replay search for C13 with channels that are actually *served* (complements
//! channels_bounded, which only admits and drops channels): yielded channels are run through
//! `Channel::execute` with handlers that stay in flight, and then
//!   * a further same-key channel arrives while k <= n earlier ones are alive with a handler each in flight,
//!   * an earlier channel is dropped while its spawned handler is still running, then a further one arrives.
//! Oracle = the property: an arrival is admitted iff fewer than n yielded channels with its key are
//! alive at that moment — what their handlers are doing does not matter — and a closed channel
//! frees its capacity at once.  n in {1, 2, 3}.
//! Source of concrete failing inputs for unit `channels`; a pass is never counted as proof.
use futures::prelude::*;
use futures::task::noop_waker_ref;
use std::pin::Pin;
use std::task::{Context, Poll};
use std::time::Duration;
use tarpc::server::{self, incoming::Incoming, BaseChannel, Channel};
use tarpc::transport::channel::{self, UnboundedChannel};
use tarpc::{context, ClientMessage, Request, Response};

type Transport = UnboundedChannel<ClientMessage<String>, Response<String>>;
type Chan = BaseChannel<String, String, Transport>;
type ClientEnd = UnboundedChannel<Response<String>, ClientMessage<String>>;

async fn settle() {
    for _ in 0..30 {
        tokio::task::yield_now().await;
    }
}

async fn scenario(n: u32, alive_before: usize, drop_first: bool) -> Result<(), String> {
    let desc = format!("limit {n} per key, {alive_before} channel(s) being served with a handler in flight each, first one dropped before the arrival: {drop_first}");
    let (new_channels, listener) = futures::channel::mpsc::unbounded::<Chan>();
    let mut incoming = Box::pin(listener.max_channels_per_key(n, |_: &Chan| "key"));
    let mut cx = Context::from_waker(noop_waker_ref());
    let mut clients: Vec<ClientEnd> = vec![];
    let mut serving = vec![];
    for i in 0..alive_before {
        let (mut client, server_end) = channel::unbounded();
        new_channels.unbounded_send(BaseChannel::with_defaults(server_end)).map_err(|e| e.to_string())?;
        let ch = match Pin::as_mut(&mut incoming).poll_next(&mut cx) {
            Poll::Ready(Some(c)) => c,
            _ => return Err(format!("C13: channel #{i} was shed although only {i} of {n} are alive; {desc}")),
        };
        // serve it; one request stays in flight (its handler never finishes)
        let task = tokio::spawn(ch.execute(server::serve(|_ctx, _req: String| async move {
            futures::future::pending::<()>().await;
            Ok(String::new())
        })).for_each(|f| async move {
            tokio::spawn(f);
        }));
        let mut ctx = context::current();
        ctx.deadline = std::time::Instant::now() + Duration::from_secs(3600);
        client.send(ClientMessage::Request(Request { context: ctx, id: 1, message: "x".to_string() })).await.map_err(|e| e.to_string())?;
        clients.push(client);
        serving.push(task);
    }
    settle().await;
    let mut alive = alive_before;
    if drop_first && alive_before > 0 {
        // the channel is closed (its serving task is stopped and dropped) while its spawned handler still runs
        serving.remove(0).abort();
        settle().await;
        alive -= 1;
        let _ = Pin::as_mut(&mut incoming).poll_next(&mut cx); // let the filter see the close notification
    }
    let (_client, server_end): (ClientEnd, Transport) = channel::unbounded();
    new_channels.unbounded_send(BaseChannel::with_defaults(server_end)).map_err(|e| e.to_string())?;
    let admitted = matches!(Pin::as_mut(&mut incoming).poll_next(&mut cx), Poll::Ready(Some(_)));
    let expect = alive < n as usize;
    if admitted != expect {
        return Err(format!(
            "C13: a new channel was {} although {alive} of {n} allowed channels with its key are alive; {desc}",
            if admitted { "admitted" } else { "shed" }
        ));
    }
    Ok(())
}

#[tokio::test(start_paused = true)]
async fn served_channels_count_as_channels() {
    let mut evaluations = 0u64;
    let mut failures: Vec<String> = vec![];
    for n in [1u32, 2, 3] {
        for alive_before in 0..=(n as usize) {
            for drop_first in [false, true] {
                if drop_first && alive_before == 0 {
                    continue;
                }
                evaluations += 1;
                if let Err(e) = scenario(n, alive_before, drop_first).await {
                    if failures.len() < 3 {
                        failures.push(e);
                    }
                }
            }
        }
    }
    for f in &failures {
        println!("VERIF-FAIL {f}");
    }
    println!("VERIF-BOUNDED channels_exec evaluations={evaluations} bound=n in 1..=3 x 0..=n served channels with a handler in flight x first one dropped|kept, then one arrival");
    assert!(failures.is_empty(), "{}", failures[0]);
}
