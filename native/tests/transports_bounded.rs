//! BOUNDED replay search for C15 on the shipped in-memory transports (tarpc/src/transport/channel.rs)
//! through the public API: for `unbounded()` and `bounded(1)` / `bounded(2)`, every script of at most
//! LEN events over the alphabet
//!   Wa / Wb   end A / B writes its next message (poll_ready, start_send, poll_flush by hand),
//!   Ra / Rb   end A / B polls its stream once,
//!   Da / Db   end A / B is dropped,
//! against the obvious model: two FIFO queues; a read yields the oldest unread message of the peer
//! (`Pending` when there is none and the peer is alive, end-of-stream when there is none and the
//! peer was dropped); an accepted write is delivered exactly once, unchanged, in order.
//! Writes that the transport refuses (not ready / error) are simply not counted as written.
//! Source of concrete failing inputs when the deductive check of unit `transports` is undecided or
//! fails; a pass is never counted as proof.
use futures::prelude::*;
use futures::task::noop_waker_ref;
use std::collections::VecDeque;
use std::pin::Pin;
use std::task::{Context, Poll};
use tarpc::transport::channel;

/// quick tier: the first bound; thorough tier (VERIF_TIER=thorough, set by vx/native_run.py): the second
fn bound(quick: usize, thorough: usize) -> usize {
    if std::env::var("VERIF_TIER").as_deref() == Ok("thorough") { thorough } else { quick }
}


#[derive(Clone, Copy, Debug, PartialEq)]
enum Ev {
    Write(usize),
    Read(usize),
    Drop(usize),
}
const ALPHABET: [Ev; 6] = [Ev::Write(0), Ev::Write(1), Ev::Read(0), Ev::Read(1), Ev::Drop(0), Ev::Drop(1)];

fn cx() -> Context<'static> {
    Context::from_waker(noop_waker_ref())
}

trait End: Stream<Item = Result<u32, channel::ChannelError>> + Sink<u32, Error = channel::ChannelError> + Unpin {}
impl<T> End for T where T: Stream<Item = Result<u32, channel::ChannelError>> + Sink<u32, Error = channel::ChannelError> + Unpin {}

fn run(kind: &str, mut ends: [Option<Box<dyn End>>; 2], script: &[Ev]) -> Result<(), String> {
    // model: queue[i] = messages written by end i and not yet read by the other end
    let mut queue: [VecDeque<u32>; 2] = [VecDeque::new(), VecDeque::new()];
    let mut next_msg = [100u32, 200u32];
    let mut finished = [false, false]; // end-of-stream was reported to this end
    for (step, ev) in script.iter().enumerate() {
        match *ev {
            Ev::Write(i) => {
                let Some(end) = ends[i].as_mut() else { return Ok(()) };
                let mut end = Pin::new(end);
                match end.as_mut().poll_ready(&mut cx()) {
                    Poll::Ready(Ok(())) => {}
                    _ => continue, // refused: nothing written
                }
                let m = next_msg[i];
                if end.as_mut().start_send(m).is_err() {
                    continue;
                }
                next_msg[i] += 1;
                let _ = end.as_mut().poll_flush(&mut cx());
                if ends[1 - i].is_some() {
                    queue[i].push_back(m);
                }
                // (a message accepted after the peer was dropped has nobody to be delivered to)
            }
            Ev::Read(i) => {
                let Some(end) = ends[i].as_mut() else { return Ok(()) };
                let got = Pin::new(end).poll_next(&mut cx());
                let peer_alive = ends[1 - i].is_some();
                let expect = match queue[1 - i].pop_front() {
                    Some(m) => Some(Some(m)),
                    None if peer_alive => None,
                    None => Some(None),
                };
                let got_n = match got {
                    Poll::Ready(Some(Ok(m))) => Some(Some(m)),
                    Poll::Ready(None) => Some(None),
                    Poll::Pending => None,
                    Poll::Ready(Some(Err(e))) => return Err(format!("{kind} script={script:?} step {step}: read error {e:?}")),
                };
                if finished[i] && got_n == Some(None) {
                    continue;
                }
                if got_n != expect {
                    return Err(format!(
                        "{kind} script={script:?} step {step}: end {i} read {got_n:?} where the messages written to it demand {expect:?} (Some(Some(m)) = message, Some(None) = end of stream, None = pending)"
                    ));
                }
                if got_n == Some(None) {
                    finished[i] = true;
                }
            }
            Ev::Drop(i) => {
                if ends[i].take().is_none() {
                    return Ok(());
                }
            }
        }
    }
    Ok(())
}

#[test]
fn in_memory_transports_scripts() {
    let mut evaluations = 0u64;
    let mut failures: Vec<String> = vec![];
    let max_len = bound(7, 8);
    'search: for len in 1..=max_len {
        let mut idx = vec![0usize; len];
        loop {
            let script: Vec<Ev> = idx.iter().map(|&i| ALPHABET[i]).collect();
            for kind in ["unbounded", "bounded(1)", "bounded(2)"] {
                let ends: [Option<Box<dyn End>>; 2] = match kind {
                    "unbounded" => {
                        let (a, b) = channel::unbounded::<u32, u32>();
                        [Some(Box::new(a)), Some(Box::new(b))]
                    }
                    "bounded(1)" => {
                        let (a, b) = channel::bounded::<u32, u32>(1);
                        [Some(Box::new(a)), Some(Box::new(b))]
                    }
                    _ => {
                        let (a, b) = channel::bounded::<u32, u32>(2);
                        [Some(Box::new(a)), Some(Box::new(b))]
                    }
                };
                evaluations += 1;
                if let Err(e) = run(kind, ends, &script) {
                    if failures.len() < 3 {
                        failures.push(e);
                    }
                }
            }
            let mut p = len;
            loop {
                if p == 0 {
                    if !failures.is_empty() {
                        break 'search;
                    }
                    break;
                }
                p -= 1;
                idx[p] += 1;
                if idx[p] < ALPHABET.len() {
                    break;
                }
                idx[p] = 0;
            }
            if p == 0 && idx.iter().all(|&i| i == 0) {
                break;
            }
        }
    }
    for f in &failures {
        println!("VERIF-FAIL C15 {f}");
    }
    println!("VERIF-BOUNDED in_memory_transports evaluations={evaluations} bound=scripts <= {max_len} over {{write, read, drop}} x 2 ends, unbounded | bounded(1) | bounded(2)");
    assert!(failures.is_empty(), "{}", failures[0]);
}
