//! BOUNDED replay search for C15 (and the codec side of C07) on the shipped serde transport, through
//! the public API: a boundary-value grid of protocol messages is written to one end of
//! `tarpc::serde_transport::Transport` over an in-memory byte stream (`tokio::io::duplex` with a
//! buffer of 7, 64 or 4096 bytes, so that frames are fragmented in every way the sizes allow) under
//! both shipped codecs (JSON, bincode), read at the other end and compared; then the writing end is
//! dropped and the reader must see end-of-stream after the last message.
//!   requests:   ids {0, 1, 2^32, u64::MAX} x trace ids {0, 1, 2^64 + 5, u128::MAX} x span ids {0, u64::MAX}
//!               x sampled|unsampled x remaining time {already passed, 1.25 s, 10 s, 1 h, 400 d} x bodies {"", "x", 10 kB}
//!   cancels:    the same ids and trace contexts
//!   responses:  Ok(body) and Err for every `io::ErrorKind` of the 18 portable ones plus kinds outside that set
//! Oracles = the property: ids, bodies and trace contexts arrive exactly; the 18 portable error kinds
//! arrive exactly and any other kind as `Other`; details arrive exactly; order is kept; nothing is
//! lost or duplicated; C07: a deadline arrives never earlier than sent and later by no more than the
//! transit (measured around the transfer, plus 50 ms slack), an already passed one arrives as "now".
//! Source of concrete failing inputs when the Kani checks of the wire tables / shapes and the
//! deductive check of unit `transports` are undecided or fail; a pass is never counted as proof.
use futures::prelude::*;
use std::io;
use std::time::{Duration, Instant};
use tarpc::serde_transport::Transport;
use tarpc::tokio_serde::formats::{Bincode, Json};
use tarpc::trace::{self, SamplingDecision, SpanId, TraceId};
use tarpc::{context, ClientMessage, Request, Response, ServerError};

const PORTABLE: [io::ErrorKind; 18] = [
    io::ErrorKind::NotFound,
    io::ErrorKind::PermissionDenied,
    io::ErrorKind::ConnectionRefused,
    io::ErrorKind::ConnectionReset,
    io::ErrorKind::ConnectionAborted,
    io::ErrorKind::NotConnected,
    io::ErrorKind::AddrInUse,
    io::ErrorKind::AddrNotAvailable,
    io::ErrorKind::BrokenPipe,
    io::ErrorKind::AlreadyExists,
    io::ErrorKind::WouldBlock,
    io::ErrorKind::InvalidInput,
    io::ErrorKind::InvalidData,
    io::ErrorKind::TimedOut,
    io::ErrorKind::WriteZero,
    io::ErrorKind::Interrupted,
    io::ErrorKind::Other,
    io::ErrorKind::UnexpectedEof,
];

fn client_messages(t0: Instant) -> Vec<ClientMessage<String>> {
    let day = 24 * 60 * 60;
    let bodies = [String::new(), "x".to_string(), "y".repeat(10_000)];
    let remaining: [Option<Duration>; 5] = [None, Some(Duration::from_millis(1250)), Some(Duration::from_secs(10)), Some(Duration::from_secs(3600)), Some(Duration::from_secs(400 * day))];
    let mut out = vec![];
    let mut k = 0usize;
    for id in [0u64, 1, 1 << 32, u64::MAX] {
        for trace_id in [0u128, 1, (1u128 << 64) + 5, u128::MAX] {
            for span_id in [0u64, u64::MAX] {
                for sampled in [false, true] {
                    let tc = trace::Context {
                        trace_id: TraceId::from(trace_id),
                        span_id: SpanId::from(span_id),
                        sampling_decision: if sampled { SamplingDecision::Sampled } else { SamplingDecision::Unsampled },
                    };
                    let mut ctx = context::current();
                    ctx.trace_context = tc;
                    ctx.deadline = match remaining[k % remaining.len()] {
                        Some(d) => t0 + d,
                        None => t0 - Duration::from_secs(5), // already passed
                    };
                    out.push(ClientMessage::Request(Request { context: ctx, id, message: bodies[k % bodies.len()].clone() }));
                    if k % 3 == 0 {
                        out.push(ClientMessage::Cancel { trace_context: tc, request_id: id });
                    }
                    k += 1;
                }
            }
        }
    }
    out
}

fn responses() -> Vec<Response<String>> {
    let mut out = vec![];
    for (i, id) in [0u64, 1, 1 << 32, u64::MAX].into_iter().enumerate() {
        out.push(Response { request_id: id, message: Ok(["", "x", "a longer body"][i % 3].to_string()) });
    }
    let others = [io::ErrorKind::Unsupported, io::ErrorKind::OutOfMemory];
    for (i, kind) in PORTABLE.iter().chain(others.iter()).enumerate() {
        out.push(Response { request_id: i as u64, message: Err(ServerError::new(*kind, format!("detail {i}"))) });
    }
    out
}

fn same_request(sent: &ClientMessage<String>, got: &ClientMessage<String>, before: Instant, after: Instant, t0: Instant) -> Result<(), String> {
    match (sent, got) {
        (ClientMessage::Request(s), ClientMessage::Request(g)) => {
            if s.id != g.id || s.message != g.message {
                return Err(format!("request id {} (body of {} bytes) arrived as id {} (body of {} bytes)", s.id, s.message.len(), g.id, g.message.len()));
            }
            if s.context.trace_context != g.context.trace_context {
                return Err(format!("request {}: trace context {:?} arrived as {:?}", s.id, s.context.trace_context, g.context.trace_context));
            }
            let transit = after - before + Duration::from_millis(50);
            if s.context.deadline < t0 {
                // already passed when written: arrives as "now" (between the start of the transfer and its end)
                if g.context.deadline + Duration::from_millis(50) < before || g.context.deadline > after + Duration::from_millis(50) {
                    return Err(format!("C07: request {}: a deadline that had already passed did not arrive as 'now'", s.id));
                }
            } else {
                if g.context.deadline < s.context.deadline {
                    return Err(format!("C07: request {}: the deadline arrived {:?} EARLIER than it was sent", s.id, s.context.deadline - g.context.deadline));
                }
                if g.context.deadline - s.context.deadline > transit {
                    return Err(format!("C07: request {}: the deadline arrived {:?} later than sent, more than the transit time {transit:?}", s.id, g.context.deadline - s.context.deadline));
                }
            }
            Ok(())
        }
        (ClientMessage::Cancel { trace_context: st, request_id: si }, ClientMessage::Cancel { trace_context: gt, request_id: gi }) => {
            if si != gi || st != gt {
                return Err(format!("cancel of {si} with {st:?} arrived as cancel of {gi} with {gt:?}"));
            }
            Ok(())
        }
        _ => Err("a message arrived as a message of another kind".to_string()),
    }
}

fn same_response(sent: &Response<String>, got: &Response<String>) -> Result<(), String> {
    if sent.request_id != got.request_id {
        return Err(format!("response id {} arrived as {}", sent.request_id, got.request_id));
    }
    match (&sent.message, &got.message) {
        (Ok(a), Ok(b)) if a == b => Ok(()),
        (Err(a), Err(b)) => {
            let want = if PORTABLE.contains(&a.kind) { a.kind } else { io::ErrorKind::Other };
            if b.kind != want || a.detail != b.detail {
                return Err(format!("error response ({:?}, {:?}) arrived as ({:?}, {:?}); expected kind {want:?}", a.kind, a.detail, b.kind, b.detail));
            }
            Ok(())
        }
        (a, b) => Err(format!("response {a:?} arrived as {b:?}")),
    }
}

macro_rules! run_codec {
    ($codec:expr, $name:expr, $buf:expr, $evals:ident, $failures:ident) => {{
        let (a, b) = tokio::io::duplex($buf);
        let mut client: Transport<_, Response<String>, ClientMessage<String>, _> = Transport::from((a, $codec));
        let mut server: Transport<_, ClientMessage<String>, Response<String>, _> = Transport::from((b, $codec));
        let t0 = Instant::now();
        let msgs = client_messages(t0);
        let resps = responses();
        let what = format!("codec {}, byte-stream buffer {} bytes", $name, $buf);
        // client -> server
        let writer = async {
            for m in client_messages(t0) {
                client.send(m).await.map_err(|e| format!("write failed: {e}"))?;
            }
            Ok::<_, String>(())
        };
        let before = Instant::now();
        let reader = async {
            let mut got = vec![];
            for _ in 0..msgs.len() {
                match server.next().await {
                    Some(Ok(m)) => got.push(m),
                    Some(Err(e)) => return Err(format!("read failed after {} messages: {e}", got.len())),
                    None => return Err(format!("end of stream after {} of {} messages", got.len(), msgs.len())),
                }
            }
            Ok::<_, String>(got)
        };
        // try_join: the first failure ends the transfer (the other side would wait for ever); the timeout catches a stall
        let res = tokio::time::timeout(Duration::from_secs(30), futures::future::try_join(writer, reader)).await;
        let after = Instant::now();
        $evals += msgs.len() as u64;
        match res {
            Err(_) => $failures.push(format!("C15 {what}: the transfer of the client messages stalled")),
            Ok(Err(e)) => $failures.push(format!("C15 {what}: {e}")),
            Ok(Ok(((), got))) => {
                for (i, (s, g)) in msgs.iter().zip(got.iter()).enumerate() {
                    if let Err(e) = same_request(s, g, before, after, t0) {
                        let tag = if e.starts_with("C07") { "" } else { "C15 " };
                        $failures.push(format!("{tag}{e} [message #{i}, {what}]"));
                        break;
                    }
                }
            }
        }
        // server -> client
        let writer = async {
            for m in responses() {
                server.send(m).await.map_err(|e| format!("write failed: {e}"))?;
            }
            Ok::<_, String>(())
        };
        let reader = async {
            let mut got = vec![];
            for _ in 0..resps.len() {
                match client.next().await {
                    Some(Ok(m)) => got.push(m),
                    Some(Err(e)) => return Err(format!("read failed after {} messages: {e}", got.len())),
                    None => return Err(format!("end of stream after {} of {} messages", got.len(), resps.len())),
                }
            }
            Ok::<_, String>(got)
        };
        let res = tokio::time::timeout(Duration::from_secs(30), futures::future::try_join(writer, reader)).await;
        $evals += resps.len() as u64;
        match res {
            Err(_) => $failures.push(format!("C15 {what}: the transfer of the responses stalled")),
            Ok(Err(e)) => $failures.push(format!("C15 {what}: {e}")),
            Ok(Ok(((), got))) => {
                for (i, (s, g)) in resps.iter().zip(got.iter()).enumerate() {
                    if let Err(e) = same_response(s, g) {
                        $failures.push(format!("C15 {e} [response #{i}, {what}]"));
                        break;
                    }
                }
            }
        }
        // the writing end is dropped: end of stream after the last message
        drop(server);
        match tokio::time::timeout(Duration::from_secs(5), client.next()).await {
            Ok(None) => {}
            Ok(Some(Ok(_))) => $failures.push(format!("C15 {what}: a message arrived after the last one")),
            Ok(Some(Err(e))) => $failures.push(format!("C15 {what}: the writer was dropped after a complete message and the reader got an error instead of end-of-stream: {e}")),
            Err(_) => $failures.push(format!("C15 {what}: the writer was dropped and the reader sees no end-of-stream")),
        }
    }};
}

#[tokio::test]
async fn messages_round_trip_under_both_codecs() {
    let mut evaluations = 0u64;
    let mut failures: Vec<String> = vec![];
    for buf in [7usize, 64, 4096] {
        run_codec!(Json::default(), "JSON", buf, evaluations, failures);
        run_codec!(Bincode::default(), "bincode", buf, evaluations, failures);
    }
    let mut kept: Vec<String> = vec![];
    for tag in ["C15", "C07"] {
        kept.extend(failures.iter().filter(|f| f.starts_with(tag)).take(2).cloned());
    }
    for f in &kept {
        println!("VERIF-FAIL {f}");
    }
    println!("VERIF-BOUNDED codec_grid evaluations={evaluations} bound=boundary-value grid of requests, cancels and responses x JSON|bincode x byte-stream buffer 7|64|4096 bytes");
    assert!(failures.is_empty(), "{}", failures[0]);
}
