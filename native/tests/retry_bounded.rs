//! BOUNDED stand-in for `Retry::call` (tarpc/src/client/stub/retry.rs) -- property C20.
//! Exhaustive over every policy decision sequence and every result sequence of up to MAX
//! attempts, each under a live and under an elapsed context deadline. Checks: attempt numbers 1,2,3,... ; identical request (same Arc) each attempt;
//! the policy sees each attempt's own result; the last result is returned unchanged.
use std::cell::{Cell, RefCell};
use std::sync::Arc;
use tarpc::client::stub::{retry::Retry, Stub};
use tarpc::client::RpcError;
use tarpc::context;

const MAX: usize = 5;

struct Backend<'a> {
    calls: &'a Cell<usize>,
    ptrs: &'a RefCell<Vec<*const String>>,
    ctxs: &'a RefCell<Vec<context::Context>>,
    results: &'a [Option<u32>],
}
impl<'a> Stub for Backend<'a> {
    type Req = Arc<String>;
    type Resp = u32;
    async fn call(&self, ctx: context::Context, r: Arc<String>) -> Result<u32, RpcError> {
        self.ctxs.borrow_mut().push(ctx);
        let k = self.calls.get();
        self.calls.set(k + 1);
        self.ptrs.borrow_mut().push(Arc::as_ptr(&r));
        match self.results[k] {
            Some(v) => Ok(v),
            None => Err(RpcError::DeadlineExceeded),
        }
    }
}

#[test]
fn retry_exhaustive_up_to_max_attempts() {
    let mut evaluations = 0usize;
    // n = number of attempts until the policy declines
    for n in 1..=MAX {
        // every ok/err pattern over n attempts
        // .. under a live deadline and under one that has already passed (the stub's promises do not depend on it)
        for (pattern, elapsed) in (0..(1u32 << n)).flat_map(|p| [(p, false), (p, true)]) {
            let mut ctx = context::current();
            if elapsed {
                ctx.deadline = std::time::Instant::now();
            }
            let results: Vec<Option<u32>> = (0..n).map(|i| if pattern & (1 << i) != 0 { Some(100 + i as u32) } else { None }).collect();
            let calls = Cell::new(0usize);
            let ptrs = RefCell::new(vec![]);
            let ctxs = RefCell::new(vec![]);
            let attempts = RefCell::new(vec![]);
            let seen_ok = RefCell::new(vec![]);
            let policy = |r: &Result<u32, RpcError>, i: u32| {
                attempts.borrow_mut().push(i);
                seen_ok.borrow_mut().push(r.as_ref().ok().copied());
                (i as usize) < n
            };
            let retry = Retry::new(Backend { calls: &calls, ptrs: &ptrs, ctxs: &ctxs, results: &results }, policy);
            let out = futures::executor::block_on(retry.call(ctx, "req".to_string()));
            evaluations += 1;
            assert_eq!(calls.get(), n, "one backend call per attempt until the policy declines");
            assert_eq!(*attempts.borrow(), (1..=n as u32).collect::<Vec<_>>(), "attempt numbers 1, 2, 3, ...");
            assert!(ptrs.borrow().windows(2).all(|w| w[0] == w[1]), "identical request (same Arc) on every attempt");
            assert_eq!(*seen_ok.borrow(), results, "the policy sees each attempt's own result");
            assert_eq!(out.ok(), results[n - 1], "the last result is returned unchanged");
            // C07 / C18 / C20: every attempt is made under the caller's own context -- the deadline is not stretched, the trace context is the caller's
            for (k, c) in ctxs.borrow().iter().enumerate() {
                if c.deadline != ctx.deadline || c.trace_context != ctx.trace_context {
                    println!("VERIF-FAIL C07/C18/C20: attempt {} of {n} (caller's deadline {}) was made with deadline {:?} later than the caller's and trace context {:?} (caller's {:?})", k + 1, if elapsed { "already passed" } else { "ahead" }, c.deadline.checked_duration_since(ctx.deadline), c.trace_context, ctx.trace_context);
                    panic!("C07/C18/C20: attempt {} was not made under the caller's context", k + 1);
                }
            }
        }
    }
    println!("VERIF-BOUNDED retry evaluations={evaluations} bound=attempts<={MAX}");
}
