//! BOUNDED replay search for C09 (server side: transport failures are reported and contained)
//! through the public API: the hand-written transport fails the k-th invocation (k = 0, 1, 2) of
//! read / ready / start_send / flush (and stays failed), under every peer script of at most 3
//! messages over {Req 7, Req 8, Cancel 7}, with handlers finishing early (so that responses get
//! written) or never, with and without the request-limit layer.  The driver does what
//! `Requests::execute` does: it stops serving the channel at the first error and drops it.
//! Oracles = the property: the failure is reported through the channel's stream by an error naming
//! the activity; nothing is written to a transport that reported a failure; handlers still running
//! when the channel is dropped are aborted; nothing panics.
//! Source of concrete failing inputs when the deductive check of unit `server` is undecided or
//! fails; a pass is never counted as proof.
use futures::prelude::*;
use futures::task::noop_waker_ref;
use std::collections::VecDeque;
use std::future::Future;
use std::pin::Pin;
use std::sync::{Arc, Mutex};
use std::task::{Context, Poll};
use tarpc::server::{self, BaseChannel, Channel};
use tarpc::{context, ChannelError, ClientMessage, Request, Response};

#[derive(Clone, Copy, Debug, PartialEq)]
enum Op {
    Read,
    Ready,
    Send,
    Flush,
}

#[derive(Default)]
struct Shared {
    fault: Option<(Op, usize)>,
    counts: [usize; 4],
    failed: Option<Op>,
    inbound: VecDeque<ClientMessage<String>>,
    wire: Vec<u64>,
    touched_after_failure: Vec<String>,
    started: usize,
    running: usize,
    release: bool,
    /// readiness is reported Pending once before each real answer
    hesitant: bool,
    hesitated: bool,
}
impl Shared {
    fn hit(&mut self, op: Op) -> bool {
        let i = op as usize;
        let n = self.counts[i];
        self.counts[i] += 1;
        if let Some(f) = self.failed {
            if op == Op::Send {
                self.touched_after_failure.push(format!("start_send after a {f:?} failure"));
            }
            return true;
        }
        if self.fault == Some((op, n)) {
            self.failed = Some(op);
            return true;
        }
        false
    }
}
fn boom(op: Op) -> std::io::Error {
    std::io::Error::new(std::io::ErrorKind::BrokenPipe, format!("injected {op:?} failure"))
}

#[derive(Clone)]
struct T(Arc<Mutex<Shared>>);
impl Stream for T {
    type Item = Result<ClientMessage<String>, std::io::Error>;
    fn poll_next(self: Pin<&mut Self>, _: &mut Context<'_>) -> Poll<Option<Self::Item>> {
        let mut s = self.0.lock().unwrap();
        if s.hit(Op::Read) {
            return Poll::Ready(Some(Err(boom(Op::Read))));
        }
        match s.inbound.pop_front() {
            Some(m) => Poll::Ready(Some(Ok(m))),
            None => Poll::Pending,
        }
    }
}
impl Sink<Response<String>> for T {
    type Error = std::io::Error;
    fn poll_ready(self: Pin<&mut Self>, _: &mut Context<'_>) -> Poll<Result<(), Self::Error>> {
        let mut s = self.0.lock().unwrap();
        if s.hesitant && !s.hesitated && s.failed.is_none() {
            s.hesitated = true;
            return Poll::Pending;
        }
        s.hesitated = false;
        if s.hit(Op::Ready) {
            return Poll::Ready(Err(boom(Op::Ready)));
        }
        Poll::Ready(Ok(()))
    }
    fn start_send(self: Pin<&mut Self>, r: Response<String>) -> Result<(), Self::Error> {
        let mut s = self.0.lock().unwrap();
        if s.hit(Op::Send) {
            return Err(boom(Op::Send));
        }
        s.wire.push(r.request_id);
        Ok(())
    }
    fn poll_flush(self: Pin<&mut Self>, _: &mut Context<'_>) -> Poll<Result<(), Self::Error>> {
        if self.0.lock().unwrap().hit(Op::Flush) {
            return Poll::Ready(Err(boom(Op::Flush)));
        }
        Poll::Ready(Ok(()))
    }
    fn poll_close(self: Pin<&mut Self>, cx: &mut Context<'_>) -> Poll<Result<(), Self::Error>> {
        self.poll_flush(cx)
    }
}

#[derive(Clone, Copy, Debug, PartialEq)]
enum Msg {
    Req(u64),
    Cancel(u64),
}
type Exec = Pin<Box<dyn Future<Output = ()>>>;

fn cx() -> Context<'static> {
    Context::from_waker(noop_waker_ref())
}
fn names<E>(e: &ChannelError<E>) -> Op {
    match e {
        ChannelError::Read(_) => Op::Read,
        ChannelError::Ready(_) => Op::Ready,
        ChannelError::Write(_) => Op::Send,
        ChannelError::Flush(_) => Op::Flush,
        ChannelError::Close(_) => Op::Flush,
    }
}

fn drive<S>(shared: &Arc<Mutex<Shared>>, mut requests: S, script: &[Msg], finish_early: bool, desc: &str) -> Vec<String>
where
    S: Stream<Item = Result<server::InFlightRequest<String, String>, ChannelError<std::io::Error>>> + Unpin,
{
    let mut errs = vec![];
    let mut execs: Vec<Exec> = vec![];
    let mut reported: Vec<Op> = vec![];
    let mut stopped = false;
    let mut poll = |requests: &mut S, execs: &mut Vec<Exec>, reported: &mut Vec<Op>, stopped: &mut bool| {
        while !*stopped {
            match Pin::new(&mut *requests).poll_next(&mut cx()) {
                Poll::Ready(Some(Ok(r))) => {
                    let sh = shared.clone();
                    let f = r.execute(server::serve(move |_ctx, body: String| {
                        let sh = sh.clone();
                        async move {
                            {
                                let mut s = sh.lock().unwrap();
                                s.started += 1;
                                s.running += 1;
                            }
                            struct Guard(Arc<Mutex<Shared>>);
                            impl Drop for Guard {
                                fn drop(&mut self) {
                                    self.0.lock().unwrap().running -= 1;
                                }
                            }
                            let _g = Guard(sh.clone());
                            futures::future::poll_fn(|_| if sh.lock().unwrap().release { Poll::Ready(()) } else { Poll::Pending }).await;
                            Ok(format!("answer to {body}"))
                        }
                    }));
                    execs.push(Box::pin(f));
                }
                Poll::Ready(Some(Err(e))) => {
                    reported.push(names(&e));
                    *stopped = true; // what Requests::execute does: serving stops at the first error
                }
                Poll::Ready(None) => *stopped = true,
                Poll::Pending => break,
            }
        }
        let mut i = 0;
        while i < execs.len() {
            if execs[i].as_mut().poll(&mut cx()).is_ready() {
                let _ = execs.remove(i);
            } else {
                i += 1;
            }
        }
    };
    shared.lock().unwrap().release = finish_early;
    for m in script {
        shared.lock().unwrap().inbound.push_back(match m {
            Msg::Req(id) => ClientMessage::Request(Request { context: context::current(), id: *id, message: format!("req {id}") }),
            Msg::Cancel(id) => ClientMessage::Cancel { trace_context: Default::default(), request_id: *id },
        });
        poll(&mut requests, &mut execs, &mut reported, &mut stopped);
    }
    for _ in 0..8 {
        poll(&mut requests, &mut execs, &mut reported, &mut stopped);
    }
    let failed = shared.lock().unwrap().failed;
    let failed = match failed {
        None => return errs,
        Some(op) => op,
    };
    match reported.as_slice() {
        [op] if *op == failed => {}
        [] => errs.push(format!("C09: the transport failed during {failed:?} but the channel's stream reported no error; {desc}")),
        other => errs.push(format!("C09: the transport failed during {failed:?} but the channel's stream reported {other:?}; {desc}")),
    }
    // serving has stopped: the channel is dropped, which must abort whatever is still running
    drop(requests);
    for _ in 0..3 {
        let mut i = 0;
        while i < execs.len() {
            if execs[i].as_mut().poll(&mut cx()).is_ready() {
                let _ = execs.remove(i);
            } else {
                i += 1;
            }
        }
    }
    let s = shared.lock().unwrap();
    if s.running != 0 || !execs.is_empty() {
        errs.push(format!("C09: {} handler(s) still running after the failed channel was dropped; {desc}", s.running.max(execs.len())));
    }
    if let Some(t) = s.touched_after_failure.first() {
        errs.push(format!("C09/C14: {t}; {desc}"));
    }
    errs
}

fn one(script: &[Msg], fault: (Op, usize), finish_early: bool, throttled: bool, hesitant: bool, reached: &std::cell::Cell<usize>) -> Vec<String> {
    let desc = format!("script {script:?}, fault = {:?} #{}, handlers finish early {finish_early}, request-limit layer {throttled}, readiness pending once before each answer {hesitant}", fault.0, fault.1);
    let shared = Arc::new(Mutex::new(Shared { fault: Some(fault), hesitant, ..Default::default() }));
    let base = BaseChannel::with_defaults(T(shared.clone()));
    let errs = if throttled { drive(&shared, base.max_concurrent_requests(1).requests(), script, finish_early, &desc) } else { drive(&shared, base.requests(), script, finish_early, &desc) };
    if shared.lock().unwrap().failed.is_some() {
        reached.set(reached.get() + 1);
    }
    errs
}

#[test]
fn server_fault_injection() {
    let rt = tokio::runtime::Builder::new_current_thread().enable_time().start_paused(true).build().unwrap();
    let _g = rt.enter();
    let alphabet = [Msg::Req(7), Msg::Req(8), Msg::Cancel(7)];
    let mut scripts: Vec<Vec<Msg>> = vec![];
    let mut cur: Vec<Vec<Msg>> = vec![vec![]];
    for _ in 0..3 {
        let mut next = vec![];
        for s in &cur {
            for a in alphabet {
                let mut t = s.clone();
                t.push(a);
                next.push(t);
            }
        }
        scripts.extend(next.iter().cloned());
        cur = next;
    }
    let mut evaluations = 0usize;
    let reached = std::cell::Cell::new(0usize);
    let mut failures: Vec<(String, String)> = vec![];
    for script in &scripts {
        for op in [Op::Read, Op::Ready, Op::Send, Op::Flush] {
            for k in 0..3 {
                for finish_early in [false, true] {
                    for (throttled, hesitant) in [(false, false), (true, false), (false, true), (true, true)] {
                        evaluations += 1;
                        let r = std::panic::catch_unwind(std::panic::AssertUnwindSafe(|| one(script, (op, k), finish_early, throttled, hesitant, &reached)));
                        let errs = match r {
                            Ok(e) => e,
                            Err(_) => vec![format!("C09/C16: the endpoint panicked; script {script:?}, fault = {op:?} #{k}, handlers finish early {finish_early}, request-limit layer {throttled}, hesitant readiness {hesitant}")],
                        };
                        for e in errs {
                            let tag = e.split(':').next().unwrap_or("").to_string();
                            if !failures.iter().any(|(t, _)| *t == tag) {
                                failures.push((tag, e));
                            }
                        }
                    }
                }
            }
        }
    }
    for (_, e) in &failures {
        println!("VERIF-FAIL {e}");
    }
    println!("VERIF-BOUNDED server_faults evaluations={evaluations} fault_reached={} bound=peer scripts <= 3 over {{Req 7, Req 8, Cancel 7}} x 4 operations x failing invocation 0..2 x handlers finish early|never x limit layer x readiness immediate|pending once first", reached.get());
    assert!(failures.is_empty(), "{}", failures[0].1);
}
