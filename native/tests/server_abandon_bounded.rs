//! BOUNDED replay search for the server clauses of C11 ("every yielded request has ended by any
//! route, including a handler that was never run or was dropped midway — ... back to zero tracked
//! requests and zero pending deadline timers without waiting for deadlines to pass") through the
//! public API.  A yielded request is abandoned at every point of its life:
//!   NeverRun     the InFlightRequest is dropped without `execute`,
//!   Created      the `execute` future is created and dropped without being polled,
//!   InHandler    dropped while the handler is running,
//!   Handing      dropped after the handler finished while the response waits for room in the channel's
//!                response buffer (pending_response_buffer = 1, occupied by another response),
//!   Completed    run to completion (control),
//! with and without the request-limit layer, next to a second request that is answered normally.
//! Oracles (the clock never moves, deadlines are an hour away): after the channel has been polled,
//! `in_flight_requests()` is 0; once the peer closes the inbound side the request stream ends (it
//! would keep waiting for a request it still believes in flight); no response is transmitted for
//! the abandoned request unless it had completed.
//! Source of concrete failing inputs for the C11 clauses of unit `server` (`execute`,
//! `ResponseGuard::drop`, the internal cancellation queue); a pass is never counted as proof.
use futures::prelude::*;
use futures::task::noop_waker_ref;
use std::collections::VecDeque;
use std::future::Future;
use std::pin::Pin;
use std::sync::{Arc, Mutex};
use std::task::{Context, Poll};
use std::time::{Duration, Instant};
use tarpc::server::{self, BaseChannel, Channel, Config};
use tarpc::{context, ClientMessage, Request, Response};

#[derive(Default)]
struct Shared {
    inbound: VecDeque<ClientMessage<String>>,
    inbound_closed: bool,
    wire: Vec<u64>,
    release: [bool; 2],
}
#[derive(Clone)]
struct T(Arc<Mutex<Shared>>);
impl Stream for T {
    type Item = Result<ClientMessage<String>, std::io::Error>;
    fn poll_next(self: Pin<&mut Self>, _: &mut Context<'_>) -> Poll<Option<Self::Item>> {
        let mut s = self.0.lock().unwrap();
        match s.inbound.pop_front() {
            Some(m) => Poll::Ready(Some(Ok(m))),
            None if s.inbound_closed => Poll::Ready(None),
            None => Poll::Pending,
        }
    }
}
impl Sink<Response<String>> for T {
    type Error = std::io::Error;
    fn poll_ready(self: Pin<&mut Self>, _: &mut Context<'_>) -> Poll<Result<(), Self::Error>> {
        Poll::Ready(Ok(()))
    }
    fn start_send(self: Pin<&mut Self>, r: Response<String>) -> Result<(), Self::Error> {
        self.0.lock().unwrap().wire.push(r.request_id);
        Ok(())
    }
    fn poll_flush(self: Pin<&mut Self>, _: &mut Context<'_>) -> Poll<Result<(), Self::Error>> {
        Poll::Ready(Ok(()))
    }
    fn poll_close(self: Pin<&mut Self>, _: &mut Context<'_>) -> Poll<Result<(), Self::Error>> {
        Poll::Ready(Ok(()))
    }
}

#[derive(Clone, Copy, Debug, PartialEq)]
enum Point {
    NeverRun,
    Created,
    InHandler,
    Handing,
    Completed,
}

fn cx() -> Context<'static> {
    Context::from_waker(noop_waker_ref())
}
type Exec = Pin<Box<dyn Future<Output = ()>>>;

fn req(id: u64) -> ClientMessage<String> {
    let mut ctx = context::current();
    ctx.deadline = Instant::now() + Duration::from_secs(3600);
    ClientMessage::Request(Request { context: ctx, id, message: format!("req {id}") })
}

fn drive<S, E, F>(shared: &Arc<Mutex<Shared>>, mut requests: S, in_flight: F, point: Point, desc: &str) -> Vec<String>
where
    S: Stream<Item = Result<server::InFlightRequest<String, String>, E>> + Unpin,
    F: Fn(&S) -> usize,
{
    let mut errs = vec![];
    let handler = |shared: Arc<Mutex<Shared>>| {
        server::serve(move |_ctx, body: String| {
            let shared = shared.clone();
            async move {
                let k = if body == "req 7" { 0 } else { 1 };
                futures::future::poll_fn(|_| if shared.lock().unwrap().release[k] { Poll::Ready(()) } else { Poll::Pending }).await;
                Ok(format!("answer to {body}"))
            }
        })
    };
    let mut next = |requests: &mut S| -> Option<server::InFlightRequest<String, String>> {
        match Pin::new(requests).poll_next(&mut cx()) {
            Poll::Ready(Some(Ok(r))) => Some(r),
            _ => None,
        }
    };
    // request 8 first: its response will occupy the one-slot response buffer while the channel is not polled
    shared.lock().unwrap().inbound.push_back(req(8));
    shared.lock().unwrap().inbound.push_back(req(7));
    let Some(r8) = next(&mut requests) else { return vec![format!("C08: request 8 was not yielded; {desc}")] };
    let Some(r7) = next(&mut requests) else { return vec![format!("C08: request 7 was not yielded; {desc}")] };
    let mut e8: Option<Exec> = Some(Box::pin(r8.execute(handler(shared.clone()))));
    let mut poll8 = |e8: &mut Option<Exec>| {
        if let Some(f) = e8.as_mut() {
            if f.as_mut().poll(&mut cx()).is_ready() {
                *e8 = None;
            }
        }
    };
    poll8(&mut e8);
    match point {
        Point::NeverRun => drop(r7),
        Point::Created => drop(r7.execute(handler(shared.clone()))),
        Point::InHandler => {
            let mut e7: Exec = Box::pin(r7.execute(handler(shared.clone())));
            let _ = e7.as_mut().poll(&mut cx());
            drop(e7);
        }
        Point::Handing => {
            // 8 finishes and fills the response buffer (the channel is not polled in between) ...
            shared.lock().unwrap().release[1] = true;
            poll8(&mut e8);
            // ... then 7 finishes and has to wait for room
            let mut e7: Exec = Box::pin(r7.execute(handler(shared.clone())));
            let _ = e7.as_mut().poll(&mut cx());
            shared.lock().unwrap().release[0] = true;
            if e7.as_mut().poll(&mut cx()).is_ready() {
                // the buffer took both: this point degenerates to Completed
            }
            drop(e7);
        }
        Point::Completed => {
            let mut e7: Exec = Box::pin(r7.execute(handler(shared.clone())));
            shared.lock().unwrap().release[0] = true;
            for _ in 0..3 {
                if e7.as_mut().poll(&mut cx()).is_ready() {
                    break;
                }
                let _ = Pin::new(&mut requests).poll_next(&mut cx());
            }
        }
    }
    // let request 8 finish normally and give the channel a few polls
    shared.lock().unwrap().release[1] = true;
    let mut ended = false;
    for _ in 0..6 {
        poll8(&mut e8);
        if let Poll::Ready(None) = Pin::new(&mut requests).poll_next(&mut cx()) {
            ended = true;
        }
    }
    let n = in_flight(&requests);
    if n != 0 {
        errs.push(format!("C11: {n} request(s) still reported in flight although every yielded request has ended (the clock did not move); {desc}"));
    }
    shared.lock().unwrap().inbound_closed = true;
    for _ in 0..6 {
        if let Poll::Ready(None) = Pin::new(&mut requests).poll_next(&mut cx()) {
            ended = true;
        }
    }
    if !ended {
        errs.push(format!("C10/C11: the inbound side ended and every yielded request has ended, but the request stream does not end; {desc}"));
    }
    let wire = shared.lock().unwrap().wire.clone();
    if wire.iter().filter(|id| **id == 8).count() != 1 {
        errs.push(format!("C08: request 8 was executed normally and got {} responses; wire {wire:?}; {desc}", wire.iter().filter(|id| **id == 8).count()));
    }
    let n7 = wire.iter().filter(|id| **id == 7).count();
    if n7 > 1 || (n7 == 1 && matches!(point, Point::NeverRun | Point::Created | Point::InHandler)) {
        errs.push(format!("C08: {n7} response(s) transmitted for request 7, whose handler never finished; wire {wire:?}; {desc}"));
    }
    errs
}

#[test]
fn abandoned_requests_are_reclaimed() {
    let rt = tokio::runtime::Builder::new_current_thread().enable_time().start_paused(true).build().unwrap();
    let _g = rt.enter();
    let mut evaluations = 0u64;
    let mut failures: Vec<(String, String)> = vec![];
    for point in [Point::NeverRun, Point::Created, Point::InHandler, Point::Handing, Point::Completed] {
        for limited in [false, true] {
            evaluations += 1;
            let desc = format!("request 7 abandoned at {point:?}, request-limit layer {limited}, response buffer of 1");
            let shared = Arc::new(Mutex::new(Shared::default()));
            let base = BaseChannel::new(Config { pending_response_buffer: 1 }, T(shared.clone()));
            let errs = if limited {
                drive(&shared, base.max_concurrent_requests(4).requests(), |r| r.channel().in_flight_requests(), point, &desc)
            } else {
                drive(&shared, base.requests(), |r| r.channel().in_flight_requests(), point, &desc)
            };
            for e in errs {
                let tag = e.split(':').next().unwrap_or("").to_string();
                if !failures.iter().any(|(t, _)| *t == tag) {
                    failures.push((tag, e));
                }
            }
        }
    }
    for (_, e) in &failures {
        println!("VERIF-FAIL {e}");
    }
    println!("VERIF-BOUNDED server_abandon evaluations={evaluations} bound=5 points of a request's life x with/without the request-limit layer, response buffer of 1, next to a request that completes normally");
    assert!(failures.is_empty(), "{}", failures[0].1);
}
