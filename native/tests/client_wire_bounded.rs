//! BOUNDED replay search for the client dispatch through the public API (properties C01, C03, C10,
//! C14): a structured enumeration of small scenarios -- up to 3 calls, each with a fate (answered,
//! abandoned while queued, abandoned after transmission, kept), every order of applying the fates,
//! an optional dispatch poll between any two steps, transport readiness gated or not, in-flight
//! capacity 1 or 2, client handles dropped at the end or not -- against a hand-written transport
//! that records the wire and checks the Sink contract. Oracles are stated on the wire log only.
//!
//! It is the source of *concrete failing inputs* when the deductive check is undecided (e.g. the
//! code was rewritten into a shape the contracts cannot be checked against) or fails. A pass is
//! never counted as proof.
use futures::prelude::*;
use futures::task::noop_waker_ref;
use std::collections::VecDeque;
use std::future::Future;
use std::pin::Pin;
use std::sync::{Arc, Mutex};
use std::task::{Context, Poll};
use tarpc::client::{self, RpcError};
use tarpc::{context, ClientMessage, Response};

#[derive(Clone, Debug, PartialEq)]
enum W {
    Req(u64),
    Cancel(u64),
    Closed,
}

#[derive(Default)]
struct Shared {
    /// readiness polls since the driver last polled the task (watchdog against retrying within one poll)
    ready_polls: usize,
    gate_open: bool,
    granted: bool,
    closed: bool,
    wire: Vec<W>,
    inbound: VecDeque<Response<String>>,
    violations: Vec<String>,
    bodies: Vec<(u64, String)>,
    written: usize,
    /// the flush of freshly written items completes only at the second attempt (a socket-like transport)
    hesitant_flush: bool,
    flush_attempted: bool,
    /// (id, trace id, span id, sampled, deadline) of every Request written; (id, trace id, span id, sampled) of every Cancel
    req_ctx: Vec<(u64, u128, u64, bool, std::time::Instant)>,
    cancel_ctx: Vec<(u64, u128, u64, bool)>,
    base: Option<std::time::Instant>,
    flushed: usize,
    capacity: usize,
    replies_injected: usize,
}

#[derive(Clone)]
struct T(Arc<Mutex<Shared>>);

impl Stream for T {
    type Item = Result<Response<String>, std::io::Error>;
    fn poll_next(self: Pin<&mut Self>, _: &mut Context<'_>) -> Poll<Option<Self::Item>> {
        match self.0.lock().unwrap().inbound.pop_front() {
            Some(r) => Poll::Ready(Some(Ok(r))),
            None => Poll::Pending,
        }
    }
}
impl Sink<ClientMessage<String>> for T {
    type Error = std::io::Error;
    fn poll_ready(self: Pin<&mut Self>, _: &mut Context<'_>) -> Poll<Result<(), Self::Error>> {
        let mut s = self.0.lock().unwrap();
        s.ready_polls += 1;
        if s.ready_polls > 10_000 {
            panic!("C14: the transport said not-ready and its readiness was polled more than 10000 times within one poll of the task: retrying within the same poll instead of returning control");
        }
        if s.gate_open {
            s.granted = true;
            Poll::Ready(Ok(()))
        } else {
            Poll::Pending
        }
    }
    fn start_send(self: Pin<&mut Self>, m: ClientMessage<String>) -> Result<(), Self::Error> {
        let mut s = self.0.lock().unwrap();
        if !s.granted {
            s.violations.push("C14: start_send without a readiness report for that item".into());
        }
        if s.closed {
            s.violations.push("C14: start_send after the transport was closed".into());
        }
        s.granted = false;
        s.written += 1;
        s.flush_attempted = false;
        if let ClientMessage::Request(_) = &m {
            // C11: requests transmitted and neither cancelled nor answered (answers counted from the moment the peer sent
            // them, which can only under-estimate what the dispatch still tracks)
            let reqs = s.wire.iter().filter(|w| matches!(w, W::Req(_))).count() + 1;
            let cancels = s.wire.iter().filter(|w| matches!(w, W::Cancel(_))).count();
            let outstanding = reqs.saturating_sub(cancels + s.replies_injected);
            if s.capacity > 0 && outstanding > s.capacity {
                let cap = s.capacity;
                s.violations.push(format!("C11: {outstanding} requests transmitted and unfinished with an in-flight maximum of {cap}"));
            }
        }
        match m {
            ClientMessage::Request(r) => {
                let t = &r.context.trace_context;
                s.req_ctx.push((r.id, u128::from(t.trace_id), u64::from(t.span_id), t.sampling_decision == tarpc::trace::SamplingDecision::Sampled, r.context.deadline));
                s.bodies.push((r.id, r.message.clone()));
                s.wire.push(W::Req(r.id))
            }
            ClientMessage::Cancel { request_id, trace_context: t } => {
                s.cancel_ctx.push((request_id, u128::from(t.trace_id), u64::from(t.span_id), t.sampling_decision == tarpc::trace::SamplingDecision::Sampled));
                s.wire.push(W::Cancel(request_id))
            }
            _ => {}
        }
        Ok(())
    }
    fn poll_flush(self: Pin<&mut Self>, _: &mut Context<'_>) -> Poll<Result<(), Self::Error>> {
        let mut s = self.0.lock().unwrap();
        if s.hesitant_flush && s.flushed != s.written && !s.flush_attempted {
            s.flush_attempted = true; // "flushing": the next attempt completes (the driver polls again by itself)
            return Poll::Pending;
        }
        s.flush_attempted = false;
        s.flushed = s.written;
        Poll::Ready(Ok(()))
    }
    fn poll_close(self: Pin<&mut Self>, _: &mut Context<'_>) -> Poll<Result<(), Self::Error>> {
        let mut s = self.0.lock().unwrap();
        s.closed = true;
        s.flushed = s.written;
        s.wire.push(W::Closed);
        Poll::Ready(Ok(()))
    }
}

/// every call has its own trace id, sampling decision and deadline, so that an exchange is visible on the wire
fn call_context(k: usize, base: std::time::Instant) -> context::Context {
    let mut ctx = context::current();
    ctx.deadline = base + std::time::Duration::from_secs(1000 * (k as u64 + 1));
    ctx.trace_context = tarpc::trace::Context {
        trace_id: tarpc::trace::TraceId::from(0xA0u128 + k as u128),
        span_id: tarpc::trace::SpanId::from(0x50u64 + k as u64),
        sampling_decision: if k % 2 == 1 { tarpc::trace::SamplingDecision::Sampled } else { tarpc::trace::SamplingDecision::Unsampled },
    };
    ctx
}

#[derive(Clone, Copy, Debug, PartialEq)]
enum Fate {
    Answered,
    DropQueuedOrEarly,
    DropLate,
    Kept,
}
type CallFut = Pin<Box<dyn Future<Output = Result<String, RpcError>>>>;

struct Run {
    shared: Arc<Mutex<Shared>>,
    dispatch: Pin<Box<dyn Future<Output = Result<(), String>>>>,
    dispatch_done: Option<Result<(), String>>,
    client: Option<client::Channel<String, String>>,
    calls: Vec<Option<CallFut>>,
    results: Vec<Option<Result<String, String>>>,
    reply_injected: Vec<bool>,
    dropped_unresolved: Vec<bool>,
}

impl Run {
    fn new(capacity: usize) -> Run {
        let shared = Arc::new(Mutex::new(Shared { gate_open: true, capacity, ..Default::default() }));
        let mut cfg = client::Config::default();
        cfg.max_in_flight_requests = capacity;
        cfg.pending_request_buffer = 8;
        let client::NewClient { client, dispatch } = client::new::<String, String, _>(cfg, T(shared.clone()));
        Run {
            shared,
            dispatch: Box::pin(dispatch.map_err(|e| format!("{e:?}"))),
            dispatch_done: None,
            client: Some(client),
            calls: vec![],
            results: vec![],
            reply_injected: vec![],
            dropped_unresolved: vec![],
        }
    }
    fn cx() -> Context<'static> {
        Context::from_waker(noop_waker_ref())
    }
    fn poll_calls(&mut self) {
        for k in 0..self.calls.len() {
            if let Some(f) = self.calls[k].as_mut() {
                if let Poll::Ready(r) = f.as_mut().poll(&mut Self::cx()) {
                    self.results[k] = Some(r.map_err(|e| format!("{e:?}")));
                    self.calls[k] = None;
                }
            }
        }
    }
    fn poll_dispatch(&mut self) {
        self.shared.lock().unwrap().ready_polls = 0;
        if self.dispatch_done.is_none() {
            match self.dispatch.as_mut().poll(&mut Self::cx()) {
                Poll::Ready(r) => self.dispatch_done = Some(r),
                Poll::Pending => {
                    // C14: control went back to the executor: nothing written may remain unflushed
                    let mut s = self.shared.lock().unwrap();
                    if s.flushed != s.written && !s.flush_attempted && !s.violations.iter().any(|v| v.starts_with("C14: went idle")) {
                        let n = s.written - s.flushed;
                        s.violations.push(format!("C14: went idle (Pending) with {n} written item(s) not flushed"));
                    }
                }
            }
        }
        self.poll_calls();
    }
    fn create(&mut self) {
        let k = self.calls.len();
        let c = self.client.as_ref().unwrap().clone();
        let base = *self.shared.lock().unwrap().base.get_or_insert_with(std::time::Instant::now);
        let ctx = call_context(k, base);
        let mut f: CallFut = Box::pin(async move { c.call(ctx, format!("req {k}")).await });
        let first = f.as_mut().poll(&mut Self::cx());
        assert!(first.is_pending());
        self.calls.push(Some(f));
        self.results.push(None);
        self.reply_injected.push(false);
        self.dropped_unresolved.push(false);
    }
    fn reply(&mut self, k: usize) {
        // ids are allocated in creation order, starting at 0
        {
            let mut s = self.shared.lock().unwrap();
            s.inbound.push_back(Response { request_id: k as u64, message: Ok(format!("reply to {k}")) });
            s.replies_injected += 1;
        }
        self.reply_injected[k] = true;
    }
    fn drop_call(&mut self, k: usize) {
        if self.calls[k].take().is_some() {
            self.dropped_unresolved[k] = true;
        }
    }
}

fn check(run: &Run, dropped_client: bool, desc: &str) -> Vec<String> {
    let mut errs: Vec<String> = vec![];
    let s = run.shared.lock().unwrap();
    let wire = &s.wire;
    for v in &s.violations {
        errs.push(format!("{v}; wire {wire:?}; {desc}"));
    }
    if let Some(base) = s.base {
        for (id, trace_id, span_id, sampled, deadline) in &s.req_ctx {
            let want = call_context(*id as usize, base);
            if *trace_id != u128::from(want.trace_context.trace_id) || *sampled != (*id % 2 == 1) {
                errs.push(format!("C18: request {id} was transmitted with trace id {trace_id:#x}, sampled {sampled} (its caller supplied {:#x}, sampled {}); {desc}", u128::from(want.trace_context.trace_id), *id % 2 == 1));
            }
            if *deadline != want.deadline {
                errs.push(format!("C07: request {id} was transmitted with another deadline than its caller's; {desc}"));
            }
            for (cid, ctrace, cspan, csampled) in &s.cancel_ctx {
                if cid == id && (ctrace != trace_id || cspan != span_id || csampled != sampled) {
                    errs.push(format!("C18: the cancellation for request {id} carries trace id {ctrace:#x} / span id {cspan:#x} / sampled {csampled}, the request was transmitted with {trace_id:#x} / {span_id:#x} / {sampled}; {desc}"));
                }
            }
        }
    }
    if s.flushed != s.written {
        errs.push(format!("C14: quiescent with {} written item(s) never flushed although the transport completes a flush at the latest on the second attempt; wire {wire:?}; {desc}", s.written - s.flushed));
    }
    for (id, body) in &s.bodies {
        if *body != format!("req {id}") {
            errs.push(format!("C01: request id {id} was written with the body of another call ({body}); {desc}"));
        }
    }
    for k in 0..run.results.len() {
        let id = k as u64;
        if let Some(Ok(body)) = &run.results[k] {
            if *body != format!("reply to {k}") {
                errs.push(format!("C01: call {k} completed with {body:?}; wire {wire:?}; {desc}"));
            }
        }
        let reqs: Vec<usize> = wire.iter().enumerate().filter(|(_, w)| **w == W::Req(id)).map(|(i, _)| i).collect();
        let cancels: Vec<usize> = wire.iter().enumerate().filter(|(_, w)| **w == W::Cancel(id)).map(|(i, _)| i).collect();
        if cancels.len() > 1 {
            errs.push(format!("C03: cancellation for id {id} transmitted {} times; wire {wire:?}; {desc}", cancels.len()));
        }
        if let Some(&c) = cancels.first() {
            if reqs.first().map_or(true, |&r| r > c) {
                errs.push(format!("C03: cancellation for id {id} transmitted without/before its request; wire {wire:?}; {desc}"));
            }
            if matches!(run.results[k], Some(Ok(_))) {
                errs.push(format!("C03: cancellation transmitted for call {k}, which resolved normally; wire {wire:?}; {desc}"));
            }
        }
        if run.dropped_unresolved[k] && !run.reply_injected[k] && !reqs.is_empty() && cancels.is_empty() && run.dispatch_done.is_none() {
            errs.push(format!("C03/C11: call {k} was abandoned, its request was transmitted and no cancellation followed (its entry and timer stay tracked at both ends until the deadline); wire {wire:?}; {desc}"));
        }
    }
    if dropped_client {
        let all_over = (0..run.calls.len()).all(|k| run.calls[k].is_none());
        let closes = wire.iter().filter(|w| **w == W::Closed).count();
        if all_over {
            // every call was answered-and-resolved or abandoned: nothing can be outstanding once cancellations went out
            let outstanding = (0..run.results.len()).any(|k| {
                let id = k as u64;
                wire.contains(&W::Req(id)) && !wire.contains(&W::Cancel(id)) && !run.reply_injected[k]
            });
            if !outstanding {
                if run.dispatch_done != Some(Ok(())) {
                    errs.push(format!("C10: last handle dropped and nothing outstanding, but the dispatch did not complete successfully ({:?}); wire {wire:?}; {desc}", run.dispatch_done));
                }
                if closes != 1 || wire.last() != Some(&W::Closed) {
                    errs.push(format!("C10: the write side must be closed exactly once, after everything queued was transmitted; wire {wire:?}; {desc}"));
                }
            }
        }
        if closes > 1 {
            errs.push(format!("C10/C14: transport closed {closes} times; wire {wire:?}; {desc}"));
        }
    }
    errs
}

fn permutations(n: usize) -> Vec<Vec<usize>> {
    match n {
        1 => vec![vec![0]],
        2 => vec![vec![0, 1], vec![1, 0]],
        _ => vec![vec![0, 1, 2], vec![0, 2, 1], vec![1, 0, 2], vec![1, 2, 0], vec![2, 0, 1], vec![2, 1, 0]],
    }
}

fn explore(max_calls: usize) -> usize {
    let fates = [Fate::Answered, Fate::DropQueuedOrEarly, Fate::DropLate, Fate::Kept];
    let mut evaluations = 0usize;
    let mut failures: Vec<(String, String)> = vec![];
    for n in 1..=max_calls {
        let n_fate_combos = 4usize.pow(n as u32);
        for fc in 0..n_fate_combos {
            let fate: Vec<Fate> = (0..n).map(|k| fates[(fc / 4usize.pow(k as u32)) % 4]).collect();
            for perm in permutations(n) {
                // steps: n creates, then n fate applications (in `perm` order); a poll flag after each step
                let steps = 2 * n;
                for polls in 0..(1u32 << steps) {
                    for capacity in [1usize, 2] {
                        for gated in [false, true] {
                            for (drop_client, hesitant_flush) in [(false, false), (true, false), (false, true), (true, true)] {
                                let desc = format!("calls {n}, fates {fate:?}, order {perm:?}, polls {polls:#b}, capacity {capacity}, gated {gated}, drop_client {drop_client}, flush completes at the second attempt {hesitant_flush}");
                                let mut run = Run::new(capacity);
                                run.shared.lock().unwrap().hesitant_flush = hesitant_flush;
                                let mut step = 0;
                                for _ in 0..n {
                                    run.create();
                                    if polls & (1 << step) != 0 {
                                        run.poll_dispatch();
                                    }
                                    step += 1;
                                }
                                if gated {
                                    run.shared.lock().unwrap().gate_open = false;
                                }
                                for &k in &perm {
                                    match fate[k] {
                                        Fate::Answered => run.reply(k),
                                        Fate::DropQueuedOrEarly => run.drop_call(k),
                                        Fate::DropLate => {
                                            run.poll_dispatch();
                                            run.drop_call(k)
                                        }
                                        Fate::Kept => {}
                                    }
                                    if polls & (1 << step) != 0 {
                                        run.poll_dispatch();
                                    }
                                    step += 1;
                                }
                                run.shared.lock().unwrap().gate_open = true;
                                if drop_client {
                                    // abandon whatever is still pending, then drop the last handle
                                    for k in 0..n {
                                        if fate[k] == Fate::Kept {
                                            run.poll_dispatch();
                                            run.drop_call(k);
                                        }
                                    }
                                    run.client = None;
                                }
                                for _ in 0..6 {
                                    run.poll_dispatch();
                                }
                                evaluations += 1;
                                // keep the first failure of every oracle (by its property prefix), over the whole search, for attribution
                                for e in check(&run, drop_client, &desc) {
                                    let tag = e.split(':').next().unwrap_or("").to_string();
                                    if !failures.iter().any(|(t, _): &(String, String)| *t == tag) {
                                        failures.push((tag, e));
                                    }
                                }
                            }
                        }
                    }
                }
            }
        }
    }
    for (_, e) in &failures {
        println!("VERIF-FAIL {e}");
    }
    assert!(failures.is_empty(), "{}", failures[0].1);
    evaluations
}

#[test]
#[ignore]
fn client_wire_small() {
    let rt = tokio::runtime::Builder::new_current_thread().enable_time().start_paused(true).build().unwrap();
    let _g = rt.enter();
    let n = explore(2);
    println!("VERIF-BOUNDED client_wire evaluations={n} bound=up to 2 calls x 4 fates x fate orders x poll placements x capacity 1|2 x gated|not x handles dropped|kept x flush immediate|at the second attempt");
}

#[test]
fn client_wire_three_calls() {
    let rt = tokio::runtime::Builder::new_current_thread().enable_time().start_paused(true).build().unwrap();
    let _g = rt.enter();
    let n = explore(3);
    println!("VERIF-BOUNDED client_wire evaluations={n} bound=up to 3 calls x 4 fates x fate orders x poll placements x capacity 1|2 x gated|not x handles dropped|kept x flush immediate|at the second attempt");
}
