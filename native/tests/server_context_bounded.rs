//! BOUNDED replay search for what a handler observes of the request's context (properties C07 and
//! C18, server side) through the public API: raw `ClientMessage::Request`s over the in-memory
//! transport (which hands the context over unencoded, so the received deadline is the sent one),
//! for a grid of boundary values
//!   trace id   in {0, 1, 2^64, u128::MAX}
//!   span id    in {0, 1, u64::MAX}
//!   sampling   in {Sampled, Unsampled}
//!   remaining  in {0 s (already due), 1 s, 10 s, 30 d, 364 d, 366 d, 2 y, 10 y}
//!   channel    in {BaseChannel, BaseChannel + max_concurrent_requests(1)}
//! No tracing subscriber is installed.  Oracle = the properties: the handler's deadline is the
//! deadline received (never earlier, never stretched), its trace id and sampling decision are the
//! ones the request was transmitted with, and the span id is this hop's own (fresh).
//! Source of *concrete failing inputs* when the deductive check (unit server: start_request /
//! execute; unit trace_ctx: new_child) is undecided or fails; a pass is never counted as proof.
use futures::prelude::*;
use std::sync::{Arc, Mutex};
use std::time::{Duration, Instant};
use tarpc::server::{self, BaseChannel, Channel};
use tarpc::trace::{self, SamplingDecision, SpanId, TraceId};
use tarpc::{context, transport, ClientMessage, Request, Response};

type Seen = Arc<Mutex<Vec<(u64, context::Context)>>>;

async fn drive<S, E>(requests: S, seen: Seen, n: usize)
where
    S: Stream<Item = Result<server::InFlightRequest<String, String>, E>>,
{
    let mut requests = Box::pin(requests);
    for _ in 0..n {
        let r = match requests.next().await {
            Some(Ok(r)) => r,
            _ => return,
        };
        let id = r.get().id;
        let seen = seen.clone();
        r.execute(server::serve(move |ctx: context::Context, body: String| {
            let seen = seen.clone();
            async move {
                seen.lock().unwrap().push((id, ctx));
                Ok(body)
            }
        }))
        .await;
    }
}

#[tokio::test]
async fn handler_sees_the_context_that_was_sent() {
    let trace_ids = [0u128, 1, 1 << 64, u128::MAX];
    let span_ids = [0u64, 1, u64::MAX];
    let samplings = [SamplingDecision::Sampled, SamplingDecision::Unsampled];
    let day = 24 * 60 * 60;
    let remaining = [0u64, 1, 10, 30 * day, 364 * day, 366 * day, 2 * 365 * day, 10 * 365 * day];
    let mut evaluations = 0u64;
    let mut failures: Vec<String> = vec![];
    for throttled in [false, true] {
        for &t in &trace_ids {
            for &s in &span_ids {
                for &sd in &samplings {
                    for &rem in &remaining {
                        let (mut client, server): (
                            transport::channel::UnboundedChannel<Response<String>, ClientMessage<String>>,
                            transport::channel::UnboundedChannel<ClientMessage<String>, Response<String>>,
                        ) = transport::channel::unbounded();
                        let seen: Seen = Default::default();
                        let base = BaseChannel::with_defaults(server);
                        let task = if throttled {
                            tokio::spawn(drive(base.max_concurrent_requests(1).requests(), seen.clone(), 1))
                        } else {
                            tokio::spawn(drive(base.requests(), seen.clone(), 1))
                        };
                        let sent_deadline = Instant::now() + Duration::from_secs(rem);
                        let mut ctx = context::current();
                        ctx.deadline = sent_deadline;
                        ctx.trace_context = trace::Context { trace_id: TraceId::from(t), span_id: SpanId::from(s), sampling_decision: sd };
                        client.send(ClientMessage::Request(Request { context: ctx, id: 7, message: "body".to_string() })).await.unwrap();
                        let resp = tokio::time::timeout(Duration::from_secs(5), client.next()).await;
                        let _ = task.await;
                        evaluations += 1;
                        let what = format!("trace_id={t:#x} span_id={s:#x} {sd:?} remaining={rem}s throttle_layer={throttled}");
                        let observed = seen.lock().unwrap().clone();
                        // (an already due request may be expired before it runs: nothing to compare then)
                        match observed.as_slice() {
                            [] if rem <= 1 => {}
                            [] => failures.push(format!("{what}: the handler was never run (response: {resp:?})")),
                            [(_, got)] => {
                                if got.deadline != sent_deadline {
                                    let (sign, d) = if got.deadline < sent_deadline { ("earlier", sent_deadline - got.deadline) } else { ("later", got.deadline - sent_deadline) };
                                    failures.push(format!("C07 {what}: the handler's deadline is {d:?} {sign} than the one received"));
                                }
                                if u128::from(got.trace_context.trace_id) != t {
                                    failures.push(format!("C18 {what}: the handler observes trace id {:?}", got.trace_context.trace_id));
                                }
                                if got.trace_context.sampling_decision != sd {
                                    failures.push(format!("C18 {what}: the handler observes sampling decision {:?}", got.trace_context.sampling_decision));
                                }
                                if u64::from(got.trace_context.span_id) == s {
                                    failures.push(format!("C18 {what}: the handler's span id is the parent's, not a fresh one"));
                                }
                            }
                            more => failures.push(format!("{what}: {} handler invocations for one request", more.len())),
                        }
                    }
                }
            }
        }
    }
    println!("VERIF-BOUNDED server_context evaluations={evaluations} bound=grid 4 trace ids x 3 span ids x 2 samplings x 8 deadlines x 2 channel stacks");
    // keep the first two failures per property so that the attribution sees every property concerned
    let mut kept: Vec<String> = vec![];
    for tag in ["C07", "C18", ""] {
        kept.extend(failures.iter().filter(|f| if tag.is_empty() { !f.starts_with('C') } else { f.starts_with(tag) }).take(2).cloned());
    }
    let failures = kept;
    for f in &failures {
        println!("VERIF-FAIL {f}");
    }
    assert!(failures.is_empty(), "{}", failures[0]);
}
