//! BOUNDED replay search for the round-robin clause of C20 through the public API: backends that
//! count their calls; for 1..=4 backends and 0..=13 calls, issued
//!   * sequentially through one stub,
//!   * alternately through two / three clones of the stub,
//!   * concurrently (all futures created first, then joined) through clones,
//! the per-backend counts may never differ by more than one — after every prefix for the
//! sequential runs, at the end for the concurrent ones.
//! Source of concrete failing inputs when the Kani harnesses of `cycle::State::next` /
//! `RoundRobin::call` are undecided (e.g. the data layout they are written against changed) or
//! fail; a pass is never counted as proof.
use std::sync::atomic::{AtomicUsize, Ordering};
use std::sync::Arc;
use tarpc::client::stub::{load_balance::RoundRobin, Stub};
use tarpc::client::RpcError;
use tarpc::context;

#[derive(Clone)]
struct Backend(Arc<AtomicUsize>);
impl Stub for Backend {
    type Req = u32;
    type Resp = u32;
    async fn call(&self, _: context::Context, r: u32) -> Result<u32, RpcError> {
        self.0.fetch_add(1, Ordering::SeqCst);
        Ok(r)
    }
}

fn spread(counters: &[Arc<AtomicUsize>]) -> (usize, usize) {
    let v: Vec<usize> = counters.iter().map(|c| c.load(Ordering::SeqCst)).collect();
    (*v.iter().min().unwrap(), *v.iter().max().unwrap())
}

#[test]
fn round_robin_is_fair_also_through_clones() {
    let mut evaluations = 0u64;
    let mut failures: Vec<String> = vec![];
    for backends in 1..=4usize {
        for clones in 1..=3usize {
            for calls in 0..=13usize {
                for concurrent in [false, true] {
                    evaluations += 1;
                    let counters: Vec<Arc<AtomicUsize>> = (0..backends).map(|_| Arc::new(AtomicUsize::new(0))).collect();
                    let stub = RoundRobin::new(counters.iter().map(|c| Backend(c.clone())).collect());
                    let handles: Vec<_> = (0..clones).map(|_| stub.clone()).collect();
                    let desc = format!("{backends} backend(s), {calls} call(s) issued {} through {clones} clone(s) of the stub", if concurrent { "concurrently" } else { "one after the other" });
                    if concurrent {
                        let futs: Vec<_> = (0..calls).map(|i| handles[i % clones].call(context::current(), i as u32)).collect();
                        let _ = futures::executor::block_on(futures::future::join_all(futs));
                        let (lo, hi) = spread(&counters);
                        if hi - lo > 1 {
                            failures.push(format!("C20: per-backend counts differ by {} (min {lo}, max {hi}); {desc}", hi - lo));
                        }
                    } else {
                        for i in 0..calls {
                            let _ = futures::executor::block_on(handles[i % clones].call(context::current(), i as u32));
                            let (lo, hi) = spread(&counters);
                            if hi - lo > 1 {
                                failures.push(format!("C20: after call #{i} the per-backend counts differ by {} (min {lo}, max {hi}); {desc}", hi - lo));
                                break;
                            }
                        }
                    }
                    if failures.len() >= 3 {
                        break;
                    }
                }
            }
        }
    }
    failures.truncate(3);
    for f in &failures {
        println!("VERIF-FAIL {f}");
    }
    println!("VERIF-BOUNDED round_robin evaluations={evaluations} bound=1..=4 backends x 1..=3 clones x 0..=13 calls x sequential|concurrent");
    assert!(failures.is_empty(), "{}", failures[0]);
}
