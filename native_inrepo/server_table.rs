//! BOUNDED stand-in for `Drop for server::InFlightRequests` (C09: dropping a channel aborts its still-running
//! handlers): tables of up to 3 entries. Mounted under cfg(all(test, tarpc_verif)).
use super::*;
use futures::future::{pending, Abortable};
use futures::FutureExt;
use futures_test::task::noop_context;

#[tokio::test]
async fn verif_native_drop_aborts_all_bounded() {
    let ids = [0u64, 7, u64::MAX];
    let mut evaluations = 0;
    for mask in 0u32..(1 << ids.len()) {
        let mut t = InFlightRequests::default();
        let mut handlers = vec![];
        for (i, id) in ids.iter().enumerate() {
            if mask & (1 << i) != 0 {
                let reg = t
                    .start_request(
                        *id,
                        Instant::now() + std::time::Duration::from_secs(10),
                        Span::none(),
                    )
                    .unwrap();
                handlers.push(Box::pin(Abortable::new(pending::<()>(), reg)));
            }
        }
        for h in handlers.iter_mut() {
            assert!(
                h.poll_unpin(&mut noop_context()).is_pending(),
                "handler running before the drop"
            );
        }
        drop(t);
        evaluations += 1;
        for h in handlers.iter_mut() {
            assert!(
                matches!(
                    h.poll_unpin(&mut noop_context()),
                    std::task::Poll::Ready(Err(_))
                ),
                "C09: every still-running handler is aborted when the table is dropped"
            );
        }
    }
    println!("VERIF-BOUNDED drop_aborts evaluations={evaluations} bound=tables of <=3 entries");
}
