//! BOUNDED stand-in for `client::InFlightRequests::complete_all_requests` (the R11 assumed contract of
//! unit `client`): every table of up to 3 entries over boundary ids; the iterator is consumed to the end
//! exactly as `shut_down_with_terminal_error` does. Mounted under cfg(all(test, tarpc_verif)).
use super::*;
use crate::context;
use tokio::sync::oneshot;

#[tokio::test]
async fn verif_native_complete_all_requests_bounded() {
    let ids = [0u64, 1, 2, u64::MAX];
    let mut evaluations = 0;
    for mask in 0u32..(1 << ids.len()) {
        let chosen: Vec<u64> = ids
            .iter()
            .enumerate()
            .filter(|(i, _)| mask & (1 << i) != 0)
            .map(|(_, v)| *v)
            .collect();
        if chosen.len() > 3 {
            continue;
        }
        let mut t: InFlightRequests<Result<u32, &'static str>> = InFlightRequests::default();
        let mut rxs = vec![];
        for id in &chosen {
            let (tx, rx) = oneshot::channel();
            t.insert_request(*id, context::current(), Span::none(), tx)
                .unwrap();
            rxs.push(rx);
        }
        let n = t.complete_all_requests(|| Err("channel")).count();
        evaluations += 1;
        assert_eq!(n, chosen.len(), "one span per in-flight request");
        assert!(
            t.is_empty() && t.len() == 0,
            "C09/C11: table empty afterwards"
        );
        assert!(t.deadlines.is_empty(), "C11: no timer left");
        for mut rx in rxs {
            assert_eq!(
                rx.try_recv(),
                Ok(Err("channel")),
                "C09: every outstanding call is delivered the error"
            );
        }
    }
    println!("VERIF-BOUNDED complete_all evaluations={evaluations} bound=tables of <=3 entries over ids {{0,1,2,u64::MAX}}");
}
