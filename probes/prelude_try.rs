#[verifier::external_type_specification]
#[verifier::reject_recursive_types(T)]
pub struct ExPoll<T>(Poll<T>);

pub assume_specification<T> [std::task::Poll::<T>::is_pending] (p: &std::task::Poll<T>) -> (b: bool)
    ensures b == (*p is Pending);
pub assume_specification<T> [std::task::Poll::<T>::is_ready] (p: &std::task::Poll<T>) -> (b: bool)
    ensures b == (*p is Ready);

// core: impl<T,E> Try for Poll<Result<T,E>>
pub assume_specification<T, E> [<std::task::Poll<std::result::Result<T, E>> as std::ops::Try>::branch] (p: std::task::Poll<std::result::Result<T, E>>) -> (c: std::ops::ControlFlow<<std::task::Poll<std::result::Result<T, E>> as std::ops::Try>::Residual, <std::task::Poll<std::result::Result<T, E>> as std::ops::Try>::Output>)
    ensures
        match p {
            Poll::Ready(Ok(t)) => c == ControlFlow::<Result<Infallible, E>, Poll<T>>::Continue(Poll::Ready(t)),
            Poll::Ready(Err(e)) => c == ControlFlow::<Result<Infallible, E>, Poll<T>>::Break(Err(e)),
            Poll::Pending => c == ControlFlow::<Result<Infallible, E>, Poll<T>>::Continue(Poll::Pending),
        };
// core: impl<T,E> Try for Poll<Option<Result<T,E>>>
pub assume_specification<T, E> [<std::task::Poll<std::option::Option<std::result::Result<T, E>>> as std::ops::Try>::branch] (p: std::task::Poll<std::option::Option<std::result::Result<T, E>>>) -> (c: std::ops::ControlFlow<<std::task::Poll<std::option::Option<std::result::Result<T, E>>> as std::ops::Try>::Residual, <std::task::Poll<std::option::Option<std::result::Result<T, E>>> as std::ops::Try>::Output>)
    ensures
        match p {
            Poll::Ready(Some(Ok(t))) => c == ControlFlow::<Result<Infallible, E>, Poll<Option<T>>>::Continue(Poll::Ready(Some(t))),
            Poll::Ready(Some(Err(e))) => c == ControlFlow::<Result<Infallible, E>, Poll<Option<T>>>::Break(Err(e)),
            Poll::Ready(None) => c == ControlFlow::<Result<Infallible, E>, Poll<Option<T>>>::Continue(Poll::Ready(None)),
            Poll::Pending => c == ControlFlow::<Result<Infallible, E>, Poll<Option<T>>>::Continue(Poll::Pending),
        };
pub assume_specification<T, E, F: std::convert::From<E>> [<std::task::Poll<std::option::Option<std::result::Result<T, F>>> as std::ops::FromResidual<std::result::Result<std::convert::Infallible, E>>>::from_residual] (r: std::result::Result<std::convert::Infallible, E>) -> (p: std::task::Poll<std::option::Option<std::result::Result<T, F>>>)
    ensures p matches Poll::Ready(Some(Err(_)));
pub assume_specification<T, E, F: std::convert::From<E>> [<std::task::Poll<std::result::Result<T, F>> as std::ops::FromResidual<std::result::Result<std::convert::Infallible, E>>>::from_residual] (r: std::result::Result<std::convert::Infallible, E>) -> (p: std::task::Poll<std::result::Result<T, F>>)
    ensures p matches Poll::Ready(Err(_));
