use vstd::prelude::*;
use std::collections::HashMap;
use std::collections::hash_map::Entry;
use std::task::Poll;

macro_rules! ready {
    ($e:expr $(,)?) => { match $e { Poll::Ready(t) => t, Poll::Pending => return Poll::Pending } };
}

verus! {
#[verifier::external_type_specification]
#[verifier::reject_recursive_types(T)]
pub struct ExPoll<T>(Poll<T>);
pub type FnvHashMap<K, V> = HashMap<K, V>;
#[verifier::external_body] pub struct TaskCx { _p: u8 }

// ---------------- trusted model: Arc<Tracker<K>> / Weak<Tracker<K>> over a ghost world ----------------
pub type K = u64;   // key type fixed to u64 for the hash-model axiom; the code is parametric in K

/// live[t] = number of live TrackedChannels holding tracker t (its Arc strong count);
/// notes   = keys whose "all channels dropped" notification is still queued.
pub tracked struct World {
    pub ghost live: Map<int, nat>,
    pub ghost key_of: Map<int, K>,
    pub ghost next: int,
}
impl World {
    pub open spec fn wf(&self) -> bool {
        &&& forall|t: int| #[trigger] self.live.contains_key(t) ==> self.key_of.contains_key(t) && t < self.next
        &&& forall|t: int| #[trigger] self.key_of.contains_key(t) ==> self.live.contains_key(t)
    }
    /// number of live channels with key k
    pub open spec fn live_on(&self, t: int) -> nat { if self.live.contains_key(t) { self.live[t] } else { 0 } }
}

#[verifier::external_body] pub struct TrackerArc { _p: u8 }
#[verifier::external_body] pub struct TrackerWeak { _p: u8 }
#[verifier::external_body] pub struct DroppedKeysTx { _p: u8 }
#[verifier::external_body] pub struct DroppedKeysRx { _p: u8 }
pub struct Tracker { pub key: Option<K>, pub dropped_keys: DroppedKeysTx }

impl DroppedKeysTx { #[verifier::external_body] pub fn clone(&self) -> (r: DroppedKeysTx) { unimplemented!() } }
impl DroppedKeysRx {
    /// a notification for key k may be *stale*: all it says is that at some earlier time some tracker of k died
    #[verifier::external_body]
    pub fn poll_recv(&mut self, cx: &mut TaskCx) -> (r: Poll<Option<K>>) { unimplemented!() }
}
impl TrackerArc {
    pub uninterp spec fn tid(&self) -> int;
    /// Arc::new(Tracker{..}): a fresh tracker with one live holder (the channel about to be yielded)
    #[verifier::external_body]
    pub fn new(t: Tracker, Tracked(w): Tracked<&mut World>) -> (r: TrackerArc)
        requires old(w).wf(), t.key is Some,
        ensures final(w).wf(), !old(w).live.contains_key(r.tid()),
            final(w).live == old(w).live.insert(r.tid(), 1), final(w).key_of == old(w).key_of.insert(r.tid(), t.key->0),
    { unimplemented!() }
    #[verifier::external_body]
    pub fn downgrade(this: &TrackerArc) -> (r: TrackerWeak) ensures r.tid() == this.tid() { unimplemented!() }
}
impl TrackerWeak {
    pub uninterp spec fn tid(&self) -> int;
    #[verifier::external_body]
    pub fn strong_count(&self, Tracked(w): Tracked<&World>) -> (n: usize) ensures n == w.live_on(self.tid()) { unimplemented!() }
    /// upgrade: one more live holder if any is alive
    #[verifier::external_body]
    pub fn upgrade(&self, Tracked(w): Tracked<&mut World>) -> (r: Option<TrackerArc>)
        requires old(w).wf(),
        ensures final(w).wf(), final(w).key_of == old(w).key_of,
            match r {
                Some(a) => a.tid() == self.tid() && old(w).live_on(self.tid()) > 0 && final(w).live == old(w).live.insert(self.tid(), old(w).live[self.tid()] + 1),
                None => old(w).live_on(self.tid()) == 0 && final(w).live == old(w).live,
            },
    { unimplemented!() }
}
#[verifier::external_body]
pub fn compact_map<A, B>(m: &mut HashMap<A, B>) ensures final(m)@ == old(m)@ { unimplemented!() }

// ---------------- extracted from tarpc/src/server/limits/channels_per_key.rs ----------------
pub struct MaxChannelsPerKey {
    pub channels_per_key: u32,
    pub dropped_keys: DroppedKeysRx,
    pub dropped_keys_tx: DroppedKeysTx,
    pub key_counts: FnvHashMap<K, TrackerWeak>,
}

impl MaxChannelsPerKey {
    /// C13 invariant: every tracker with a live channel is the one its key's entry points to
    pub open spec fn inv(&self, w: &World) -> bool {
        &&& vstd::std_specs::hash::obeys_key_model::<K>()
        &&& w.wf()
        &&& self.channels_per_key >= 1
        &&& forall|t: int| #[trigger] w.live_on(t) > 0 ==>
                self.key_counts@.contains_key(w.key_of[t]) && self.key_counts@[w.key_of[t]].tid() == t
        // an entry's tracker (if it ever existed) was created for that key
        &&& forall|k: K| #[trigger] self.key_counts@.contains_key(k) && w.key_of.contains_key(self.key_counts@[k].tid()) ==> w.key_of[self.key_counts@[k].tid()] == k
        // never over the limit
        &&& forall|t: int| #[trigger] w.live_on(t) <= self.channels_per_key
    }

    fn increment_channels_for_key(&mut self, key: K, Tracked(w): Tracked<&mut World>) -> (r: Result<TrackerArc, K>)
        requires old(self).inv(old(w)),
        ensures
            final(self).inv(final(w)),
            // shed only if n channels of this key are alive
            r is Err ==> old(self).key_counts@.contains_key(key) && old(w).live_on(old(self).key_counts@[key].tid()) >= old(self).channels_per_key
                && final(w).live == old(w).live,
            r matches Ok(a) ==> final(w).key_of[a.tid()] == key && final(w).live_on(a.tid()) >= 1,
    {
        let self_ = self;
        let dropped_keys = &self_.dropped_keys_tx;
        match self_.key_counts.entry(key.clone()) {
            Entry::Vacant(vacant) => {
                let tracker = TrackerArc::new(Tracker {
                    key: Some(key),
                    dropped_keys: dropped_keys.clone(),
                }, Tracked(w));

                vacant.insert(TrackerArc::downgrade(&tracker));
                Ok(tracker)
            }
            Entry::Occupied(mut o) => {
                let count = o.get().strong_count(Tracked(w));
                if count >= self_.channels_per_key as usize {
                    Err(key)
                } else {
                    Ok(match o.get().upgrade(Tracked(w)) { Some(v) => v, None => {
                        let tracker = TrackerArc::new(Tracker {
                            key: Some(key),
                            dropped_keys: dropped_keys.clone(),
                        }, Tracked(w));

                        *o.get_mut() = TrackerArc::downgrade(&tracker);
                        tracker
                    }})
                }
            }
        }
    }

    fn poll_closed_channels(&mut self, cx: &mut TaskCx, Tracked(w): Tracked<&World>) -> (r: Poll<()>)
        requires old(self).inv(w),
        ensures final(self).inv(w),
    {
        let self_ = self;
        match ready!(self_.dropped_keys.poll_recv(cx)) {
            Some(key) => {
                self_.key_counts.remove(&key);
                compact_map(&mut self_.key_counts);
                Poll::Ready(())
            }
            None => Poll::Ready(()),
        }
    }
}
} // verus!
fn main() {}
