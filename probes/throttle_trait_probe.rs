use vstd::prelude::*;
use std::task::Poll;
use std::ops::ControlFlow;
use std::convert::Infallible;

macro_rules! ready {
    ($e:expr $(,)?) => {
        match $e {
            Poll::Ready(t) => t,
            Poll::Pending => return Poll::Pending,
        }
    };
}

verus! {

#[verifier::external_type_specification]
#[verifier::reject_recursive_types(T)]
pub struct ExPoll<T>(Poll<T>);

pub assume_specification<T> [std::task::Poll::<T>::is_pending] (p: &std::task::Poll<T>) -> (b: bool)
    ensures b == (*p is Pending);
pub assume_specification<T> [std::task::Poll::<T>::is_ready] (p: &std::task::Poll<T>) -> (b: bool)
    ensures b == (*p is Ready);

// core: impl<T,E> Try for Poll<Result<T,E>>
pub assume_specification<T, E> [<std::task::Poll<std::result::Result<T, E>> as std::ops::Try>::branch] (p: std::task::Poll<std::result::Result<T, E>>) -> (c: std::ops::ControlFlow<<std::task::Poll<std::result::Result<T, E>> as std::ops::Try>::Residual, <std::task::Poll<std::result::Result<T, E>> as std::ops::Try>::Output>)
    ensures
        match p {
            Poll::Ready(Ok(t)) => c == ControlFlow::<Result<Infallible, E>, Poll<T>>::Continue(Poll::Ready(t)),
            Poll::Ready(Err(e)) => c == ControlFlow::<Result<Infallible, E>, Poll<T>>::Break(Err(e)),
            Poll::Pending => c == ControlFlow::<Result<Infallible, E>, Poll<T>>::Continue(Poll::Pending),
        };
// core: impl<T,E> Try for Poll<Option<Result<T,E>>>
pub assume_specification<T, E> [<std::task::Poll<std::option::Option<std::result::Result<T, E>>> as std::ops::Try>::branch] (p: std::task::Poll<std::option::Option<std::result::Result<T, E>>>) -> (c: std::ops::ControlFlow<<std::task::Poll<std::option::Option<std::result::Result<T, E>>> as std::ops::Try>::Residual, <std::task::Poll<std::option::Option<std::result::Result<T, E>>> as std::ops::Try>::Output>)
    ensures
        match p {
            Poll::Ready(Some(Ok(t))) => c == ControlFlow::<Result<Infallible, E>, Poll<Option<T>>>::Continue(Poll::Ready(Some(t))),
            Poll::Ready(Some(Err(e))) => c == ControlFlow::<Result<Infallible, E>, Poll<Option<T>>>::Break(Err(e)),
            Poll::Ready(None) => c == ControlFlow::<Result<Infallible, E>, Poll<Option<T>>>::Continue(Poll::Ready(None)),
            Poll::Pending => c == ControlFlow::<Result<Infallible, E>, Poll<Option<T>>>::Continue(Poll::Pending),
        };
pub assume_specification<T, E, F: std::convert::From<E>> [<std::task::Poll<std::option::Option<std::result::Result<T, F>>> as std::ops::FromResidual<std::result::Result<std::convert::Infallible, E>>>::from_residual] (r: std::result::Result<std::convert::Infallible, E>) -> (p: std::task::Poll<std::option::Option<std::result::Result<T, F>>>)
    ensures p matches Poll::Ready(Some(Err(_)));
pub assume_specification<T, E, F: std::convert::From<E>> [<std::task::Poll<std::result::Result<T, F>> as std::ops::FromResidual<std::result::Result<std::convert::Infallible, E>>>::from_residual] (r: std::result::Result<std::convert::Infallible, E>) -> (p: std::task::Poll<std::result::Result<T, F>>)
    ensures p matches Poll::Ready(Err(_));

pub struct Req { pub id: u64 }
pub struct Resp { pub request_id: u64, pub throttled: bool }

pub struct ChanView { pub in_flight: Set<u64>, pub ready: bool, pub sent: Seq<Resp> }

pub trait Channel: Sized {
    spec fn view(&self) -> ChanView;

    fn in_flight_requests(&self) -> (n: usize)
        ensures n == self.view().in_flight.len(), self.view().in_flight.len() >= 0;

    fn poll_ready(&mut self) -> (r: Poll<Result<(), u8>>)
        ensures
            final(self).view().in_flight == old(self).view().in_flight,
            final(self).view().sent == old(self).view().sent,
            r matches Poll::Ready(Ok(())) ==> final(self).view().ready;

    fn poll_next(&mut self) -> (r: Poll<Option<Result<Req, u8>>>)
        ensures
            final(self).view().sent == old(self).view().sent,
            final(self).view().ready == old(self).view().ready,
            final(self).view().in_flight.len() >= 0,
            match r {
                Poll::Ready(Some(Ok(req))) => !old(self).view().in_flight.contains(req.id)
                    && final(self).view().in_flight.contains(req.id)
                    && final(self).view().in_flight.remove(req.id).subset_of(old(self).view().in_flight),
                _ => final(self).view().in_flight.subset_of(old(self).view().in_flight),
            };

    fn start_send(&mut self, item: Resp) -> (r: Result<(), u8>)
        requires old(self).view().ready,
        ensures
            !final(self).view().ready,
            final(self).view().in_flight == old(self).view().in_flight.remove(item.request_id),
            r is Ok && old(self).view().in_flight.contains(item.request_id) ==> final(self).view().sent == old(self).view().sent.push(item),
            !old(self).view().in_flight.contains(item.request_id) ==> final(self).view().sent == old(self).view().sent;
}

pub struct MaxRequests<C> { pub max_in_flight_requests: usize, pub inner: C }

impl<C: Channel> MaxRequests<C> {
    #[verifier::exec_allows_no_decreases_clause]
    fn poll_next(&mut self) -> (r: Poll<Option<Result<Req, u8>>>)
        ensures
            // C12: a request is handed to the application only if fewer than L others are in flight
            r matches Poll::Ready(Some(Ok(req))) ==> final(self).inner.view().in_flight.remove(req.id).len() < old(self).max_in_flight_requests,
            // every response written by the throttler in this poll is a throttle error
            forall|i: int| old(self).inner.view().sent.len() <= i < final(self).inner.view().sent.len() ==> final(self).inner.view().sent[i].throttled,
            old(self).inner.view().sent.len() <= final(self).inner.view().sent.len(),
    {
        while self.inner.in_flight_requests() >= self.max_in_flight_requests
            invariant
                self.max_in_flight_requests == old(self).max_in_flight_requests,
                old(self).inner.view().sent.len() <= self.inner.view().sent.len(),
                forall|i: int| old(self).inner.view().sent.len() <= i < self.inner.view().sent.len() ==> self.inner.view().sent[i].throttled,
        {
            ready!(self.inner.poll_ready()?);
            match ready!(self.inner.poll_next()?) {
                Some(r) => {
                    self.inner.start_send(Resp { request_id: r.id, throttled: true })?;
                }
                None => return Poll::Ready(None),
            }
        }
        self.inner.poll_next()
    }
}

} // verus!
fn main() {}
