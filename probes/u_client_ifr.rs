use vstd::prelude::*;
use std::collections::HashMap;
use std::collections::hash_map;
use std::task::Poll;

verus! {

// ---------------- trusted prelude (models of dependencies) ----------------
#[verifier::external_type_specification]
#[verifier::reject_recursive_types(T)]
pub struct ExPoll<T>(Poll<T>);

pub type FnvHashMap<K, V> = HashMap<K, V>;

pub enum Effect<Res> {
    /// oneshot sender with channel id `chan` consumed by send(value)
    Deliver { chan: int, value: Res },
}
pub tracked struct Fx<Res> { pub ghost log: Seq<Effect<Res>> }

#[verifier::external_body]
pub struct Span { _p: u8 }

#[verifier::external_body]
pub struct TaskCx { _p: u8 }

#[derive(Clone, Copy)]
pub struct Instant { pub t: u64 }
pub struct Duration { pub d: u64 }
#[derive(Clone, Copy)]
pub struct TraceContext { pub trace_id: u128, pub span_id: u64, pub sampled: bool }
#[derive(Clone, Copy)]
pub struct Context { pub deadline: Instant, pub trace_context: TraceContext }

pub uninterp spec fn now() -> u64;
pub open spec fn until(deadline: Instant) -> u64 { if deadline.t >= now() { (deadline.t - now()) as u64 } else { 0 } }
pub const MAX_TIMER: u64 = 68719476735; // 2^36 - 1 ms, tokio-util DelayQueue limit

impl Instant {
    #[verifier::external_body]
    pub fn time_until(&self) -> (r: Duration)
        ensures r.d == until(*self)
    { unimplemented!() }
}

pub mod oneshot {
    use super::*;
    #[verifier::external_body]
    #[verifier::accept_recursive_types(T)]
    pub struct Sender<T> { _p: core::marker::PhantomData<T> }
    impl<T> Sender<T> {
        pub uninterp spec fn chan(&self) -> int;
        #[verifier::external_body]
        pub fn send(self, t: T, Tracked(fx): Tracked<&mut Fx<T>>) -> (r: Result<(), T>)
            ensures final(fx).log == old(fx).log.push(Effect::Deliver { chan: self.chan(), value: t })
        { unimplemented!() }
    }
}

pub mod delay_queue {
    use super::*;
    #[derive(Clone, Copy)]
    pub struct Key { pub k: u64 }
    pub struct Entry { pub value: u64, pub at: u64 }
    #[verifier::external_body]
    pub struct DelayQueue { _p: u8 }
    #[verifier::external_body]
    pub struct Expired { _p: u8 }
    impl Expired {
        pub uninterp spec fn value(&self) -> u64;
        pub uninterp spec fn key(&self) -> Key;
        #[verifier::external_body]
        pub fn into_inner(self) -> (r: u64) ensures r == self.value() { unimplemented!() }
    }
    impl DelayQueue {
        pub uninterp spec fn view(&self) -> Map<Key, Entry>;
        #[verifier::external_body]
        pub fn insert(&mut self, value: u64, timeout: Duration) -> (k: Key)
            requires timeout.d <= MAX_TIMER,   // tokio-util panics otherwise
            ensures
                !old(self)@.contains_key(k),
                final(self)@ == old(self)@.insert(k, Entry { value, at: (now() + timeout.d) as u64 }),
        { unimplemented!() }
        #[verifier::external_body]
        pub fn remove(&mut self, key: &Key)
            requires old(self)@.contains_key(*key),  // tokio-util panics otherwise
            ensures final(self)@ == old(self)@.remove(*key)
        { unimplemented!() }
        #[verifier::external_body]
        pub fn clear(&mut self)
            ensures final(self)@ == Map::<Key, Entry>::empty()
        { unimplemented!() }
        #[verifier::external_body]
        pub fn poll_expired(&mut self, cx: &mut TaskCx) -> (r: Poll<Option<Expired>>)
            ensures
                match r {
                    Poll::Ready(Some(e)) => old(self)@.contains_key(e.key())
                        && old(self)@[e.key()].value == e.value()
                        && old(self)@[e.key()].at <= now()      // never early
                        && final(self)@ == old(self)@.remove(e.key()),
                    _ => final(self)@ == old(self)@,
                }
        { unimplemented!() }
    }
}
use delay_queue::DelayQueue;

pub trait Compact { fn compact(&mut self, usage_ratio_threshold: u64); }

#[verifier::external_body]
pub fn compact_map<K, V>(m: &mut HashMap<K, V>)
    ensures final(m)@ == old(m)@
{ unimplemented!() }

// ---------------- extracted from tarpc/src/client/in_flight_requests.rs ----------------
pub struct InFlightRequests<Resp> {
    pub request_data: FnvHashMap<u64, RequestData<Resp>>,
    pub deadlines: DelayQueue,
}

pub struct RequestData<Res> {
    pub ctx: Context,
    pub span: Span,
    pub response_completion: oneshot::Sender<Res>,
    pub deadline_key: delay_queue::Key,
}

pub struct AlreadyExistsError;

impl<Res> InFlightRequests<Res> {
    // ---- contract vocabulary ----
    pub open spec fn wf(&self) -> bool {
        &&& vstd::std_specs::hash::obeys_key_model::<u64>()
        // timers <-> entries bijection (C11: no leaked timer; C16: remove() never panics)
        &&& forall|id: u64| #[trigger] self.request_data@.contains_key(id) ==>
                self.deadlines@.contains_key(self.request_data@[id].deadline_key)
                && self.deadlines@[self.request_data@[id].deadline_key].value == id
        &&& forall|k: delay_queue::Key| #[trigger] self.deadlines@.contains_key(k) ==>
                self.request_data@.contains_key(self.deadlines@[k].value)
                && self.request_data@[self.deadlines@[k].value].deadline_key == k
    }

    pub fn len(&self) -> (n: usize)
        requires self.wf()
        ensures n == self.request_data@.len()
    {
        self.request_data.len()
    }

    pub fn insert_request(
        &mut self,
        request_id: u64,
        ctx: Context,
        span: Span,
        response_completion: oneshot::Sender<Res>,
    ) -> (r: Result<(), AlreadyExistsError>)
        requires old(self).wf(), until(ctx.deadline) <= MAX_TIMER,
        ensures
            final(self).wf(),
            old(self).request_data@.contains_key(request_id) ==> r is Err && final(self).request_data@ == old(self).request_data@ && final(self).deadlines@ == old(self).deadlines@,
            !old(self).request_data@.contains_key(request_id) ==> r is Ok
                && final(self).request_data@.dom() == old(self).request_data@.dom().insert(request_id)
                && final(self).request_data@[request_id].response_completion == response_completion
                && final(self).request_data@[request_id].ctx == ctx
                && (forall|id: u64| old(self).request_data@.contains_key(id) ==> final(self).request_data@[id] == old(self).request_data@[id])
                // C05: timer armed for exactly deadline - now
                && final(self).deadlines@[final(self).request_data@[request_id].deadline_key].at == now() + until(ctx.deadline),
    {
        match self.request_data.entry(request_id) {
            hash_map::Entry::Vacant(vacant) => {
                let timeout = ctx.deadline.time_until();
                let deadline_key = self.deadlines.insert(request_id, timeout);
                vacant.insert(RequestData {
                    ctx,
                    span,
                    response_completion,
                    deadline_key,
                });
                Ok(())
            }
            hash_map::Entry::Occupied(_) => Err(AlreadyExistsError),
        }
    }

    pub fn complete_request(&mut self, request_id: u64, result: Res, Tracked(fx): Tracked<&mut Fx<Res>>) -> (r: Option<Span>)
        requires old(self).wf(),
        ensures
            final(self).wf(),
            final(self).request_data@ == old(self).request_data@.remove(request_id),
            r is Some == old(self).request_data@.contains_key(request_id),
            // C01: the result goes to the sender registered under request_id and to nobody else
            old(self).request_data@.contains_key(request_id) ==> final(fx).log == old(fx).log.push(
                Effect::Deliver { chan: old(self).request_data@[request_id].response_completion.chan(), value: result }),
            !old(self).request_data@.contains_key(request_id) ==> final(fx).log == old(fx).log,
    {
        if let Some(request_data) = self.request_data.remove(&request_id) {
            compact_map(&mut self.request_data);
            self.deadlines.remove(&request_data.deadline_key);
            let _ = request_data.response_completion.send(result, Tracked(fx));
            return Some(request_data.span);
        }
        None
    }

    pub fn cancel_request(&mut self, request_id: u64) -> (r: Option<(Context, Span)>)
        requires old(self).wf(),
        ensures
            final(self).wf(),
            final(self).request_data@ == old(self).request_data@.remove(request_id),
            r is Some == old(self).request_data@.contains_key(request_id),
            r matches Some(p) ==> p.0 == old(self).request_data@[request_id].ctx,
    {
        if let Some(request_data) = self.request_data.remove(&request_id) {
            compact_map(&mut self.request_data);
            self.deadlines.remove(&request_data.deadline_key);
            Some((request_data.ctx, request_data.span))
        } else {
            None
        }
    }
}

} // verus!
fn main() {}
