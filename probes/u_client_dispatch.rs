use vstd::prelude::*;
use std::task::Poll;
use std::sync::Arc;
use std::ops::ControlFlow;
use std::convert::Infallible;

macro_rules! ready {
    ($e:expr $(,)?) => {
        match $e {
            Poll::Ready(t) => t,
            Poll::Pending => return Poll::Pending,
        }
    };
}

verus! {
#[verifier::external_type_specification]
#[verifier::reject_recursive_types(T)]
pub struct ExPoll<T>(Poll<T>);

pub assume_specification<T> [std::task::Poll::<T>::is_pending] (p: &std::task::Poll<T>) -> (b: bool)
    ensures b == (*p is Pending);
pub assume_specification<T> [std::task::Poll::<T>::is_ready] (p: &std::task::Poll<T>) -> (b: bool)
    ensures b == (*p is Ready);

// core: impl<T,E> Try for Poll<Result<T,E>>
pub assume_specification<T, E> [<std::task::Poll<std::result::Result<T, E>> as std::ops::Try>::branch] (p: std::task::Poll<std::result::Result<T, E>>) -> (c: std::ops::ControlFlow<<std::task::Poll<std::result::Result<T, E>> as std::ops::Try>::Residual, <std::task::Poll<std::result::Result<T, E>> as std::ops::Try>::Output>)
    ensures
        match p {
            Poll::Ready(Ok(t)) => c == ControlFlow::<Result<Infallible, E>, Poll<T>>::Continue(Poll::Ready(t)),
            Poll::Ready(Err(e)) => c == ControlFlow::<Result<Infallible, E>, Poll<T>>::Break(Err(e)),
            Poll::Pending => c == ControlFlow::<Result<Infallible, E>, Poll<T>>::Continue(Poll::Pending),
        };
// core: impl<T,E> Try for Poll<Option<Result<T,E>>>
pub assume_specification<T, E> [<std::task::Poll<std::option::Option<std::result::Result<T, E>>> as std::ops::Try>::branch] (p: std::task::Poll<std::option::Option<std::result::Result<T, E>>>) -> (c: std::ops::ControlFlow<<std::task::Poll<std::option::Option<std::result::Result<T, E>>> as std::ops::Try>::Residual, <std::task::Poll<std::option::Option<std::result::Result<T, E>>> as std::ops::Try>::Output>)
    ensures
        match p {
            Poll::Ready(Some(Ok(t))) => c == ControlFlow::<Result<Infallible, E>, Poll<Option<T>>>::Continue(Poll::Ready(Some(t))),
            Poll::Ready(Some(Err(e))) => c == ControlFlow::<Result<Infallible, E>, Poll<Option<T>>>::Break(Err(e)),
            Poll::Ready(None) => c == ControlFlow::<Result<Infallible, E>, Poll<Option<T>>>::Continue(Poll::Ready(None)),
            Poll::Pending => c == ControlFlow::<Result<Infallible, E>, Poll<Option<T>>>::Continue(Poll::Pending),
        };
pub assume_specification<T, E, F: std::convert::From<E>> [<std::task::Poll<std::option::Option<std::result::Result<T, F>>> as std::ops::FromResidual<std::result::Result<std::convert::Infallible, E>>>::from_residual] (r: std::result::Result<std::convert::Infallible, E>) -> (p: std::task::Poll<std::option::Option<std::result::Result<T, F>>>)
    ensures r matches Err(e) && p matches Poll::Ready(Some(Err(f))) && call_ensures(<F as std::convert::From<E>>::from, (e,), f);
pub assume_specification<T, E, F: std::convert::From<E>> [<std::task::Poll<std::result::Result<T, F>> as std::ops::FromResidual<std::result::Result<std::convert::Infallible, E>>>::from_residual] (r: std::result::Result<std::convert::Infallible, E>) -> (p: std::task::Poll<std::result::Result<T, F>>)
    ensures r matches Err(e) && p matches Poll::Ready(Err(f)) && call_ensures(<F as std::convert::From<E>>::from, (e,), f);


pub assume_specification<T> [<T as std::convert::From<T>>::from] (t: T) -> (r: T)
    ensures r == t;
// core: Poll<Result<T,E>>::map_err
pub assume_specification<T, E, U, F: FnOnce(E) -> U> [std::task::Poll::<std::result::Result<T, E>>::map_err] (p: std::task::Poll<std::result::Result<T, E>>, f: F) -> (r: std::task::Poll<std::result::Result<T, U>>)
    requires p matches Poll::Ready(Err(e)) ==> f.requires((e,)),
    ensures
        match p {
            Poll::Ready(Ok(t)) => r == Poll::<Result<T, U>>::Ready(Ok(t)),
            Poll::Ready(Err(e)) => r matches Poll::Ready(Err(u)) && f.ensures((e,), u),
            Poll::Pending => r is Pending,
        };
// ------------- trusted models -------------
#[verifier::external_body] pub struct Span { _p: u8 }
#[verifier::external_body] pub struct TaskCx { _p: u8 }
#[verifier::external_body] pub struct TErr { _p: u8 }     // C::Error
impl Span {
    #[verifier::external_body] pub fn clone(&self) -> (r: Span) { unimplemented!() }
}

#[derive(Clone, Copy)] pub struct Instant { pub t: u64 }
#[derive(Clone, Copy)] pub struct TraceContext { pub trace_id: u128, pub span_id: u64, pub sampled: bool }
#[derive(Clone, Copy)] pub struct Context { pub deadline: Instant, pub trace_context: TraceContext }

pub enum ChannelError { Read(Arc<TErr>), Ready(Arc<TErr>), Write(Arc<TErr>), Flush(Arc<TErr>), Close(Arc<TErr>) }
pub enum RpcError { Shutdown, Send(Box<TErr>), Channel(ChannelError), DeadlineExceeded, Server(u8) }

pub struct Request<T> { pub context: Context, pub id: u64, pub message: T }
pub enum ClientMessage<T> {
    Request(Request<T>),
    Cancel { trace_context: TraceContext, request_id: u64 },
}

/// What the ghost wire log records for one written item.
pub enum Wire { Req { id: u64, ctx: Context }, Cancel { id: u64, tc: TraceContext } }
pub open spec fn wire_of<T>(m: ClientMessage<T>) -> Wire {
    match m {
        ClientMessage::Request(r) => Wire::Req { id: r.id, ctx: r.context },
        ClientMessage::Cancel { trace_context, request_id } => Wire::Cancel { id: request_id, tc: trace_context },
    }
}

pub struct TV {
    pub sent: Seq<Wire>,
    pub ready: bool,        // poll_ready said Ready(Ok) and nothing written since
    pub failed: bool,       // a readiness / flush / close failure was reported
    pub closed: bool,       // poll_close returned Ready(Ok)
    pub unflushed: nat,
    pub flush_reg: bool,    // last poll_flush returned Pending (waker registered)
    pub ready_reg: bool,
}

/// Model of `Fuse<C>` where C: Transport. Preconditions = futures::Sink contract (C14).
#[verifier::external_body]
#[verifier::accept_recursive_types(Req)]
pub struct Transport<Req> { _p: core::marker::PhantomData<Req> }
impl<Req> Transport<Req> {
    pub uninterp spec fn view(&self) -> TV;

    #[verifier::external_body]
    pub fn poll_ready(&mut self, cx: &mut TaskCx) -> (r: Poll<Result<(), TErr>>)
        requires !old(self)@.failed, !old(self)@.closed,
        ensures
            final(self)@.sent == old(self)@.sent, final(self)@.unflushed == old(self)@.unflushed, final(self)@.closed == old(self)@.closed,
            final(self)@.flush_reg == old(self)@.flush_reg,
            match r {
                Poll::Ready(Ok(())) => final(self)@.ready && !final(self)@.failed,
                Poll::Ready(Err(_)) => final(self)@.failed,
                Poll::Pending => final(self)@.ready_reg && !final(self)@.failed && final(self)@.ready == old(self)@.ready,
            },
    { unimplemented!() }

    #[verifier::external_body]
    pub fn start_send(&mut self, item: ClientMessage<Req>) -> (r: Result<(), TErr>)
        requires old(self)@.ready, !old(self)@.failed, !old(self)@.closed,
        ensures
            !final(self)@.ready, final(self)@.failed == old(self)@.failed, final(self)@.closed == old(self)@.closed,
            r is Ok ==> final(self)@.sent == old(self)@.sent.push(wire_of(item)) && final(self)@.unflushed == old(self)@.unflushed + 1,
            r is Err ==> final(self)@.sent == old(self)@.sent && final(self)@.unflushed == old(self)@.unflushed,
            final(self)@.flush_reg == false,
    { unimplemented!() }

    #[verifier::external_body]
    pub fn poll_flush(&mut self, cx: &mut TaskCx) -> (r: Poll<Result<(), TErr>>)
        requires !old(self)@.failed,
        ensures
            final(self)@.sent == old(self)@.sent, final(self)@.ready == old(self)@.ready, final(self)@.closed == old(self)@.closed,
            match r {
                Poll::Ready(Ok(())) => final(self)@.unflushed == 0 && !final(self)@.failed,
                Poll::Ready(Err(_)) => final(self)@.failed,
                Poll::Pending => final(self)@.flush_reg && !final(self)@.failed && final(self)@.unflushed == old(self)@.unflushed,
            },
    { unimplemented!() }

    #[verifier::external_body]
    pub fn poll_close(&mut self, cx: &mut TaskCx) -> (r: Poll<Result<(), TErr>>)
        requires !old(self)@.failed,
        ensures
            final(self)@.sent == old(self)@.sent,
            match r {
                Poll::Ready(Ok(())) => final(self)@.unflushed == 0 && final(self)@.closed && !final(self)@.failed,
                Poll::Ready(Err(_)) => final(self)@.failed,
                Poll::Pending => final(self)@.flush_reg && !final(self)@.failed && final(self)@.closed == old(self)@.closed && final(self)@.unflushed == old(self)@.unflushed,
            },
    { unimplemented!() }
}

pub mod oneshot {
    use super::*;
    #[verifier::external_body]
    #[verifier::accept_recursive_types(T)]
    pub struct Sender<T> { _p: core::marker::PhantomData<T> }
    impl<T> Sender<T> {
        pub uninterp spec fn chan(&self) -> int;
        /// what `is_closed()` answered when the dispatch looked (one look per request)
        pub uninterp spec fn seen_closed(&self) -> bool;
        #[verifier::external_body]
        pub fn is_closed(&self) -> (b: bool) ensures b == self.seen_closed() { unimplemented!() }
    }
}

pub struct DispatchRequest<Req, Resp> {
    pub ctx: Context,
    pub span: Span,
    pub request_id: u64,
    pub request: Req,
    pub response_completion: oneshot::Sender<Result<Resp, RpcError>>,
}

/// Model of mpsc::Receiver<DispatchRequest>. Only stable facts are exposed: once it has
/// reported None it is closed-and-drained forever; Pending registers the waker.
#[verifier::external_body]
#[verifier::accept_recursive_types(Req)]
#[verifier::accept_recursive_types(Resp)]
pub struct PendingRequests<Req, Resp> { _p: core::marker::PhantomData<(Req, Resp)> }
pub struct QV { pub drained: bool, pub reg: bool, pub taken: Set<u64> }
impl<Req, Resp> PendingRequests<Req, Resp> {
    pub uninterp spec fn view(&self) -> QV;
    #[verifier::external_body]
    pub fn poll_recv(&mut self, cx: &mut TaskCx) -> (r: Poll<Option<DispatchRequest<Req, Resp>>>)
        ensures
            match r {
                // rely: ids handed over by Channel::call are pairwise distinct (fetch_add) -- assumption A-ids
                Poll::Ready(Some(d)) => !old(self)@.taken.contains(d.request_id) && final(self)@.taken == old(self)@.taken.insert(d.request_id) && final(self)@.drained == old(self)@.drained,
                Poll::Ready(None) => final(self)@.drained && final(self)@.taken == old(self)@.taken,
                Poll::Pending => final(self)@.reg && final(self)@.taken == old(self)@.taken && final(self)@.drained == old(self)@.drained,
            },
            old(self)@.drained ==> r matches Poll::Ready(None),
    { unimplemented!() }
}

#[verifier::external_body]
pub struct CanceledRequests { _p: u8 }
pub struct CV { pub drained: bool, pub reg: bool }
impl CanceledRequests {
    pub uninterp spec fn view(&self) -> CV;
    #[verifier::external_body]
    pub fn poll_next(&mut self, cx: &mut TaskCx) -> (r: Poll<Option<u64>>)
        ensures
            match r {
                Poll::Ready(Some(_)) => final(self)@.drained == old(self)@.drained,
                Poll::Ready(None) => final(self)@.drained,
                Poll::Pending => final(self)@.reg && final(self)@.drained == old(self)@.drained,
            },
            old(self)@.drained ==> r matches Poll::Ready(None),
    { unimplemented!() }
}

// ------------- contract of the (separately verified) client in-flight table -------------
// (in the real unit these are the *same* ensures clauses proved in the table unit)
pub struct Entry { pub ctx: Context, pub chan: int }
#[verifier::external_body]
#[verifier::accept_recursive_types(Res)]
pub struct InFlightRequests<Res> { _p: core::marker::PhantomData<Res> }
#[derive(Debug)]
pub struct AlreadyExistsError;
impl<Res> InFlightRequests<Res> {
    pub uninterp spec fn view(&self) -> Map<u64, Entry>;
    pub uninterp spec fn timers_reg(&self) -> bool;
    #[verifier::external_body]
    pub fn len(&self) -> (n: usize) ensures n == self@.len(), self@.dom().finite() { unimplemented!() }
    #[verifier::external_body]
    pub fn is_empty(&self) -> (b: bool) ensures b == (self@.len() == 0) { unimplemented!() }
    #[verifier::external_body]
    pub fn insert_request(&mut self, request_id: u64, ctx: Context, span: Span, response_completion: oneshot::Sender<Res>) -> (r: Result<(), AlreadyExistsError>)
        ensures
            old(self)@.contains_key(request_id) ==> r is Err && final(self)@ == old(self)@,
            !old(self)@.contains_key(request_id) ==> r is Ok && final(self)@ == old(self)@.insert(request_id, Entry { ctx, chan: response_completion.chan() }),
    { unimplemented!() }
    #[verifier::external_body]
    pub fn complete_request(&mut self, request_id: u64, result: Res) -> (r: Option<Span>)
        ensures final(self)@ == old(self)@.remove(request_id), r is Some == old(self)@.contains_key(request_id),
    { unimplemented!() }
    #[verifier::external_body]
    pub fn cancel_request(&mut self, request_id: u64) -> (r: Option<(Context, Span)>)
        ensures final(self)@ == old(self)@.remove(request_id), r is Some == old(self)@.contains_key(request_id),
            r matches Some(p) ==> p.0 == old(self)@[request_id].ctx,
    { unimplemented!() }
}

pub struct Config { pub max_in_flight_requests: usize, pub pending_request_buffer: usize }

// expect() on Result<(), AlreadyExistsError>: panics on Err => precondition
#[verifier::external_body]
pub fn expect_unique(r: Result<(), AlreadyExistsError>)
    requires r is Ok
{ unimplemented!() }

// ------------- extracted from tarpc/src/client.rs -------------
pub struct RequestDispatch<Req, Resp> {
    pub transport: Transport<Req>,
    pub pending_requests: PendingRequests<Req, Resp>,
    pub canceled_requests: CanceledRequests,
    pub in_flight_requests: InFlightRequests<Result<Resp, RpcError>>,
    pub config: Config,
}

pub open spec fn sub(a: Map<u64, Entry>, b: Map<u64, Entry>) -> bool { forall|k: u64| #[trigger] a.contains_key(k) ==> b.contains_key(k) && a[k] == b[k] }
pub broadcast proof fn lemma_has_req_push(s: Seq<Wire>, w: Wire, id: u64)
    requires has_req(s, id)
    ensures #[trigger] has_req(s.push(w), id)
{
    let i = choose|i: int| 0 <= i < s.len() && is_req_for(#[trigger] s[i], id);
    assert(s.push(w)[i] == s[i]);
}
pub broadcast proof fn lemma_has_req_new(s: Seq<Wire>, id: u64, ctx: Context)
    ensures #[trigger] has_req(s.push(Wire::Req { id, ctx }), id)
{
    assert(is_req_for(s.push(Wire::Req { id, ctx })[s.len() as int], id));
}
pub broadcast group group_wire { lemma_has_req_push, lemma_has_req_new }
pub broadcast proof fn lemma_remove_len(m: Map<u64, Entry>, k: u64)
    ensures #[trigger] m.remove(k).len() <= m.len()
{
    if m.contains_key(k) { m.lemma_remove_key_len(k); } else { assert(m.remove(k) =~= m); }
}
pub open spec fn is_req_for(w: Wire, id: u64) -> bool { w matches Wire::Req { id: j, .. } && j == id }
pub open spec fn has_req(sent: Seq<Wire>, id: u64) -> bool {
    exists|i: int| 0 <= i < sent.len() && is_req_for(#[trigger] sent[i], id)
}

impl<Req, Resp> RequestDispatch<Req, Resp> {
    /// dispatch invariant between polls
    pub open spec fn inv(&self) -> bool {
        // C03: everything in flight has had its Request written
        &&& forall|id: u64| #[trigger] self.in_flight_requests@.contains_key(id) ==> has_req(self.transport@.sent, id)
        // ids in flight were taken from the queue (so a fresh id is not in flight)
        &&& forall|id: u64| #[trigger] self.in_flight_requests@.contains_key(id) ==> self.pending_requests@.taken.contains(id)
        // C11: bounded
        &&& self.in_flight_requests@.len() <= self.config.max_in_flight_requests
        &&& !self.transport@.failed
    }

    fn poll_ready(&mut self, cx: &mut TaskCx) -> (r: Poll<Result<(), ChannelError>>)
        requires !old(self).transport@.failed, !old(self).transport@.closed,
        ensures
            final(self).transport@.sent == old(self).transport@.sent, final(self).transport@.unflushed == old(self).transport@.unflushed,
            final(self).transport@.closed == old(self).transport@.closed,
            final(self).in_flight_requests == old(self).in_flight_requests, final(self).pending_requests == old(self).pending_requests,
            final(self).canceled_requests == old(self).canceled_requests, final(self).config == old(self).config,
            match r {
                Poll::Ready(Ok(())) => final(self).transport@.ready && !final(self).transport@.failed,
                Poll::Ready(Err(e)) => final(self).transport@.failed && e is Ready,      // C09: activity named
                Poll::Pending => final(self).transport@.ready_reg && !final(self).transport@.failed,
            },
    {
        self.transport
            .poll_ready(cx)
            .map_err(|e| -> (r: ChannelError) ensures r is Ready { ChannelError::Ready(Arc::new(e)) })
    }

    pub open spec fn frame_tr(&self, o: &Self) -> bool {
        &&& self.in_flight_requests == o.in_flight_requests && self.pending_requests == o.pending_requests
        &&& self.canceled_requests == o.canceled_requests && self.config == o.config
    }

    fn start_send(&mut self, message: ClientMessage<Req>) -> (r: Result<(), TErr>)
        requires old(self).transport@.ready, !old(self).transport@.failed, !old(self).transport@.closed,
        ensures
            final(self).frame_tr(old(self)),
            !final(self).transport@.ready, final(self).transport@.failed == old(self).transport@.failed, final(self).transport@.closed == old(self).transport@.closed,
            r is Ok ==> final(self).transport@.sent == old(self).transport@.sent.push(wire_of(message)) && final(self).transport@.unflushed == old(self).transport@.unflushed + 1,
            r is Err ==> final(self).transport@.sent == old(self).transport@.sent && final(self).transport@.unflushed == old(self).transport@.unflushed,
    {
        self.transport.start_send(message)
    }

    fn poll_flush(&mut self, cx: &mut TaskCx) -> (r: Poll<Result<(), ChannelError>>)
        requires !old(self).transport@.failed,
        ensures
            final(self).frame_tr(old(self)),
            final(self).transport@.sent == old(self).transport@.sent, final(self).transport@.ready == old(self).transport@.ready, final(self).transport@.closed == old(self).transport@.closed,
            match r {
                Poll::Ready(Ok(())) => final(self).transport@.unflushed == 0 && !final(self).transport@.failed,
                Poll::Ready(Err(e)) => final(self).transport@.failed && e is Flush,
                Poll::Pending => final(self).transport@.flush_reg && !final(self).transport@.failed && final(self).transport@.unflushed == old(self).transport@.unflushed,
            },
    {
        self.transport
            .poll_flush(cx)
            .map_err(|e| -> (r: ChannelError) ensures r is Flush { ChannelError::Flush(Arc::new(e)) })
    }

    fn poll_close(&mut self, cx: &mut TaskCx) -> (r: Poll<Result<(), ChannelError>>)
        requires !old(self).transport@.failed,
        ensures
            final(self).frame_tr(old(self)),
            final(self).transport@.sent == old(self).transport@.sent,
            match r {
                Poll::Ready(Ok(())) => final(self).transport@.unflushed == 0 && final(self).transport@.closed && !final(self).transport@.failed,
                Poll::Ready(Err(e)) => final(self).transport@.failed && e is Close,
                Poll::Pending => final(self).transport@.flush_reg && !final(self).transport@.failed && final(self).transport@.closed == old(self).transport@.closed && final(self).transport@.unflushed == old(self).transport@.unflushed,
            },
    {
        self.transport
            .poll_close(cx)
            .map_err(|e| -> (r: ChannelError) ensures r is Close { ChannelError::Close(Arc::new(e)) })
    }

    /// idle(): what must hold whenever the write side goes to sleep (C14 + C02 clauses)
    pub open spec fn may_sleep_tr(&self) -> bool {
        self.transport@.unflushed == 0 || self.transport@.flush_reg
    }

    #[verifier::exec_allows_no_decreases_clause]   // C14 termination obligation is stated separately
    fn ensure_writeable(&mut self, cx: &mut TaskCx) -> (r: Poll<Option<Result<(), ChannelError>>>)
        requires !old(self).transport@.failed, !old(self).transport@.closed,
        ensures
            final(self).frame_tr(old(self)),
            final(self).transport@.sent == old(self).transport@.sent, final(self).transport@.closed == old(self).transport@.closed,
            match r {
                Poll::Ready(Some(Ok(()))) => final(self).transport@.ready && !final(self).transport@.failed,
                Poll::Ready(Some(Err(_))) => final(self).transport@.failed,
                Poll::Ready(None) => false,
                Poll::Pending => final(self).transport@.flush_reg && !final(self).transport@.failed,
            },
    {
        while self.poll_ready(cx)?.is_pending()
            invariant
                !self.transport@.failed, !self.transport@.closed, !old(self).transport@.closed, self.frame_tr(old(self)),
                self.transport@.sent == old(self).transport@.sent,
        {
            ready!(self.poll_flush(cx)?);
        }
        Poll::Ready(Some(Ok(())))
    }

    #[verifier::exec_allows_no_decreases_clause]
    fn poll_next_request(&mut self, cx: &mut TaskCx) -> (r: Poll<Option<Result<DispatchRequest<Req, Resp>, ChannelError>>>)
        requires old(self).inv(), !old(self).transport@.closed,
        ensures
            final(self).in_flight_requests == old(self).in_flight_requests, final(self).canceled_requests == old(self).canceled_requests,
            final(self).config == old(self).config,
            final(self).transport@.sent == old(self).transport@.sent, final(self).transport@.closed == old(self).transport@.closed,
            old(self).pending_requests@.taken.subset_of(final(self).pending_requests@.taken),
            match r {
                Poll::Ready(Some(Ok(d))) =>
                    // C14: a request is only yielded when the transport is ready for it
                    final(self).transport@.ready && !final(self).transport@.failed
                    // C11: and there is room for it
                    && final(self).in_flight_requests@.len() < final(self).config.max_in_flight_requests
                    // C03: and its caller had not gone away when the dispatch looked
                    && !d.response_completion.seen_closed()
                    // fresh id
                    && !old(self).pending_requests@.taken.contains(d.request_id) && final(self).pending_requests@.taken.contains(d.request_id)
                    && !final(self).in_flight_requests@.contains_key(d.request_id),
                Poll::Ready(Some(Err(_))) => final(self).transport@.failed,
                Poll::Ready(None) => final(self).pending_requests@.drained && !final(self).transport@.failed,   // C10
                Poll::Pending => !final(self).transport@.failed
                    // C02: asleep only with a wake source armed: queue waker, or flush waker, or (at capacity) the in-flight timers/responses
                    && (final(self).pending_requests@.reg || final(self).transport@.flush_reg
                        || final(self).in_flight_requests@.len() >= final(self).config.max_in_flight_requests),
            },
    {
        if self.in_flight_requests.len() >= self.config.max_in_flight_requests {
            return Poll::Pending;
        }

        ready!(self.ensure_writeable(cx)?);

        loop
            invariant
                self.transport@.ready, !self.transport@.failed, !self.transport@.closed, !old(self).transport@.closed,
                self.in_flight_requests == old(self).in_flight_requests, self.canceled_requests == old(self).canceled_requests,
                self.config == old(self).config, self.transport@.sent == old(self).transport@.sent,
                old(self).pending_requests@.taken.subset_of(self.pending_requests@.taken),
                old(self).inv(),
                self.in_flight_requests@.len() < self.config.max_in_flight_requests,
        {
            match ready!(self.pending_requests.poll_recv(cx)) {
                Some(request) => {
                    if request.response_completion.is_closed() {
                        continue;
                    }

                    return Poll::Ready(Some(Ok(request)));
                }
                None => return Poll::Ready(None),
            }
        }
    }

    #[verifier::exec_allows_no_decreases_clause]
    fn poll_next_cancellation(&mut self, cx: &mut TaskCx) -> (r: Poll<Option<Result<(Context, Span, u64), ChannelError>>>)
        requires old(self).inv(), !old(self).transport@.closed,
        ensures
            final(self).pending_requests == old(self).pending_requests, final(self).config == old(self).config,
            final(self).transport@.sent == old(self).transport@.sent, final(self).transport@.closed == old(self).transport@.closed,
            sub(final(self).in_flight_requests@, old(self).in_flight_requests@),
            !final(self).transport@.failed ==> final(self).inv(),
            match r {
                Poll::Ready(Some(Ok(t))) =>
                    final(self).transport@.ready && !final(self).transport@.failed
                    // C03: a cancellation is yielded only for an id that was in flight, which stops being in flight
                    && old(self).in_flight_requests@.contains_key(t.2) && !final(self).in_flight_requests@.contains_key(t.2)
                    // C18: with the context stored for that request
                    && t.0 == old(self).in_flight_requests@[t.2].ctx,
                Poll::Ready(Some(Err(_))) => final(self).transport@.failed,
                Poll::Ready(None) => final(self).canceled_requests@.drained && !final(self).transport@.failed,
                Poll::Pending => !final(self).transport@.failed && (final(self).canceled_requests@.reg || final(self).transport@.flush_reg),
            },
    {
        broadcast use lemma_remove_len;
        ready!(self.ensure_writeable(cx)?);

        loop
            invariant
                self.transport@.ready, !self.transport@.failed, !self.transport@.closed, !old(self).transport@.closed,
                self.pending_requests == old(self).pending_requests, self.config == old(self).config,
                self.transport@.sent == old(self).transport@.sent,
                sub(self.in_flight_requests@, old(self).in_flight_requests@),
                self.inv(),
        {
            match ready!(self.canceled_requests.poll_next(cx)) {
                Some(request_id) => {
                    if let Some((ctx, span)) = self.in_flight_requests.cancel_request(request_id)
                    {
                        return Poll::Ready(Some(Ok((ctx, span, request_id))));
                    }
                }
                None => return Poll::Ready(None),
            }
        }
    }

    fn poll_write_request(&mut self, cx: &mut TaskCx) -> (r: Poll<Option<Result<(), ChannelError>>>)
        requires old(self).inv(), !old(self).transport@.closed,
        ensures
            final(self).canceled_requests == old(self).canceled_requests, final(self).config == old(self).config,
            final(self).transport@.closed == old(self).transport@.closed,
            match r {
                Poll::Ready(Some(Ok(()))) => final(self).inv() && (
                    // either exactly one Request was written, for an id that is now in flight with that very context ...
                    (exists|id: u64, ctx: Context| final(self).transport@.sent == old(self).transport@.sent.push(Wire::Req { id, ctx })
                        && !old(self).in_flight_requests@.contains_key(id)
                        && final(self).in_flight_requests@.dom() == old(self).in_flight_requests@.dom().insert(id)
                        && final(self).in_flight_requests@[id].ctx == ctx           // C18: cancel will carry the same trace context
                        && sub(old(self).in_flight_requests@, final(self).in_flight_requests@))
                    // ... or the write failed and only that call was failed (C09), nothing else changed
                    || (final(self).transport@.sent == old(self).transport@.sent && final(self).in_flight_requests@ == old(self).in_flight_requests@)),
                Poll::Ready(Some(Err(_))) => final(self).transport@.failed && final(self).transport@.sent == old(self).transport@.sent,
                Poll::Ready(None) => final(self).inv() && final(self).pending_requests@.drained && final(self).transport@.sent == old(self).transport@.sent
                    && final(self).in_flight_requests == old(self).in_flight_requests,
                Poll::Pending => final(self).inv() && final(self).transport@.sent == old(self).transport@.sent && final(self).in_flight_requests == old(self).in_flight_requests
                    && (final(self).pending_requests@.reg || final(self).transport@.flush_reg
                        || final(self).in_flight_requests@.len() >= final(self).config.max_in_flight_requests),
            },
    {
        broadcast use group_wire;
        let DispatchRequest {
            ctx,
            span,
            request_id,
            request,
            response_completion,
        } = match ready!(self.poll_next_request(cx)?) {
            Some(dispatch_request) => dispatch_request,
            None => return Poll::Ready(None),
        };
        // poll_next_request only returns Ready if there is room to buffer another request.
        // Therefore, we can call write_request without fear of erroring due to a full
        // buffer.
        let request = ClientMessage::Request(Request {
            id: request_id,
            message: request,
            context: Context {
                deadline: ctx.deadline,
                trace_context: ctx.trace_context,
            },
        });
        self.in_flight_requests
            .insert_request(request_id, ctx, span.clone(), response_completion)
            .expect("Request IDs should be unique");
        match self.start_send(request) {
            Ok(()) => {}
            Err(e) => {
                self.in_flight_requests
                    .complete_request(request_id, Err(RpcError::Send(Box::new(e))));
            }
        }
        Poll::Ready(Some(Ok(())))
    }

    fn poll_write_cancel(&mut self, cx: &mut TaskCx) -> (r: Poll<Option<Result<(), ChannelError>>>)
        requires old(self).inv(), !old(self).transport@.closed,
        ensures
            final(self).pending_requests == old(self).pending_requests, final(self).config == old(self).config,
            final(self).transport@.closed == old(self).transport@.closed,
            sub(final(self).in_flight_requests@, old(self).in_flight_requests@),
            match r {
                Poll::Ready(Some(Ok(()))) => final(self).inv()
                    // C03: exactly one Cancel is written, for an id that was in flight (so its Request precedes it) and no longer is (so at most once)
                    // C18: carrying the trace context stored with the request
                    && exists|id: u64| old(self).in_flight_requests@.contains_key(id) && !final(self).in_flight_requests@.contains_key(id)
                        && has_req(old(self).transport@.sent, id)
                        && final(self).transport@.sent == old(self).transport@.sent.push(Wire::Cancel { id, tc: old(self).in_flight_requests@[id].ctx.trace_context }),
                Poll::Ready(Some(Err(e))) => final(self).transport@.sent == old(self).transport@.sent && (final(self).transport@.failed || e is Write),   // C09
                Poll::Ready(None) => final(self).inv() && final(self).canceled_requests@.drained && final(self).transport@.sent == old(self).transport@.sent,
                Poll::Pending => final(self).inv() && final(self).transport@.sent == old(self).transport@.sent
                    && (final(self).canceled_requests@.reg || final(self).transport@.flush_reg),
            },
    {
        broadcast use group_wire;
        let (context, span, request_id) = match ready!(self.poll_next_cancellation(cx)?) {
            Some(triple) => triple,
            None => return Poll::Ready(None),
        };

        let cancel = ClientMessage::Cancel {
            trace_context: context.trace_context,
            request_id,
        };
        self.start_send(cancel)
            .map_err(|e| -> (r: ChannelError) ensures r is Write { ChannelError::Write(Arc::new(e)) })?;
        Poll::Ready(Some(Ok(())))
    }
}

} // verus!
fn main() {}
