#!/usr/bin/env python3
"""Regenerate MANIFEST.json from vx/props.py (single source of truth for what is claimed)."""
import json, os, sys
VERIF = os.path.dirname(os.path.dirname(os.path.abspath(__file__)))
sys.path.insert(0, VERIF)
from vx import props

ALL = [json.loads(l)['id'] for l in open(os.path.join(VERIF, 'properties.jsonl'))]
m = json.load(open(os.path.join(VERIF, 'MANIFEST.json')))
checks = []
for pid in ALL:
    if pid not in props.PROPS:
        continue
    P = props.PROPS[pid]
    eng = []
    if P['verus']:
        eng.append('verus-extract')
    if P['kani']:
        eng.append('kani-inplace')
    checks.append(dict(
        property_id=pid,
        quick_cmd='python3 check.py %s --tier quick' % pid,
        thorough_cmd='python3 check.py %s --tier thorough' % pid,
        evidence_file='/verif/evidence/%s.json' % pid,
        engine='+'.join(eng),
        level_claimed=dict(category='proof', text=P.get('level_text', ''), design_ref=P.get('design_ref', 'DESIGN.md §4 ' + pid)),
        level_note=P.get('level_note', '') + ' Assumptions: ' + ', '.join(P['assumptions']) + '.' + ((' Bounded stand-ins (never counted as proved): ' + '; '.join(P['bounded'])) if P['bounded'] else ''),
        technique=P.get('technique', 'contract-based deductive verification'),
    ))
m['checks'] = checks
m['not_applicable'] = [dict(property_id=p, reason=props.NOT_APPLICABLE.get(p, 'not yet brought under contract by this machinery (no check registered)')) for p in ALL if p not in props.PROPS]
for e in m['engines']:
    if e['name'] == 'verus-extract':
        e['serves_properties'] = [p for p in ALL if p in props.PROPS and props.PROPS[p]['verus']]
    if e['name'] == 'kani-inplace':
        e['serves_properties'] = [p for p in ALL if p in props.PROPS and props.PROPS[p]['kani']]
json.dump(m, open(os.path.join(VERIF, 'MANIFEST.json'), 'w'), indent=1)
try:
    import jsonschema
    jsonschema.validate(m, json.load(open('/root/.vp/MANIFEST.schema.json')))
    ok = 'schema ok'
except ImportError:
    ok = 'schema not validated (run with python3-vt for jsonschema)'
print('MANIFEST.json: %d checks, %d not applicable; %s' % (len(checks), len(m['not_applicable']), ok))
