#!/bin/sh
# usage: tools/mut.sh <unit> <file-relative-to-repo> <python-regex> <replacement>
# applies one textual mutation to a scratch copy of /repo's sources and runs the unit on it
set -e
U=$1; F=$2; PAT=$3; REP=$4
rm -rf /scratch/mut/repo; mkdir -p /scratch/mut/repo
cp -r ${MUT_SRC:-/repo}/tarpc /scratch/mut/repo/tarpc 2>/dev/null; rm -rf /scratch/mut/repo/tarpc/target
python3 - "$F" "$PAT" "$REP" <<'PY'
import re,sys
f,pat,rep=sys.argv[1:4]
p='/scratch/mut/repo/'+f
s=open(p).read()
n=len(re.findall(pat,s,flags=re.M|re.S))
assert n==1, 'pattern matched %d times'%n
open(p,'w').write(re.sub(pat,rep,s,flags=re.M|re.S))
PY
VERIF_REPO=/scratch/mut/repo python3 /verif/tools/runu.py $U 2>&1 | grep -v "ensure_writeable | postcondition\|FAIL insert_request | precondition\|FAIL start_request | precondition" | grep "FAIL\|FATAL\|NOT failing\|undecided\|Error" | cut -c1-330
rm -rf /scratch/mut/repo
