import sys, importlib
sys.path.insert(0,'/verif')
from vx.extract import build_unit
from vx.verus_run import run_verus, classify, smt_times
name=sys.argv[1]
mod=importlib.import_module('contracts.'+name)
p=build_unit(mod.unit(), '/verif/build')
r=run_verus(p['generated'])
c=classify(r,p)
for f in c['failures']:
    if not f['canary']: print('FAIL', f['function'], '|', f['kind'], '|', f['tags'], '|', (f['clause_text'] or '')[:160], '| site:', (f['site_text'] or '')[:100])
cf=set(f['function'] for f in c['failures'] if f['canary'])
print('canary NOT failing:', [e['name'] for e in p['functions'] if e.get('canary_lines') and e['name'] not in cf])
print('undecided', c['undecided']); 
for x in c['fatal'][:int(sys.argv[2]) if len(sys.argv)>2 else 6]: print('FATAL', x['rendered'][:1800])
t=smt_times(r); print({k:v for k,v in t.items() if k!='per_function'}); print('wall', r['wall_s'])
slow=sorted(t['per_function'].items(), key=lambda kv:-(kv[1]['time_us'] or 0))[:5]
print('slowest', [(k.split('::')[-1], v['time_us']//1000) for k,v in slow])
