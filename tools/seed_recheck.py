#!/usr/bin/env python3
"""tools/seed_recheck.py <seed-name> <property>... : re-run the listed checks against a stored seeded change
(/verif/seeded/<name>/patch.diff applied to /repo, reverted afterwards) and update meta.json."""
import json, os, subprocess, sys, time
name, props = sys.argv[1], sys.argv[2:]
d = os.path.join('/verif/seeded', name)
meta = json.load(open(os.path.join(d, 'meta.json')))
def sh(c, cwd=None):
    p = subprocess.run(c, shell=True, cwd=cwd, capture_output=True, text=True, timeout=3000); return p.returncode, p.stdout + p.stderr
rc, o = sh('git -C /repo status --porcelain')
assert not o.strip(), '/repo not clean'
rc, o = sh('git -C /repo apply %s/patch.diff' % d); assert rc == 0, o
res = {}
try:
    for p in props:
        t0 = time.time(); rc, o = sh('python3 check.py %s --tier quick' % p, '/verif')
        lines = [l[:400] for l in o.split('\n') if l.startswith(('VIOLATION', 'failed obligation', 'failed harness', 'failed bounded', 'UNDECIDED', 'KNOWN-FINDING', 'OK '))]
        res[p] = dict(exit=rc, lines=lines, wall_s=round(time.time() - t0, 1)); print(p, 'exit', rc); [print('   ', l[:260]) for l in lines]
finally:
    sh('git -C /repo checkout -- .')
if 'checks' in meta and meta.get('caught_by') != [p for p, r in res.items() if r['exit'] == 1]:
    meta.setdefault('history', []).append(dict(earlier_checks=meta['checks'], earlier_caught_by=meta.get('caught_by')))
meta['checks'] = res
meta['caught_by'] = [p for p, r in res.items() if r['exit'] == 1]
json.dump(meta, open(os.path.join(d, 'meta.json'), 'w'), indent=1)
print('caught_by', meta['caught_by'])
