#!/usr/bin/env python3
"""tools/seed_eval.py <worktree> <seed-name> <property> [more properties to check...]

1. confirms, in the scratch worktree the sub-agent left (change applied, demo in tarpc/tests/seed_demo.rs), that the
   demo FAILS with the change, PASSES without it, and that the existing suite still passes with it;
2. stores patch.diff / demo / meta.json under /verif/seeded/<seed-name>/;
3. applies the patch to /repo, runs the listed checks, reverts /repo, and records which checks caught it.
"""
import json, os, re, shutil, subprocess, sys, time

wt, name, props = sys.argv[1], sys.argv[2], sys.argv[3:]
V = '/verif'
out = os.path.join(V, 'seeded', name)
os.makedirs(out, exist_ok=True)

def sh(cmd, cwd=None, timeout=3000):
    p = subprocess.run(cmd, shell=True, cwd=cwd, capture_output=True, text=True, timeout=timeout)
    return p.returncode, p.stdout + p.stderr

meta = dict(seed=name, breaks=props[0], worktree=wt, ran=[])
demo_cmd = 'cargo test --offline --features full -p tarpc --test seed_demo'
rc, o = sh(demo_cmd, wt)
with_change_fails = 'test result: FAILED' in o
meta['ran'].append(dict(cmd=demo_cmd + '   (change applied)', failed=with_change_fails, tail=o[-600:]))
rc, o = sh('git apply -R _seed/patch.diff && ' + demo_cmd + '; rc=$?; git apply _seed/patch.diff; exit $rc', wt)
without_passes = 'test result: ok' in o and 'test result: FAILED' not in o
meta['ran'].append(dict(cmd=demo_cmd + '   (change reverted)', passed=without_passes, tail=o[-400:]))
suite = 'cargo nextest run --workspace --no-fail-fast --tool-config-file pb:/w/lib/nextest.toml --profile pb --test-threads 8 --offline'
rc, o = sh(suite, wt)
m = re.search(r'(\d+) tests run: (\d+) passed, (\d+) failed', o)
fails = re.findall(r'^\s+FAIL \[[^\]]*\] (?:\(\s*\d+/\s*\d+\) )?(\S+ \S+)', o, re.M)
fails = sorted(set(f for f in fails))
other = [f for f in fails if 'compile_fail' not in f and 'seed_demo' not in f]
meta['ran'].append(dict(cmd=suite + '   (change applied)', summary=m.group(0) if m else o[-300:], failing=fails, existing_tests_broken=other))
meta['confirmed'] = bool(with_change_fails and without_passes and m and not other)
# store
for f in ('patch.diff', 'seed_demo.rs', 'notes.md'):
    src = os.path.join(wt, '_seed', f)
    if os.path.exists(src):
        shutil.copy(src, os.path.join(out, f))
notes = open(os.path.join(out, 'notes.md')).read() if os.path.exists(os.path.join(out, 'notes.md')) else ''
meta['needs_to_manifest'] = notes[:1500]
# run checks against /repo with the patch applied
rc, o = sh('git -C /repo status --porcelain')
if o.strip():
    print('REFUSING: /repo is not clean'); sys.exit(2)
rc, o = sh('git -C /repo apply %s' % os.path.join(out, 'patch.diff'))
if rc != 0:
    meta['apply_error'] = o[-500:]
    json.dump(meta, open(os.path.join(out, 'meta.json'), 'w'), indent=1)
    print('patch does not apply to /repo HEAD:', o[-300:]); sys.exit(3)
res = {}
try:
    for p in props:
        t0 = time.time()
        rc, o = sh('python3 check.py %s --tier quick' % p, V)
        lines = [l for l in o.split('\n') if l.startswith(('VIOLATION', 'failed obligation', 'failed harness', 'failed bounded', 'UNDECIDED', 'KNOWN-FINDING', 'OK '))]
        res[p] = dict(exit=rc, lines=[l[:400] for l in lines], wall_s=round(time.time() - t0, 1))
        print(p, 'exit', rc); [print('   ', l[:300]) for l in lines]
finally:
    sh('git -C /repo checkout -- .')
meta['checks'] = res
meta['caught_by'] = [p for p, r in res.items() if r['exit'] == 1]
json.dump(meta, open(os.path.join(out, 'meta.json'), 'w'), indent=1)
print('confirmed=%s caught_by=%s' % (meta['confirmed'], meta['caught_by']))
