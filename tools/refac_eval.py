#!/usr/bin/env python3
"""tools/refac_eval.py <dir-with-refactor_k.diff>: apply each behaviour-preserving refactoring to /repo, run the
checks that read the touched files, revert. A VIOLATION (exit 1) on a refactoring is a FALSE ALARM."""
import glob, json, os, re, subprocess, sys
d = sys.argv[1]
MAP = [('tarpc/src/client', ['C01', 'C03']), ('tarpc/src/server/limits/channels_per_key.rs', ['C13']), ('tarpc/src/server/request_hook', ['C19']),
       ('tarpc/src/server', ['C08', 'C12']), ('tarpc/src/context.rs', ['C07']), ('tarpc/src/util/serde.rs', ['C15']), ('tarpc/src/util.rs', ['C16', 'C11']),
       ('tarpc/src/trace.rs', ['C18']), ('tarpc/src/client/stub', ['C20']), ('tarpc/src/cancellations.rs', ['C03']), ('tarpc/src/client/in_flight_requests.rs', ['C01', 'C09']), ('tarpc/src/client.rs', ['C01', 'C09']),
       ('tarpc/src/transport', ['C15']), ('tarpc/src/serde_transport.rs', ['C15']), ('tarpc/src/server/limits/requests_per_channel.rs', ['C12', 'C14']),
       ('tarpc/src/server/in_flight_requests.rs', ['C08', 'C11'])]
def sh(c, cwd=None):
    p = subprocess.run(c, shell=True, cwd=cwd, capture_output=True, text=True, timeout=3000); return p.returncode, p.stdout + p.stderr
out = []
for f in sorted(glob.glob(os.path.join(d, 'refactor_*.diff'))):
    files = re.findall(r'^\+\+\+ b/(\S+)', open(f).read(), re.M)
    props = []
    for fl in files:
        cands = [m for m in MAP if fl.startswith(m[0])]
        best = max(cands, key=lambda m: len(m[0])) if cands else None
        if best:
            props += [p for p in best[1] if p not in props]
    rc, o = sh('git -C /repo status --porcelain'); assert not o.strip(), '/repo not clean'
    rc, o = sh('git -C /repo apply %s' % f)
    if rc != 0:
        out.append(dict(diff=f, error='does not apply: ' + o[-200:])); print(f, 'DOES NOT APPLY'); continue
    res = {}
    try:
        for p in props:
            rc, o = sh('python3 check.py %s --tier quick' % p, '/verif')
            lines = [l[:300] for l in o.split('\n') if l.startswith(('VIOLATION', 'failed', 'UNDECIDED', 'OK '))]
            res[p] = dict(exit=rc, lines=lines)
    finally:
        sh('git -C /repo checkout -- .')
    verdict = 'FALSE-ALARM' if any(r['exit'] == 1 for r in res.values()) else ('undecided' if any(r['exit'] == 2 for r in res.values()) else 'quiet')
    out.append(dict(diff=os.path.basename(f), files=files, checks=res, verdict=verdict))
    print(os.path.basename(f), files, verdict, {p: r['exit'] for p, r in res.items()})
    for p, r in res.items():
        if r['exit'] != 0:
            for l in r['lines'][:4]: print('     ', l[:260])
json.dump(out, open(os.path.join(d, 'eval.json'), 'w'), indent=1)
