use futures::{prelude::*, task::*, future::{Abortable, pending}};
use std::{collections::VecDeque, pin::Pin, time::{Duration, Instant}};
use tarpc::{context, server::{BaseChannel, Channel, TrackedRequest}, ClientMessage, Request, Response};

/// scripted transport: inbound queue, sink readiness switch, outbound log
struct T { inq: VecDeque<ClientMessage<u32>>, sink_ready: bool, out: Vec<Response<u32>> }
impl Stream for T { type Item = Result<ClientMessage<u32>, std::io::Error>;
    fn poll_next(mut self: Pin<&mut Self>, _: &mut Context<'_>) -> Poll<Option<Self::Item>> { match self.inq.pop_front() { Some(m) => Poll::Ready(Some(Ok(m))), None => Poll::Pending } } }
impl Sink<Response<u32>> for T { type Error = std::io::Error;
    fn poll_ready(self: Pin<&mut Self>, _: &mut Context<'_>) -> Poll<Result<(), Self::Error>> { if self.sink_ready { Poll::Ready(Ok(())) } else { Poll::Pending } }
    fn start_send(mut self: Pin<&mut Self>, r: Response<u32>) -> Result<(), Self::Error> { self.out.push(r); Ok(()) }
    fn poll_flush(self: Pin<&mut Self>, _: &mut Context<'_>) -> Poll<Result<(), Self::Error>> { Poll::Ready(Ok(())) }
    fn poll_close(self: Pin<&mut Self>, _: &mut Context<'_>) -> Poll<Result<(), Self::Error>> { Poll::Ready(Ok(())) } }

fn req(id: u64, d: Duration) -> ClientMessage<u32> { let mut c = context::current(); c.deadline = Instant::now() + d; ClientMessage::Request(Request { context: c, id, message: 0 }) }

#[tokio::test]
async fn c12_refused_although_nothing_else_in_flight() {
    let t = T { inq: VecDeque::new(), sink_ready: true, out: vec![] };
    let mut ch = Box::pin(BaseChannel::with_defaults(t).max_concurrent_requests(1));
    let cx = &mut Context::from_waker(noop_waker_ref());
    ch.as_mut().get_mut_inq().push_back(req(1, Duration::from_secs(10)));
    let a = match ch.as_mut().poll_next(cx) { Poll::Ready(Some(Ok(r))) => r, _ => panic!() };
    // peer cancels 1 and immediately asks 2
    ch.as_mut().get_mut_inq().push_back(ClientMessage::Cancel { trace_context: Default::default(), request_id: 1 });
    ch.as_mut().get_mut_inq().push_back(req(2, Duration::from_secs(10)));
    let r = ch.as_mut().poll_next(cx);
    let yielded = matches!(r, Poll::Ready(Some(Ok(_))));
    let throttled: Vec<u64> = ch.get_ref().get_ref().out.iter().map(|r| r.request_id).collect();
    println!("C12: limit 1, request 1 cancelled then request 2 read with 0 others in flight: yielded={yielded} throttled={throttled:?}");
    drop(a);
    assert!(yielded && throttled.is_empty());
}

#[tokio::test]
async fn c06_expiry_not_processed_while_sink_not_ready() {
    tokio::time::pause();
    let t = T { inq: VecDeque::new(), sink_ready: true, out: vec![] };
    let mut ch = Box::pin(BaseChannel::with_defaults(t).max_concurrent_requests(1));
    let cx = &mut Context::from_waker(noop_waker_ref());
    ch.as_mut().get_mut_inq().push_back(req(1, Duration::from_secs(1)));
    let TrackedRequest { abort_registration, .. } = match ch.as_mut().poll_next(cx) { Poll::Ready(Some(Ok(r))) => r, _ => panic!() };
    let mut handler = Box::pin(Abortable::new(pending::<()>(), abort_registration));
    ch.as_mut().set_sink_ready(false);
    tokio::time::advance(Duration::from_secs(100)).await;
    let _ = ch.as_mut().poll_next(cx);
    let aborted = matches!(handler.as_mut().poll(cx), Poll::Ready(Err(_)));
    println!("C06: limit 1, sink not ready, 100 s past a 1 s deadline, channel polled: handler aborted = {aborted}, in_flight = {}", ch.in_flight_requests());
    assert!(aborted);
}

trait Poke { fn get_mut_inq(self: Pin<&mut Self>) -> &mut VecDeque<ClientMessage<u32>>; fn set_sink_ready(self: Pin<&mut Self>, b: bool); }
impl Poke for tarpc::server::limits::requests_per_channel::MaxRequests<BaseChannel<u32, u32, T>> {
    fn get_mut_inq(self: Pin<&mut Self>) -> &mut VecDeque<ClientMessage<u32>> {
        // T is Unpin; reach it through the public pin accessors
        let me = unsafe { self.get_unchecked_mut() };
        let inner: &BaseChannel<u32, u32, T> = me.get_ref();
        let t: &T = inner.get_ref();
        unsafe { &mut (*(t as *const T as *mut T)).inq }
    }
    fn set_sink_ready(self: Pin<&mut Self>, b: bool) {
        let me = unsafe { self.get_unchecked_mut() };
        let t: &T = me.get_ref().get_ref();
        unsafe { (*(t as *const T as *mut T)).sink_ready = b; }
    }
}
