use tarpc::{Response, ServerError, ClientMessage};
use tokio_serde::{Serializer, Deserializer, formats::{Bincode, Json}};
use std::pin::Pin;
use std::io::ErrorKind;

#[test]
fn errkind_bincode_codec() {
    let mut bad = vec![];
    for k in [ErrorKind::NotFound, ErrorKind::PermissionDenied, ErrorKind::ConnectionRefused, ErrorKind::WouldBlock, ErrorKind::UnexpectedEof] {
        let r: Response<String> = Response { request_id: 7, message: Err(ServerError::new(k, "x".into())) };
        let mut c: Bincode<Response<String>, Response<String>> = Bincode::default();
        let bytes = Pin::new(&mut c).serialize(&r).unwrap();
        let back: Response<String> = Pin::new(&mut c).deserialize(&bytes.as_ref().into()).unwrap();
        if back != r { bad.push((k, back.message.unwrap_err().kind)); }
        let mut j: Json<Response<String>, Response<String>> = Json::default();
        let bytes = Pin::new(&mut j).serialize(&r).unwrap();
        let back: Response<String> = Pin::new(&mut j).deserialize(&bytes.as_ref().into()).unwrap();
        assert_eq!(back, r);
    }
    println!("MISMATCHES under shipped Bincode codec: {:?}", bad);
    assert!(bad.is_empty());
}

#[test]
fn huge_deadline_json() {
    let s = r#"{"Request":{"context":{"deadline":{"secs":18446744073709551615,"nanos":0},"trace_context":{"trace_id":[0,0,0,0,0,0,0,0,0,0,0,0,0,0,0,0],"span_id":0,"sampling_decision":"Unsampled"}},"id":1,"message":"hi"}}"#;
    let r = std::panic::catch_unwind(|| { let mut j: Json<ClientMessage<String>, ClientMessage<String>> = Json::default(); Pin::new(&mut j).deserialize(&s.as_bytes().into()).map(|_| ()) });
    println!("decode huge deadline: {:?}", r.as_ref().map(|x| x.as_ref().map_err(|e| e.to_string())).map_err(|_| "PANIC"));
    assert!(r.is_ok());
}
