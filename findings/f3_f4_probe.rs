use futures::prelude::*;
use std::time::{Duration, Instant};
use tarpc::{client, context, server::{self, BaseChannel, Channel}, transport, ClientMessage, Request, Response};

fn ctx_in(d: Duration) -> context::Context { let mut c = context::current(); c.deadline = Instant::now() + d; c }

async fn server_sees(d: Duration) -> &'static str {
    let (mut tx, rx) = transport::channel::unbounded();
    let mut ch: std::pin::Pin<Box<BaseChannel<u32, u32, _>>> = Box::pin(BaseChannel::new(server::Config::default(), rx));
    tx.send(ClientMessage::Request(Request { context: ctx_in(d), id: 1, message: 5u32 })).await.unwrap();
    let r = std::panic::AssertUnwindSafe(async { ch.next().await.map(|_| ()) }).catch_unwind().await;
    if r.is_err() { "PANIC" } else { "ok" }
}

async fn client_sends(d: Duration) -> &'static str {
    let (tx, _rx): (transport::channel::UnboundedChannel<Response<u32>, ClientMessage<u32>>, transport::channel::UnboundedChannel<ClientMessage<u32>, Response<u32>>) = transport::channel::unbounded();
    let client::NewClient { client, dispatch }: client::NewClient<client::Channel<u32, u32>, _> = client::new(client::Config::default(), tx);
    let h = tokio::spawn(dispatch);
    let c2 = client.clone();
    let call = tokio::spawn(async move { let _ = tokio::time::timeout(Duration::from_millis(200), c2.call(ctx_in(d), 1u32)).await; });
    let _ = call.await;
    drop(client);
    match tokio::time::timeout(Duration::from_millis(500), h).await { Ok(Err(e)) if e.is_panic() => "DISPATCH PANIC", Ok(_) => "ok", Err(_) => "ok(timeout)" }
}

#[tokio::test]
async fn timer_range_no_subscriber() {
    for (name, d) in [("1y", 365*86400u64), ("3y", 3*365*86400), ("100y", 100*365*86400), ("9000y", 9000*365*86400)] {
        let d = Duration::from_secs(d);
        println!("server deadline {name}: {}", server_sees(d).await);
        println!("client deadline {name}: {}", client_sends(d).await);
    }
}

#[tokio::test]
async fn with_fmt_subscriber() {
    let _ = tracing_subscriber::fmt().with_max_level(tracing::Level::INFO).with_writer(std::io::sink).try_init();
    for (name, d) in [("1y", 365*86400u64), ("9000y", 9000*365*86400)] {
        let d = Duration::from_secs(d);
        println!("[fmt] server deadline {name}: {}", server_sees(d).await);
        println!("[fmt] client deadline {name}: {}", client_sends(d).await);
    }
}
