// Demonstration for finding F4 (property C16): with a tracing subscriber listening, a request
// whose deadline lies beyond the year 9999 made the `rpc.deadline` span field fail to format
// (`humantime::format_rfc3339` returns fmt::Error), which panics inside the subscriber's
// writer -- in the server channel for a peer-chosen deadline. Drop into tarpc/tests/ and run
//   cargo test --features full --test f4_deadline_field
// Fails on the tree before the `fix:` commit, passes after.
use futures::prelude::*;
use std::time::{Duration, Instant};
use tarpc::{context, server::{self, BaseChannel}, transport, ClientMessage, Request};

#[tokio::test]
async fn far_deadline_with_subscriber_does_not_crash_server_channel() {
    let _ = tracing_subscriber::fmt().with_max_level(tracing::Level::INFO).with_writer(std::io::sink).try_init();
    for years in [1u64, 9000, 200_000] {
        let mut c = context::current();
        c.deadline = Instant::now() + Duration::from_secs(years * 365 * 86400);
        let (mut tx, rx) = transport::channel::unbounded();
        let mut ch: std::pin::Pin<Box<BaseChannel<u32, u32, _>>> = Box::pin(BaseChannel::new(server::Config::default(), rx));
        tx.send(ClientMessage::Request(Request { context: c, id: 1, message: 5u32 })).await.unwrap();
        let r = std::panic::AssertUnwindSafe(async { ch.next().await.map(|_| ()) }).catch_unwind().await;
        assert!(r.is_ok(), "server channel panicked on a deadline {years} years ahead");
    }
}
