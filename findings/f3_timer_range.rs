// Demonstration for finding F3 (property C16): a deadline more than ~2.18 years ahead panics
// tokio-util's DelayQueue::insert inside the server channel (peer-chosen) and inside the client
// dispatch (caller-chosen). Drop into tarpc/tests/ and run
//   cargo test --features full --test f3_timer_range
// Fails on the tree before the `fix:` commit, passes after.
use futures::prelude::*;
use std::time::{Duration, Instant};
use tarpc::{client, context, server::{self, BaseChannel}, transport, ClientMessage, Request, Response};

fn ctx_in(d: Duration) -> context::Context { let mut c = context::current(); c.deadline = Instant::now() + d; c }

async fn server_sees(d: Duration) -> &'static str {
    let (mut tx, rx) = transport::channel::unbounded();
    let mut ch: std::pin::Pin<Box<BaseChannel<u32, u32, _>>> = Box::pin(BaseChannel::new(server::Config::default(), rx));
    tx.send(ClientMessage::Request(Request { context: ctx_in(d), id: 1, message: 5u32 })).await.unwrap();
    let r = std::panic::AssertUnwindSafe(async { ch.next().await.map(|_| ()) }).catch_unwind().await;
    if r.is_err() { "PANIC" } else { "ok" }
}

async fn client_sends(d: Duration) -> &'static str {
    let (tx, _rx): (transport::channel::UnboundedChannel<Response<u32>, ClientMessage<u32>>, transport::channel::UnboundedChannel<ClientMessage<u32>, Response<u32>>) = transport::channel::unbounded();
    let client::NewClient { client, dispatch }: client::NewClient<client::Channel<u32, u32>, _> = client::new(client::Config::default(), tx);
    let h = tokio::spawn(dispatch);
    let c2 = client.clone();
    let call = tokio::spawn(async move { let _ = tokio::time::timeout(Duration::from_millis(200), c2.call(ctx_in(d), 1u32)).await; });
    let _ = call.await;
    drop(client);
    match tokio::time::timeout(Duration::from_millis(500), h).await { Ok(Err(e)) if e.is_panic() => "DISPATCH PANIC", Ok(_) => "ok", Err(_) => "ok(timeout)" }
}

#[tokio::test]
async fn far_deadlines_do_not_crash_either_end() {
    for years in [1u64, 3, 100] {
        let d = Duration::from_secs(years * 365 * 86400);
        assert_eq!(server_sees(d).await, "ok", "server, deadline {years}y ahead");
        assert!(client_sends(d).await.starts_with("ok"), "client, deadline {years}y ahead");
    }
}
