use futures::{prelude::*, task::*};
use std::{pin::Pin, sync::{Arc, atomic::{AtomicUsize, Ordering}}};
use tarpc::{client, context, server::{BaseChannel, incoming::Incoming}, transport::channel::{self, UnboundedChannel}, ClientMessage, Response};

type Srv = UnboundedChannel<ClientMessage<u32>, Response<u32>>;

#[tokio::test]
async fn c13_stale_close_erases_live_count() {
    let (ltx, lrx) = futures::channel::mpsc::unbounded::<BaseChannel<u32, u32, Srv>>();
    let mut limited = Box::pin(lrx.max_channels_per_key(1, |_c| 7u32));
    let mk = || { let (_c, s): (UnboundedChannel<Response<u32>, ClientMessage<u32>>, Srv) = channel::unbounded(); (_c, BaseChannel::with_defaults(s)) };
    let (_ka, a) = mk(); ltx.unbounded_send(a).unwrap();
    let a = limited.next().await.unwrap();
    drop(a);                                   // close notification for key 7 now pending
    let (_kb, b) = mk(); ltx.unbounded_send(b).unwrap();
    let b = limited.next().await.unwrap();     // same poll sees arrival + stale close
    let (_kc, c) = mk(); ltx.unbounded_send(c).unwrap();
    let cx = &mut Context::from_waker(noop_waker_ref());
    let third = limited.as_mut().poll_next(cx);
    let admitted = matches!(third, Poll::Ready(Some(_)));
    println!("C13: with limit 1 and channel B alive, third same-key channel admitted = {admitted}");
    drop(b);
    assert!(!admitted, "two live channels with the same key under limit 1");
}

/// A sink whose readiness is independent of flushing (bounded-queue-like): flush always completes.
struct Indep { polls: Arc<AtomicUsize> }
impl Stream for Indep { type Item = Result<Response<u32>, std::io::Error>; fn poll_next(self: Pin<&mut Self>, _: &mut Context<'_>) -> Poll<Option<Self::Item>> { Poll::Pending } }
impl Sink<ClientMessage<u32>> for Indep {
    type Error = std::io::Error;
    fn poll_ready(self: Pin<&mut Self>, cx: &mut Context<'_>) -> Poll<Result<(), Self::Error>> {
        let n = self.polls.fetch_add(1, Ordering::SeqCst);
        if n > 10_000 { panic!("poll_ready called >10000 times within one poll of the dispatch"); }
        cx.waker().wake_by_ref(); // contract-abiding: a wakeup is arranged
        Poll::Pending
    }
    fn start_send(self: Pin<&mut Self>, _: ClientMessage<u32>) -> Result<(), Self::Error> { Ok(()) }
    fn poll_flush(self: Pin<&mut Self>, _: &mut Context<'_>) -> Poll<Result<(), Self::Error>> { Poll::Ready(Ok(())) }
    fn poll_close(self: Pin<&mut Self>, _: &mut Context<'_>) -> Poll<Result<(), Self::Error>> { Poll::Ready(Ok(())) }
}

#[test]
fn c14_spin_on_independent_readiness() {
    let polls = Arc::new(AtomicUsize::new(0));
    let client::NewClient { client, dispatch } = client::new::<u32, u32, _>(client::Config::default(), Indep { polls: polls.clone() });
    let mut dispatch = Box::pin(dispatch);
    let cx = &mut Context::from_waker(noop_waker_ref());
    let r = std::panic::catch_unwind(std::panic::AssertUnwindSafe(|| { let _ = dispatch.as_mut().poll(cx); }));
    println!("C14: one dispatch poll against a not-ready transport made {} poll_ready calls; returned control = {}", polls.load(Ordering::SeqCst), r.is_ok());
    drop(client);
    assert!(r.is_ok());
}
