// ---- std::sync::atomic::AtomicUsize used as a call counter (A-atomic) ----
/// ghost value of the shared counter
pub tracked struct CFx { pub ghost value: usize }
#[verifier::external_body] pub struct AtomicUsize { _p: u8 }
impl AtomicUsize {
    /// `fetch_add(n, Ordering::Relaxed)`: returns the previous value and adds n, wrapping around -- atomically,
    /// so concurrent calls draw distinct consecutive values (the memory ordering only concerns other memory)
    #[verifier::external_body]
    pub fn fetch_add(&self, n: usize, Tracked(fx): Tracked<&mut CFx>) -> (r: usize)
        ensures r == old(fx).value, final(fx).value == (if old(fx).value + n > usize::MAX { (old(fx).value + n - usize::MAX - 1) as usize } else { (old(fx).value + n) as usize }),
    { unimplemented!() }
}
