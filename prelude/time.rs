// ---- time and request context (A-clock; arithmetic meaning of `until` is proved on the real
//      `time_until` by Kani unit K3) ----
#[derive(Clone, Copy)] pub struct Instant { pub t: u64 }
#[derive(Clone, Copy)] pub struct Duration { pub ms: u64 }
pub mod trace {
    #[derive(Clone, Copy)] pub struct Context { pub trace_id: u128, pub span_id: u64, pub sampled: bool }
}
pub mod context {
    use super::*;
    #[derive(Clone, Copy)] pub struct Context { pub deadline: Instant, pub trace_context: trace::Context }
}

/// `until(d)` = what `d.time_until()` answers (saturating `d - now`): uninterpreted here.
pub uninterp spec fn until(deadline: Instant) -> Duration;
/// tokio-util's DelayQueue::insert panics for timeouts above 2^36 - 1 ms.
pub const MAX_TIMER_MS: u64 = 68719476735;

/// Model of `crate::util::MAX_TIMER_DELAY`: that the real constant is exactly 31_536_000_000 ms
/// (and hence within the DelayQueue range) is proved by Kani harness k3_max_timer_delay_value.
pub const MAX_TIMER_DELAY: Duration = Duration { ms: 31_536_000_000 };
pub open spec fn max_timer_delay() -> Duration { Duration { ms: 31_536_000_000 } }
pub open spec fn dmin(a: Duration, b: Duration) -> Duration { if a.ms <= b.ms { a } else { b } }
impl Duration {
    /// Ord::min on Duration
    #[verifier::external_body]
    pub fn min(self, other: Duration) -> (r: Duration)
        ensures r == dmin(self, other)
    { unimplemented!() }
}

impl Instant {
    #[verifier::external_body]
    pub fn time_until(&self) -> (r: Duration)
        ensures r == until(*self)
    { unimplemented!() }
    /// the clock: an arbitrary instant (nothing about its value is used; monotonicity is A-clock)
    #[verifier::external_body]
    pub fn now() -> (r: Instant) { unimplemented!() }
    /// Ord::min / Ord::max on Instant
    #[verifier::external_body]
    pub fn min(self, other: Instant) -> (r: Instant)
        ensures r == (if self.t <= other.t { self } else { other })
    { unimplemented!() }
    #[verifier::external_body]
    pub fn max(self, other: Instant) -> (r: Instant)
        ensures r == (if self.t >= other.t { self } else { other })
    { unimplemented!() }
}
/// `Instant + Duration`: panics on overflow of the platform representation; the model demands the
/// (conservative) range of 1000 years, inside which std never overflows.
pub uninterp spec fn instant_plus(i: Instant, d: Duration) -> Instant;
impl vstd::std_specs::ops::AddSpecImpl<Duration> for Instant {
    open spec fn obeys_add_spec() -> bool { true }
    open spec fn add_req(self, rhs: Duration) -> bool { rhs.ms <= 31_536_000_000_000 }
    open spec fn add_spec(self, rhs: Duration) -> Instant { instant_plus(self, rhs) }
}
impl core::ops::Add<Duration> for Instant {
    type Output = Instant;
    #[verifier::external_body]
    fn add(self, rhs: Duration) -> (r: Instant) { unimplemented!() }
}
