// ---- the pluggable transport, as seen through `Fuse<C>` where C: Transport (A-sink) ----
// The model's *preconditions on start_send are exactly what property C14 states* (write only
// after readiness was reported for that item, never after close or a reported failure): every
// call site in tarpc must prove them.  Its postconditions expose only what the contract promises.
pub struct TV<S> {
    /// every item accepted by start_send, in order (the wire log)
    pub sent: Seq<S>,
    /// poll_ready answered Ready(Ok) and nothing was written since
    pub ready: bool,
    /// a readiness / write / flush / close failure was reported
    pub failed: bool,
    /// poll_close answered Ready(Ok)
    pub closed: bool,
    /// items written and not yet known flushed
    pub unflushed: nat,
    /// the last poll_flush / poll_close answered Pending (waker registered for flush progress)
    pub flush_reg: bool,
    /// the last poll_ready answered Pending (waker registered for readiness)
    pub ready_reg: bool,
    /// the last poll_next answered Pending (waker registered for inbound data)
    pub read_reg: bool,
    /// poll_next answered Ready(None): inbound side ended (stable: Fuse)
    pub read_done: bool,
    /// ghost counter: how many times poll_ready has answered Pending (bounded-retry clause, C14)
    pub np: nat,
    /// ghost counter: how many times the inbound side has been polled (C04/C06: control traffic processed)
    pub nr: nat,
}

#[verifier::external_body]
#[verifier::accept_recursive_types(S)]
#[verifier::accept_recursive_types(I)]
pub struct Transport<S, I> { _p: core::marker::PhantomData<(S, I)> }

impl<S, I> Transport<S, I> {
    pub uninterp spec fn view(&self) -> TV<S>;

    #[verifier::external_body]
    pub fn poll_ready(&mut self, cx: &mut TaskCx) -> (r: Poll<Result<(), TErr>>)
        ensures
            final(self)@.sent == old(self)@.sent, final(self)@.unflushed == old(self)@.unflushed, final(self)@.closed == old(self)@.closed,
            final(self)@.flush_reg == old(self)@.flush_reg, final(self)@.read_reg == old(self)@.read_reg, final(self)@.read_done == old(self)@.read_done, final(self)@.nr == old(self)@.nr,
            match r {
                Poll::Ready(Ok(())) => final(self)@.ready && final(self)@.failed == old(self)@.failed && final(self)@.np == old(self)@.np,
                Poll::Ready(Err(_)) => final(self)@.failed && final(self)@.np == old(self)@.np,
                Poll::Pending => final(self)@.ready_reg && final(self)@.failed == old(self)@.failed && final(self)@.ready == old(self)@.ready && final(self)@.np == old(self)@.np + 1,
            },
    { unimplemented!() }

    #[verifier::external_body]
    pub fn start_send(&mut self, item: S) -> (r: Result<(), TErr>)
        requires
            old(self)@.ready, // @C14
            !old(self)@.failed, // @C14
            !old(self)@.closed, // @C14
        ensures
            !final(self)@.ready, final(self)@.failed == old(self)@.failed, final(self)@.closed == old(self)@.closed,
            final(self)@.read_reg == old(self)@.read_reg, final(self)@.read_done == old(self)@.read_done, final(self)@.np == old(self)@.np, final(self)@.nr == old(self)@.nr,
            r is Ok ==> final(self)@.sent == old(self)@.sent.push(item) && final(self)@.unflushed == old(self)@.unflushed + 1,
            r is Err ==> final(self)@.sent == old(self)@.sent && final(self)@.unflushed == old(self)@.unflushed,
            final(self)@.flush_reg == false,
    { unimplemented!() }

    #[verifier::external_body]
    pub fn poll_flush(&mut self, cx: &mut TaskCx) -> (r: Poll<Result<(), TErr>>)
        ensures
            final(self)@.sent == old(self)@.sent, final(self)@.ready == old(self)@.ready, final(self)@.closed == old(self)@.closed,
            final(self)@.read_reg == old(self)@.read_reg, final(self)@.read_done == old(self)@.read_done, final(self)@.np == old(self)@.np, final(self)@.nr == old(self)@.nr,
            final(self)@.ready_reg == old(self)@.ready_reg,
            match r {
                Poll::Ready(Ok(())) => final(self)@.unflushed == 0 && final(self)@.failed == old(self)@.failed,
                Poll::Ready(Err(_)) => final(self)@.failed,
                Poll::Pending => final(self)@.flush_reg && final(self)@.failed == old(self)@.failed && final(self)@.unflushed == old(self)@.unflushed,
            },
    { unimplemented!() }

    #[verifier::external_body]
    pub fn poll_close(&mut self, cx: &mut TaskCx) -> (r: Poll<Result<(), TErr>>)
        ensures
            final(self)@.sent == old(self)@.sent,
            final(self)@.read_reg == old(self)@.read_reg, final(self)@.read_done == old(self)@.read_done, final(self)@.np == old(self)@.np, final(self)@.nr == old(self)@.nr,
            match r {
                Poll::Ready(Ok(())) => final(self)@.unflushed == 0 && final(self)@.closed && final(self)@.failed == old(self)@.failed,
                Poll::Ready(Err(_)) => final(self)@.failed,
                Poll::Pending => final(self)@.flush_reg && final(self)@.failed == old(self)@.failed && final(self)@.closed == old(self)@.closed && final(self)@.unflushed == old(self)@.unflushed,
            },
    { unimplemented!() }

    /// inbound side (Stream through Fuse): after Ready(None) it keeps answering Ready(None)
    #[verifier::external_body]
    pub fn poll_next(&mut self, cx: &mut TaskCx) -> (r: Poll<Option<Result<I, TErr>>>)
        ensures
            final(self)@.sent == old(self)@.sent, final(self)@.ready == old(self)@.ready, final(self)@.failed == old(self)@.failed,
            final(self)@.closed == old(self)@.closed, final(self)@.unflushed == old(self)@.unflushed, final(self)@.flush_reg == old(self)@.flush_reg,
            final(self)@.ready_reg == old(self)@.ready_reg, final(self)@.np == old(self)@.np, final(self)@.nr == old(self)@.nr + 1,
            match r {
                Poll::Ready(Some(_)) => final(self)@.read_done == old(self)@.read_done,
                Poll::Ready(None) => final(self)@.read_done,
                Poll::Pending => final(self)@.read_reg && final(self)@.read_done == old(self)@.read_done,
            },
            old(self)@.read_done ==> r matches Poll::Ready(None),
    { unimplemented!() }
}

// core: Poll<Option<Result<T,E>>>::map_err
pub assume_specification<T, E, U, F: FnOnce(E) -> U> [std::task::Poll::<std::option::Option<std::result::Result<T, E>>>::map_err] (p: std::task::Poll<std::option::Option<std::result::Result<T, E>>>, f: F) -> (r: std::task::Poll<std::option::Option<std::result::Result<T, U>>>)
    requires p matches Poll::Ready(Some(Err(e))) ==> f.requires((e,)),
    ensures
        match p {
            Poll::Ready(Some(Ok(t))) => r == Poll::<Option<Result<T, U>>>::Ready(Some(Ok(t))),
            Poll::Ready(Some(Err(e))) => r matches Poll::Ready(Some(Err(u))) && f.ensures((e,), u),
            Poll::Ready(None) => r matches Poll::Ready(None),
            Poll::Pending => r is Pending,
        };

/// `transport.fuse()` (futures `StreamExt::fuse`): the same transport; the model above already is the fused view (A-sink)
#[verifier::external_body]
pub fn fuse_model<S, I>(t: Transport<S, I>) -> (r: Transport<S, I>) ensures r@ == t@ { unimplemented!() }
