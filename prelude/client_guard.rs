// ---- caller-side objects of one call (A-oneshot, A-mpsc): the response receiver and the
//      cancellation sender, with an ordered ghost log of what the guard does to them ----
pub enum GEffect {
    /// oneshot::Receiver::close() on the receiver of channel `chan`
    CloseRx { chan: int },
    /// RequestCancellation::cancel(id): id pushed onto the dispatch's cancellation queue
    CancelMsg { id: u64 },
    /// a DispatchRequest was handed to the dispatch's request queue
    Enqueue { id: u64, chan: int, ctx: context::Context },
    /// the caller awaited the receiver of channel `chan`
    Await { chan: int },
}
pub tracked struct GFx { pub ghost log: Seq<GEffect> }

pub mod guard_models {
    use super::*;
    #[verifier::external_body]
    #[verifier::accept_recursive_types(T)]
    pub struct Receiver<T> { _p: core::marker::PhantomData<T> }
    impl<T> Receiver<T> {
        pub uninterp spec fn chan(&self) -> int;
        #[verifier::external_body]
        pub fn close(&mut self, Tracked(fx): Tracked<&mut GFx>)
            ensures final(fx).log == old(fx).log.push(GEffect::CloseRx { chan: old(self).chan() }), final(self).chan() == old(self).chan(),
        { unimplemented!() }
    }
    #[verifier::external_body] pub struct RequestCancellation { _p: u8 }
    impl RequestCancellation {
        /// identity of the dispatch's cancellation queue this handle feeds
        pub uninterp spec fn queue(&self) -> int;
        /// Clone of the unbounded sender inside: the same queue
        #[verifier::external_body]
        pub fn clone(&self) -> (r: RequestCancellation) ensures r.queue() == self.queue() { unimplemented!() }
        #[verifier::external_body]
        pub fn cancel(&self, request_id: u64, Tracked(fx): Tracked<&mut GFx>)
            ensures final(fx).log == old(fx).log.push(GEffect::CancelMsg { id: request_id })
        { unimplemented!() }
    }
}
