// ---- caller-side models for Channel::call (A-oneshot, A-mpsc, A-ids) ----
pub mod call_models {
    use super::*;
    /// `oneshot::channel()`: sender and receiver of one fresh channel
    #[verifier::external_body]
    pub fn oneshot_channel<T>() -> (r: (oneshot::Sender<T>, guard_models::Receiver<T>))
        ensures r.0.chan() == r.1.chan()
    { unimplemented!() }
    /// `Arc<AtomicUsize>` request-id counter: fetch_add hands out pairwise distinct values (A-ids)
    #[verifier::external_body] pub struct NextId { _p: u8 }
    impl NextId {
        /// identity of the shared atomic counter behind the Arc
        pub uninterp spec fn counter(&self) -> int;
        #[verifier::external_body]
        pub fn fetch_add(&self, n: usize) -> (r: usize) { unimplemented!() }
        /// Arc::clone: the same counter
        #[verifier::external_body]
        pub fn clone(&self) -> (r: NextId) ensures r.counter() == self.counter() { unimplemented!() }
    }
    pub struct SendError;
    /// `mpsc::Sender<DispatchRequest>`: the queue to the dispatch
    #[verifier::external_body]
    #[verifier::accept_recursive_types(Req)]
    #[verifier::accept_recursive_types(Resp)]
    pub struct ToDispatch<Req, Resp> { _p: core::marker::PhantomData<(Req, Resp)> }
    impl<Req, Resp> ToDispatch<Req, Resp> {
        /// identity of the dispatch's request queue
        pub uninterp spec fn queue(&self) -> int;
        /// mpsc::Sender::clone: the same queue
        #[verifier::external_body]
        pub fn clone(&self) -> (r: ToDispatch<Req, Resp>) ensures r.queue() == self.queue() { unimplemented!() }
        #[verifier::external_body]
        pub async fn send(&self, d: DispatchRequest<Req, Resp>, Tracked(fx): Tracked<&mut GFx>) -> (r: Result<(), SendError>)
            ensures final(fx).log == old(fx).log.push(GEffect::Enqueue { id: d.request_id, chan: d.response_completion.chan(), ctx: d.ctx })
        { unimplemented!() }
    }
    pub struct RecvError {}
}
impl<T> guard_models::Receiver<T> {
    /// `(&mut receiver).await`
    #[verifier::external_body]
    pub async fn recv(&mut self, Tracked(fx): Tracked<&mut GFx>) -> (r: Result<T, call_models::RecvError>)
        ensures final(fx).log == old(fx).log.push(GEffect::Await { chan: old(self).chan() }), final(self).chan() == old(self).chan(),
    { unimplemented!() }
}

// ---- what `client::new` builds its two halves from (A-mpsc, A-ids, A-sink) ----
pub mod new_models {
    use super::*;
    /// `mpsc::channel(buffer)`: sender and receiver of one fresh queue; nothing taken, not closed, not drained
    #[verifier::external_body]
    pub fn mpsc_channel<Req, Resp>(buffer: usize) -> (r: (call_models::ToDispatch<Req, Resp>, PendingRequests<Req, Resp>))
        ensures r.0.queue() == r.1.queue(), !r.1@.drained, !r.1@.closed_by_rx, r.1@.taken == Set::<u64>::empty(),
    { unimplemented!() }
    /// `crate::cancellations::cancellations()`: the two halves of one fresh cancellation queue
    #[verifier::external_body]
    pub fn cancellations() -> (r: (guard_models::RequestCancellation, CanceledRequests))
        ensures r.0.queue() == r.1.queue(), !r.1@.drained,
    { unimplemented!() }
    /// `Arc::new(AtomicUsize::new(0))`: a fresh shared id counter
    #[verifier::external_body]
    pub fn next_id_new() -> (r: call_models::NextId) { unimplemented!() }
}
