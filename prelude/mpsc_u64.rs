// ---- tokio::sync::mpsc unbounded channel of u64 (A-mpsc), for crate::cancellations ----
pub enum QEffect { Sent { v: u64 } }
pub tracked struct QFx { pub ghost log: Seq<QEffect> }
pub mod mpsc {
    use super::*;
    #[verifier::external_body] pub struct UnboundedSender { _p: u8 }
    #[verifier::external_body] pub struct UnboundedReceiver { _p: u8 }
    pub struct SendErr;
    /// `mpsc::unbounded_channel()`: the two ends of one fresh queue
    #[verifier::external_body]
    pub fn unbounded_channel() -> (r: (UnboundedSender, UnboundedReceiver))
        ensures r.0.chan() == r.1.chan()
    { unimplemented!() }
    impl UnboundedSender {
        /// identity of the queue this sender feeds
        pub uninterp spec fn chan(&self) -> int;
        #[verifier::external_body]
        pub fn send(&self, v: u64, Tracked(fx): Tracked<&mut QFx>) -> (r: Result<(), SendErr>)
            ensures final(fx).log == old(fx).log.push(QEffect::Sent { v })
        { unimplemented!() }
    }
    impl UnboundedReceiver {
        /// identity of the queue this receiver drains
        pub uninterp spec fn chan(&self) -> int;
        /// what the next poll_recv will answer (prophecy-style ghost: lets a wrapper be specified as "forwards")
        pub uninterp spec fn next_answer(&self) -> Poll<Option<u64>>;
        #[verifier::external_body]
        pub fn poll_recv(&mut self, cx: &mut TaskCx) -> (r: Poll<Option<u64>>)
            ensures r == old(self).next_answer()
        { unimplemented!() }
    }
}
