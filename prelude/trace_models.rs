// ---- trace-context derivation (A-otel; new_child is proved on the real code in unit trace_ctx) ----
pub struct NoActiveSpan;
impl trace::Context {
    /// `trace::Context::try_from(&Span)`: OpenTelemetry bridge -- unconstrained result (A-otel)
    #[verifier::external_body]
    pub fn try_from(span: &Span) -> (r: Result<trace::Context, NoActiveSpan>) { unimplemented!() }
    /// `trace::Context::new_child`: same trace id and sampling decision, fresh span id
    /// (proved on the real trace::Context::new_child in Verus unit trace_ctx)
    #[verifier::external_body]
    pub fn new_child(&self) -> (r: trace::Context)
        ensures r.trace_id == self.trace_id, r.sampled == self.sampled
    { unimplemented!() }
}

