// ---- core::task::Poll and the `?` operator on it (specifications of core library fns; trusted: A-core) ----
#[verifier::external_type_specification]
#[verifier::reject_recursive_types(T)]
pub struct ExPoll<T>(Poll<T>);

pub assume_specification<T> [std::task::Poll::<T>::is_pending] (p: &std::task::Poll<T>) -> (b: bool)
    ensures b == (*p is Pending);
pub assume_specification<T> [std::task::Poll::<T>::is_ready] (p: &std::task::Poll<T>) -> (b: bool)
    ensures b == (*p is Ready);

pub assume_specification<T, E> [<std::task::Poll<std::result::Result<T, E>> as std::ops::Try>::branch] (p: std::task::Poll<std::result::Result<T, E>>) -> (c: std::ops::ControlFlow<<std::task::Poll<std::result::Result<T, E>> as std::ops::Try>::Residual, <std::task::Poll<std::result::Result<T, E>> as std::ops::Try>::Output>)
    ensures
        match p {
            Poll::Ready(Ok(t)) => c == ControlFlow::<Result<Infallible, E>, Poll<T>>::Continue(Poll::Ready(t)),
            Poll::Ready(Err(e)) => c == ControlFlow::<Result<Infallible, E>, Poll<T>>::Break(Err(e)),
            Poll::Pending => c == ControlFlow::<Result<Infallible, E>, Poll<T>>::Continue(Poll::Pending),
        };
pub assume_specification<T, E> [<std::task::Poll<std::option::Option<std::result::Result<T, E>>> as std::ops::Try>::branch] (p: std::task::Poll<std::option::Option<std::result::Result<T, E>>>) -> (c: std::ops::ControlFlow<<std::task::Poll<std::option::Option<std::result::Result<T, E>>> as std::ops::Try>::Residual, <std::task::Poll<std::option::Option<std::result::Result<T, E>>> as std::ops::Try>::Output>)
    ensures
        match p {
            Poll::Ready(Some(Ok(t))) => c == ControlFlow::<Result<Infallible, E>, Poll<Option<T>>>::Continue(Poll::Ready(Some(t))),
            Poll::Ready(Some(Err(e))) => c == ControlFlow::<Result<Infallible, E>, Poll<Option<T>>>::Break(Err(e)),
            Poll::Ready(None) => c == ControlFlow::<Result<Infallible, E>, Poll<Option<T>>>::Continue(Poll::Ready(None)),
            Poll::Pending => c == ControlFlow::<Result<Infallible, E>, Poll<Option<T>>>::Continue(Poll::Pending),
        };
pub assume_specification<T, E, F: std::convert::From<E>> [<std::task::Poll<std::option::Option<std::result::Result<T, F>>> as std::ops::FromResidual<std::result::Result<std::convert::Infallible, E>>>::from_residual] (r: std::result::Result<std::convert::Infallible, E>) -> (p: std::task::Poll<std::option::Option<std::result::Result<T, F>>>)
    ensures r matches Err(e) && p matches Poll::Ready(Some(Err(f))) && call_ensures(<F as std::convert::From<E>>::from, (e,), f);
pub assume_specification<T, E, F: std::convert::From<E>> [<std::task::Poll<std::result::Result<T, F>> as std::ops::FromResidual<std::result::Result<std::convert::Infallible, E>>>::from_residual] (r: std::result::Result<std::convert::Infallible, E>) -> (p: std::task::Poll<std::result::Result<T, F>>)
    ensures r matches Err(e) && p matches Poll::Ready(Err(f)) && call_ensures(<F as std::convert::From<E>>::from, (e,), f);
pub assume_specification<T> [<T as std::convert::From<T>>::from] (t: T) -> (r: T)
    ensures r == t;
pub assume_specification<T, E, U, F: FnOnce(E) -> U> [std::task::Poll::<std::result::Result<T, E>>::map_err] (p: std::task::Poll<std::result::Result<T, E>>, f: F) -> (r: std::task::Poll<std::result::Result<T, U>>)
    requires p matches Poll::Ready(Err(e)) ==> f.requires((e,)),
    ensures
        match p {
            Poll::Ready(Ok(t)) => r == Poll::<Result<T, U>>::Ready(Ok(t)),
            Poll::Ready(Err(e)) => r matches Poll::Ready(Err(u)) && f.ensures((e,), u),
            Poll::Pending => r is Pending,
        };

// ---- opaque carriers ----
/// tracing::Span: opaque; only moved, cloned and dropped by the verified code (A-tracing).
#[verifier::external_body] pub struct Span { _p: u8 }
impl Span {
    #[verifier::external_body] pub fn clone(&self) -> (r: Span) { unimplemented!() }
    #[verifier::external_body] pub fn none() -> (r: Span) { unimplemented!() }
    #[verifier::external_body] pub fn current() -> (r: Span) { unimplemented!() }
}
/// core::task::Context<'_>: opaque; only forwarded to poll functions of the models.
#[verifier::external_body] pub struct TaskCx { _p: u8 }
/// the transport's error type C::Error / Box<dyn Error>: opaque.
#[verifier::external_body] #[derive(Debug)] pub struct TErr { _p: u8 }
pub assume_specification<T> [core::mem::drop::<T>] (t: T);
