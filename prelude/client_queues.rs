// ---- the two queues feeding the client dispatch (A-mpsc, A-ids) ----
// Only facts that stay true under concurrent producers are exposed: once a queue reported
// None it is closed-and-drained for ever; Pending registers the waker; ids handed over are
// pairwise distinct (they come from one AtomicUsize::fetch_add counter).
pub struct QV { pub drained: bool, pub reg: bool, pub taken: Set<u64>, pub closed_by_rx: bool }

#[verifier::external_body]
#[verifier::accept_recursive_types(Req)]
#[verifier::accept_recursive_types(Resp)]
pub struct PendingRequests<Req, Resp> { _p: core::marker::PhantomData<(Req, Resp)> }
impl<Req, Resp> PendingRequests<Req, Resp> {
    pub uninterp spec fn view(&self) -> QV;
    /// identity of the queue this receiver drains
    pub uninterp spec fn queue(&self) -> int;
    #[verifier::external_body]
    pub fn poll_recv(&mut self, cx: &mut TaskCx) -> (r: Poll<Option<DispatchRequest<Req, Resp>>>)
        ensures
            final(self)@.closed_by_rx == old(self)@.closed_by_rx,
            match r {
                Poll::Ready(Some(d)) => !old(self)@.taken.contains(d.request_id) && final(self)@.taken == old(self)@.taken.insert(d.request_id) && final(self)@.drained == old(self)@.drained,
                Poll::Ready(None) => final(self)@.drained && final(self)@.taken == old(self)@.taken,
                Poll::Pending => final(self)@.reg && final(self)@.taken == old(self)@.taken && final(self)@.drained == old(self)@.drained,
            },
            old(self)@.drained ==> r matches Poll::Ready(None),
    { unimplemented!() }
    /// mpsc::Receiver::close: no new sends are accepted; queued items can still be received,
    /// after which poll_recv answers None (never Pending).
    #[verifier::external_body]
    pub fn close(&mut self)
        ensures final(self)@.closed_by_rx, final(self)@.taken == old(self)@.taken, final(self)@.drained == old(self)@.drained,
    { unimplemented!() }
}

