// ---- the stubs behind the load balancers, and the request hash (A-stub, A-hash) ----
#[verifier::external_body] pub struct RpcError { _p: u8 }
pub mod context { #[derive(Clone, Copy)] pub struct Context { pub deadline: u64, pub trace: u64 } }
/// one call of a backing stub: which stub, what it was given, what it answered
pub struct HCall<Req, Resp> { pub stub: int, pub ctx: context::Context, pub request: Req, pub result: Result<Resp, RpcError> }
pub tracked struct HLog<Req, Resp> { pub ghost log: Seq<HCall<Req, Resp>> }
/// an arbitrary implementation of `stub::Stub` (async trait fns are outside Verus, so the generic `Stub` parameter is
/// instantiated with this opaque model: any answer, one log entry per call, an identity to tell the backends apart)
#[verifier::external_body]
#[verifier::reject_recursive_types(Req)]
#[verifier::reject_recursive_types(Resp)]
pub struct HStub<Req, Resp> { _p: core::marker::PhantomData<(Req, Resp)> }
impl<Req, Resp> HStub<Req, Resp> {
    pub uninterp spec fn id(&self) -> int;
    #[verifier::external_body]
    pub async fn call(&self, ctx: context::Context, request: Req, Tracked(lx): Tracked<&mut HLog<Req, Resp>>) -> (r: Result<Resp, RpcError>)
        ensures final(lx).log == old(lx).log.push(HCall { stub: self.id(), ctx, request, result: r })
    { unimplemented!() }
}
/// the BuildHasher `S` of ConsistentHash: opaque
#[verifier::external_body] pub struct HasherS { _p: u8 }
/// `hash_request`: BuildHasher::build_hasher + Hash::hash + Hasher::finish -- a function of the hasher and the request
pub uninterp spec fn hash_of<Req>(hasher: &HasherS, request: &Req) -> u64;
#[verifier::external_body]
pub fn hash_request_model<Req>(hasher: &HasherS, request: &Req) -> (h: u64) ensures h == hash_of(hasher, request) { unimplemented!() }
/// `usize::try_from(x).expect(..)`: panics iff x does not fit
#[verifier::external_body]
pub fn usize_try_from_expect(x: u64) -> (r: usize)
    requires x <= usize::MAX, // @C16
    ensures r == x
{ unimplemented!() }
