// ---- std::collections::hash_map::{Drain, Values} (A-hashmap-iter) ----
// What is assumed: `drain()` yields every entry of the map exactly once (in some order) and leaves the map
// empty; `values()` yields a reference to the value of every entry exactly once. The map is mutably (resp.
// shared) borrowed by the iterator, so nothing can observe it while the iteration runs; the model therefore
// fixes the sequence of items when the iterator is created.
#[verifier::external_body]
#[verifier::accept_recursive_types(K)]
#[verifier::accept_recursive_types(V)]
pub struct HashDrain<K, V> { _p: core::marker::PhantomData<(K, V)> }
impl<K, V> HashDrain<K, V> {
    /// the entries not yet yielded, in the order `next` will yield them
    pub uninterp spec fn view(&self) -> Seq<(K, V)>;
    #[verifier::external_body]
    pub fn next(&mut self) -> (r: Option<(K, V)>)
        ensures
            old(self)@.len() == 0 ==> r is None && final(self)@ == old(self)@,
            old(self)@.len() > 0 ==> r == Some(old(self)@[0]) && final(self)@ == old(self)@.subrange(1, old(self)@.len() as int),
    { unimplemented!() }
}
#[verifier::external_body]
pub fn hash_map_drain<K, V>(m: &mut HashMap<K, V>) -> (d: HashDrain<K, V>)
    ensures
        final(m)@ == Map::<K, V>::empty(),
        forall|i: int| 0 <= i < d@.len() ==> old(m)@.contains_key(#[trigger] d@[i].0) && old(m)@[d@[i].0] == d@[i].1,
        forall|i: int, j: int| 0 <= i < j < d@.len() ==> (#[trigger] d@[i]).0 != (#[trigger] d@[j]).0,
        forall|k: K| old(m)@.contains_key(k) ==> exists|i: int| 0 <= i < d@.len() && (#[trigger] d@[i]).0 == k,
{ unimplemented!() }

#[verifier::external_body]
#[verifier::accept_recursive_types(K)]
#[verifier::accept_recursive_types(V)]
pub struct HashValues<'a, K, V> { _p: core::marker::PhantomData<&'a (K, V)> }
impl<'a, K, V> HashValues<'a, K, V> {
    /// the entries whose value was not yet yielded, in the order `next` will yield them
    pub uninterp spec fn view(&self) -> Seq<(K, V)>;
    #[verifier::external_body]
    pub fn next(&mut self) -> (r: Option<&'a V>)
        ensures
            old(self)@.len() == 0 ==> r is None && final(self)@ == old(self)@,
            old(self)@.len() > 0 ==> r == Some(&old(self)@[0].1) && final(self)@ == old(self)@.subrange(1, old(self)@.len() as int),
    { unimplemented!() }
}
#[verifier::external_body]
pub fn hash_map_values<'a, K, V>(m: &'a HashMap<K, V>) -> (d: HashValues<'a, K, V>)
    ensures
        forall|i: int| 0 <= i < d@.len() ==> m@.contains_key(#[trigger] d@[i].0) && m@[d@[i].0] == d@[i].1,
        forall|i: int, j: int| 0 <= i < j < d@.len() ==> (#[trigger] d@[i]).0 != (#[trigger] d@[j]).0,
        forall|k: K| m@.contains_key(k) ==> exists|i: int| 0 <= i < d@.len() && (#[trigger] d@[i]).0 == k,
{ unimplemented!() }
