// ---- crate::cancellations::CanceledRequests (receiver half; A-mpsc) ----
pub struct CV { pub drained: bool, pub reg: bool }
#[verifier::external_body]
pub struct CanceledRequests { _p: u8 }
impl CanceledRequests {
    pub uninterp spec fn view(&self) -> CV;
    /// identity of the cancellation queue this receiver drains
    pub uninterp spec fn queue(&self) -> int;
    /// Stream::poll_next of cancellations::CanceledRequests (forwards to UnboundedReceiver::poll_recv)
    #[verifier::external_body]
    pub fn poll_next(&mut self, cx: &mut TaskCx) -> (r: Poll<Option<u64>>)
        ensures
            match r {
                Poll::Ready(Some(_)) => final(self)@.drained == old(self)@.drained,
                Poll::Ready(None) => final(self)@.drained,
                Poll::Pending => final(self)@.reg && final(self)@.drained == old(self)@.drained,
            },
            old(self)@.drained ==> r matches Poll::Ready(None),
    { unimplemented!() }
    /// CanceledRequests::poll_recv (same queue, inherent method)
    #[verifier::external_body]
    pub fn poll_recv(&mut self, cx: &mut TaskCx) -> (r: Poll<Option<u64>>)
        ensures
            match r {
                Poll::Ready(Some(_)) => final(self)@.drained == old(self)@.drained,
                Poll::Ready(None) => final(self)@.drained,
                Poll::Pending => final(self)@.reg && final(self)@.drained == old(self)@.drained,
            },
            old(self)@.drained ==> r matches Poll::Ready(None),
    { unimplemented!() }
}

