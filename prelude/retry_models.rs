// ---- the stub wrapped by client::stub::Retry, and the `1..` counter (A-stub, A-range-from) ----
#[verifier::external_body] pub struct RpcError { _p: u8 }
/// one call of the wrapped stub: what it was given and what it answered
pub struct StubCall<Req, Resp> { pub ctx: context::Context, pub request: Req, pub result: Result<Resp, RpcError> }
/// ghost log of the calls made on the wrapped stub
pub tracked struct RFx<Req, Resp> { pub ghost log: Seq<StubCall<Req, Resp>> }
/// an arbitrary implementation of `stub::Stub<Req = Arc<Req>>` (async trait fns are outside Verus, so the generic
/// `Stub` parameter is instantiated with this opaque model: any answer, one log entry per call)
#[verifier::external_body]
#[verifier::reject_recursive_types(Req)]
#[verifier::reject_recursive_types(Resp)]
pub struct InnerStub<Req, Resp> { _p: core::marker::PhantomData<(Req, Resp)> }
impl<Req, Resp> InnerStub<Req, Resp> {
    #[verifier::external_body]
    pub async fn call(&self, ctx: context::Context, request: Arc<Req>, Tracked(fx): Tracked<&mut RFx<Req, Resp>>) -> (r: Result<Resp, RpcError>)
        ensures final(fx).log == old(fx).log.push(StubCall { ctx, request: *request, result: r })
    { unimplemented!() }
}
/// `RangeFrom<u32>::next` advances the counter by one; at u32::MAX std may panic, wrap or saturate
/// (`Step::forward`): nothing is claimed beyond 2^32 - 1 attempts
#[verifier::external_body]
pub fn range_from_step(i: u32) -> (r: u32) ensures i < u32::MAX ==> r == i + 1 { unimplemented!() }
