// ---- Arc<Tracker<K>> / Weak<Tracker<K>> over a ghost world (A-arc) ----
// live[t] = number of live TrackedChannels holding tracker t (= its Arc strong count).
// The key type K is instantiated with u64 (the code is parametric in K: Eq + Hash + Clone).
pub tracked struct World {
    pub ghost live: Map<int, nat>,
    pub ghost key_of: Map<int, u64>,
}
impl World {
    pub open spec fn wf(&self) -> bool {
        &&& forall|t: int| #[trigger] self.live.contains_key(t) ==> self.key_of.contains_key(t)
        &&& forall|t: int| #[trigger] self.key_of.contains_key(t) ==> self.live.contains_key(t)
    }
    /// number of live channels holding tracker t
    pub open spec fn live_on(&self, t: int) -> nat { if self.live.contains_key(t) { self.live[t] } else { 0 } }
    /// number of live yielded channels with key k, given the tracker the filter currently records for k
    pub open spec fn same(&self, o: &World) -> bool { self.live == o.live && self.key_of == o.key_of }
}

#[verifier::external_body] pub struct TrackerArc { _p: u8 }
#[verifier::external_body] pub struct TrackerWeak { _p: u8 }
#[verifier::external_body] pub struct DroppedKeysTx { _p: u8 }
#[verifier::external_body] pub struct DroppedKeysRx { _p: u8 }

impl DroppedKeysTx {
    #[verifier::external_body] pub fn clone(&self) -> (r: DroppedKeysTx) { unimplemented!() }
    /// mpsc::UnboundedSender::send
    #[verifier::external_body] pub fn send(&self, k: u64) -> (r: Result<(), u64>) { unimplemented!() }
}
impl DroppedKeysRx {
    /// A notification for key k may be *stale*: all it says is that at some earlier time some
    /// tracker of k died. Pending registers the waker.
    pub uninterp spec fn reg(&self) -> bool;
    #[verifier::external_body]
    pub fn poll_recv(&mut self, cx: &mut TaskCx) -> (r: Poll<Option<u64>>)
        // Ready(None) cannot happen: the filter itself holds a sender (`dropped_keys_tx`)
        ensures r is Pending ==> final(self).reg(), !(r matches Poll::Ready(None)),
    { unimplemented!() }
}
impl TrackerArc {
    pub uninterp spec fn tid(&self) -> int;
    /// Arc::new(Tracker{..}): a fresh tracker with one live holder (the channel about to be yielded)
    #[verifier::external_body]
    pub fn new(t: Tracker, Tracked(w): Tracked<&mut World>) -> (r: TrackerArc)
        requires old(w).wf(), t.key is Some,
        ensures final(w).wf(), !old(w).live.contains_key(r.tid()),
            final(w).live == old(w).live.insert(r.tid(), 1), final(w).key_of == old(w).key_of.insert(r.tid(), t.key->0),
    { unimplemented!() }
    #[verifier::external_body]
    pub fn downgrade(this: &TrackerArc) -> (r: TrackerWeak) ensures r.tid() == this.tid() { unimplemented!() }
    /// Arc::strong_count(&arc)
    #[verifier::external_body]
    pub fn strong_count(this: &TrackerArc) -> (n: usize) { unimplemented!() }
}
impl TrackerWeak {
    pub uninterp spec fn tid(&self) -> int;
    #[verifier::external_body]
    pub fn strong_count(&self, Tracked(w): Tracked<&mut World>) -> (n: usize)
        ensures n == old(w).live_on(self.tid()), final(w).same(old(w))
    { unimplemented!() }
    /// upgrade: one more live holder if any is alive
    #[verifier::external_body]
    pub fn upgrade(&self, Tracked(w): Tracked<&mut World>) -> (r: Option<TrackerArc>)
        requires old(w).wf(),
        ensures final(w).wf(), final(w).key_of == old(w).key_of,
            match r {
                Some(a) => a.tid() == self.tid() && old(w).live_on(self.tid()) > 0 && final(w).live == old(w).live.insert(self.tid(), old(w).live[self.tid()] + 1),
                None => old(w).live_on(self.tid()) == 0 && final(w).live == old(w).live,
            },
    { unimplemented!() }
}
/// `HashMap::compact(0.1)` (tarpc::util::Compact): only shrinks capacity (R7 frame-only model).
#[verifier::external_body]
pub fn compact_map<A, B>(m: &mut HashMap<A, B>) ensures final(m)@ == old(m)@ { unimplemented!() }
pub type FnvHashMap<K, V> = HashMap<K, V>;

/// the listener: a fused stream of incoming channels (opaque items)
#[verifier::external_body] pub struct Incoming { _p: u8 }
#[verifier::external_body] pub struct Listener { _p: u8 }
impl Listener {
    pub uninterp spec fn reg(&self) -> bool;
    pub uninterp spec fn done(&self) -> bool;
    #[verifier::external_body]
    pub fn poll_next(&mut self, cx: &mut TaskCx) -> (r: Poll<Option<Incoming>>)
        ensures r is Pending ==> final(self).reg(), r matches Poll::Ready(None) ==> final(self).done(), old(self).done() ==> r matches Poll::Ready(None),
    { unimplemented!() }
}
/// the key function F: Fn(&S::Item) -> K
#[verifier::external_body] pub struct Keymaker { _p: u8 }
impl Keymaker {
    #[verifier::external_body] pub fn call(&self, item: &Incoming) -> (k: u64) { unimplemented!() }
}

// ---- the channel wrapped by a TrackedChannel, as seen by its forwarders (U8-style model) ----
// Each operation of the inner channel is a (deterministic but unknown) function of its state: what it
// answers and the state it is in afterwards. A forwarder is faithful iff it returns that answer and leaves
// the inner channel in that state -- i.e. it performed exactly that one operation on it.
#[verifier::external_body] pub struct ChanItem { _p: u8 }
#[verifier::external_body] pub struct ChanSinkItem { _p: u8 }
#[verifier::external_body] pub struct ChanErr { _p: u8 }
impl Incoming {
    pub uninterp spec fn next_answer(&self) -> Poll<Option<ChanItem>>;
    pub uninterp spec fn after_next(&self) -> Incoming;
    pub uninterp spec fn ready_answer(&self) -> Poll<Result<(), ChanErr>>;
    pub uninterp spec fn after_ready(&self) -> Incoming;
    pub uninterp spec fn send_answer(&self, item: ChanSinkItem) -> Result<(), ChanErr>;
    pub uninterp spec fn after_send(&self, item: ChanSinkItem) -> Incoming;
    pub uninterp spec fn flush_answer(&self) -> Poll<Result<(), ChanErr>>;
    pub uninterp spec fn after_flush(&self) -> Incoming;
    pub uninterp spec fn close_answer(&self) -> Poll<Result<(), ChanErr>>;
    pub uninterp spec fn after_close(&self) -> Incoming;
    pub uninterp spec fn in_flight(&self) -> usize;
    #[verifier::external_body]
    pub fn poll_next(&mut self, cx: &mut TaskCx) -> (r: Poll<Option<ChanItem>>)
        ensures r == old(self).next_answer(), *final(self) == old(self).after_next() { unimplemented!() }
    #[verifier::external_body]
    pub fn poll_ready(&mut self, cx: &mut TaskCx) -> (r: Poll<Result<(), ChanErr>>)
        ensures r == old(self).ready_answer(), *final(self) == old(self).after_ready() { unimplemented!() }
    #[verifier::external_body]
    pub fn start_send(&mut self, item: ChanSinkItem) -> (r: Result<(), ChanErr>)
        ensures r == old(self).send_answer(item), *final(self) == old(self).after_send(item) { unimplemented!() }
    #[verifier::external_body]
    pub fn poll_flush(&mut self, cx: &mut TaskCx) -> (r: Poll<Result<(), ChanErr>>)
        ensures r == old(self).flush_answer(), *final(self) == old(self).after_flush() { unimplemented!() }
    #[verifier::external_body]
    pub fn poll_close(&mut self, cx: &mut TaskCx) -> (r: Poll<Result<(), ChanErr>>)
        ensures r == old(self).close_answer(), *final(self) == old(self).after_close() { unimplemented!() }
    #[verifier::external_body]
    pub fn in_flight_requests(&self) -> (n: usize)
        ensures n == self.in_flight() { unimplemented!() }
}

// ---- what MaxChannelsPerKey::new builds the filter from ----
/// `mpsc::unbounded_channel()` for the close notifications: the two halves of one fresh queue
#[verifier::external_body]
pub fn dropped_keys_channel() -> (r: (DroppedKeysTx, DroppedKeysRx)) { unimplemented!() }
/// the listener before `fuse()` (opaque stream of incoming channels)
#[verifier::external_body] pub struct RawListener { _p: u8 }
/// `listener.fuse()` (futures StreamExt::fuse): not done yet... unless the stream says so later
#[verifier::external_body]
pub fn fuse_listener(l: RawListener) -> (r: Listener) { unimplemented!() }
