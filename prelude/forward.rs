// ---- dependency models for the shipped transports (unit `transports`; assumptions A-mpsc, A-codec) ----
// Every queue end is an opaque object with prophecy-style ghost answers (what its next poll will
// say) and, on the sending side, the sequence of items it has accepted.  FIFO delivery between a
// sender and the receiver with the same `chan()` is the dependency's (A-mpsc / A-codec): what is
// proved here is that tarpc's own layer forwards every item to the right queue exactly once,
// unchanged, and reports exactly what the queue reported.

/// `Box<dyn Error + Send + Sync + 'static>`: opaque.
#[verifier::external_body] pub struct BoxErr { _p: u8 }
impl BoxErr {
    /// `Box::new(e)` coerced to the boxed error
    #[verifier::external_body] pub fn new<E>(e: E) -> (r: BoxErr) { unimplemented!() }
    /// `CLOSED_MESSAGE.into()`
    #[verifier::external_body] pub fn msg() -> (r: BoxErr) { unimplemented!() }
}

pub mod io {
    pub enum ErrorKind { Other }
    #[verifier::external_body] pub struct Error { _p: u8 }
    impl Error {
        #[verifier::external_body] pub fn new<E>(kind: ErrorKind, e: E) -> (r: Error) { unimplemented!() }
    }
    pub type Result<T> = core::result::Result<T, Error>;
}

/// tokio::sync::mpsc (unbounded)
pub mod mpsc {
    use super::*;
    #[verifier::external_body] #[verifier::reject_recursive_types(T)] pub struct UnboundedSender<T> { _p: core::marker::PhantomData<T> }
    #[verifier::external_body] #[verifier::reject_recursive_types(T)] pub struct UnboundedReceiver<T> { _p: core::marker::PhantomData<T> }
    #[verifier::external_body] #[verifier::reject_recursive_types(T)] pub struct SendError<T> { _p: core::marker::PhantomData<T> }
    impl<T> UnboundedSender<T> {
        pub uninterp spec fn chan(&self) -> int;
        pub uninterp spec fn sent(&self) -> Seq<T>;
        pub uninterp spec fn closed(&self) -> bool;
        #[verifier::external_body]
        pub fn is_closed(&self) -> (b: bool) ensures b == self.closed() { unimplemented!() }
        /// `send(&self, ..)` in tokio (interior mutability); `&mut self` here so that the accepted
        /// sequence can be a ghost field of the sender (the caller holds `&mut` to it anyway)
        #[verifier::external_body]
        pub fn send(&mut self, item: T) -> (r: Result<(), SendError<T>>)
            ensures
                final(self).chan() == old(self).chan(),
                r is Ok ==> final(self).sent() == old(self).sent().push(item),
                r is Err ==> final(self).sent() == old(self).sent(),
                r is Ok == !old(self).closed(),
        { unimplemented!() }
    }
    impl<T> UnboundedReceiver<T> {
        pub uninterp spec fn chan(&self) -> int;
        pub uninterp spec fn next_answer(&self) -> Poll<Option<T>>;
        /// every sender is gone (says nothing about messages still queued)
        pub uninterp spec fn all_senders_dropped(&self) -> bool;
        #[verifier::external_body]
        pub fn poll_recv(&mut self, cx: &mut TaskCx) -> (r: Poll<Option<T>>)
            ensures r == old(self).next_answer(), final(self).chan() == old(self).chan()
        { unimplemented!() }
        #[verifier::external_body]
        pub fn is_closed(&self) -> (b: bool) ensures b == self.all_senders_dropped() { unimplemented!() }
        #[verifier::external_body]
        pub fn is_empty(&self) -> (b: bool) ensures b ==> !(self.next_answer() matches Poll::Ready(Some(_))) { unimplemented!() }
    }
    /// a fresh queue: the two ends share `chan()`, nothing sent yet
    #[verifier::external_body]
    pub fn unbounded_channel<T>() -> (r: (UnboundedSender<T>, UnboundedReceiver<T>))
        ensures r.0.chan() == r.1.chan(), r.0.sent() == Seq::<T>::empty(),
    { unimplemented!() }
}

/// futures::channel::mpsc (bounded)
pub mod futures {
    pub mod channel {
        pub mod mpsc {
            use super::super::super::*;
            #[verifier::external_body] #[verifier::reject_recursive_types(T)] pub struct Sender<T> { _p: core::marker::PhantomData<T> }
            #[verifier::external_body] #[verifier::reject_recursive_types(T)] pub struct Receiver<T> { _p: core::marker::PhantomData<T> }
            #[verifier::external_body] pub struct SendError { _p: u8 }
            impl<T> Sender<T> {
                pub uninterp spec fn chan(&self) -> int;
                pub uninterp spec fn sent(&self) -> Seq<T>;
                pub uninterp spec fn ready_answer(&self) -> Poll<Result<(), SendError>>;
                pub uninterp spec fn send_answer(&self) -> Result<(), SendError>;
                pub uninterp spec fn flush_answer(&self) -> Poll<Result<(), SendError>>;
                pub uninterp spec fn close_answer(&self) -> Poll<Result<(), SendError>>;
                #[verifier::external_body]
                pub fn poll_ready(&mut self, cx: &mut TaskCx) -> (r: Poll<Result<(), SendError>>)
                    ensures r == old(self).ready_answer(), final(self).sent() == old(self).sent(), final(self).chan() == old(self).chan()
                { unimplemented!() }
                #[verifier::external_body]
                pub fn start_send(&mut self, item: T) -> (r: Result<(), SendError>)
                    ensures r == old(self).send_answer(), final(self).chan() == old(self).chan(),
                        r is Ok ==> final(self).sent() == old(self).sent().push(item),
                        r is Err ==> final(self).sent() == old(self).sent(),
                { unimplemented!() }
                #[verifier::external_body]
                pub fn poll_flush(&mut self, cx: &mut TaskCx) -> (r: Poll<Result<(), SendError>>)
                    ensures r == old(self).flush_answer(), final(self).sent() == old(self).sent(), final(self).chan() == old(self).chan()
                { unimplemented!() }
                #[verifier::external_body]
                pub fn poll_close(&mut self, cx: &mut TaskCx) -> (r: Poll<Result<(), SendError>>)
                    ensures r == old(self).close_answer(), final(self).sent() == old(self).sent(), final(self).chan() == old(self).chan()
                { unimplemented!() }
            }
            impl<T> Receiver<T> {
                pub uninterp spec fn chan(&self) -> int;
                pub uninterp spec fn next_answer(&self) -> Poll<Option<T>>;
                #[verifier::external_body]
                pub fn poll_next(&mut self, cx: &mut TaskCx) -> (r: Poll<Option<T>>)
                    ensures r == old(self).next_answer(), final(self).chan() == old(self).chan()
                { unimplemented!() }
            }
            #[verifier::external_body]
            pub fn channel<T>(capacity: usize) -> (r: (Sender<T>, Receiver<T>))
                ensures r.0.chan() == r.1.chan(), r.0.sent() == Seq::<T>::empty(),
            { unimplemented!() }
        }
    }
}

/// tokio_serde::Framed<tokio_util::codec::Framed<S, LengthDelimitedCodec>, Item, SinkItem, Codec>:
/// one object that is both the stream of decoded items and the sink of items to encode.
#[verifier::external_body] pub struct CodecError { _p: u8 }
#[verifier::external_body] #[verifier::reject_recursive_types(Item)] #[verifier::reject_recursive_types(SinkItem)]
pub struct SerdeFramed<Item, SinkItem> { _p: core::marker::PhantomData<(Item, SinkItem)> }
impl<Item, SinkItem> SerdeFramed<Item, SinkItem> {
    pub uninterp spec fn sent(&self) -> Seq<SinkItem>;
    pub uninterp spec fn next_answer(&self) -> Poll<Option<Result<Item, CodecError>>>;
    pub uninterp spec fn ready_answer(&self) -> Poll<Result<(), CodecError>>;
    pub uninterp spec fn send_answer(&self) -> Result<(), CodecError>;
    pub uninterp spec fn flush_answer(&self) -> Poll<Result<(), CodecError>>;
    pub uninterp spec fn close_answer(&self) -> Poll<Result<(), CodecError>>;
    #[verifier::external_body]
    pub fn poll_next(&mut self, cx: &mut TaskCx) -> (r: Poll<Option<Result<Item, CodecError>>>)
        ensures r == old(self).next_answer(), final(self).sent() == old(self).sent()
    { unimplemented!() }
    #[verifier::external_body]
    pub fn poll_ready(&mut self, cx: &mut TaskCx) -> (r: Poll<Result<(), CodecError>>)
        ensures r == old(self).ready_answer(), final(self).sent() == old(self).sent()
    { unimplemented!() }
    #[verifier::external_body]
    pub fn start_send(&mut self, item: SinkItem) -> (r: Result<(), CodecError>)
        ensures r == old(self).send_answer(),
            r is Ok ==> final(self).sent() == old(self).sent().push(item),
            r is Err ==> final(self).sent() == old(self).sent(),
    { unimplemented!() }
    #[verifier::external_body]
    pub fn poll_flush(&mut self, cx: &mut TaskCx) -> (r: Poll<Result<(), CodecError>>)
        ensures r == old(self).flush_answer(), final(self).sent() == old(self).sent()
    { unimplemented!() }
    #[verifier::external_body]
    pub fn poll_close(&mut self, cx: &mut TaskCx) -> (r: Poll<Result<(), CodecError>>)
        ensures r == old(self).close_answer(), final(self).sent() == old(self).sent()
    { unimplemented!() }
}

// ---- core combinators used by the forwarders (A-core) ----
pub assume_specification<T, U, F: FnOnce(T) -> U> [std::task::Poll::<T>::map] (p: std::task::Poll<T>, f: F) -> (r: std::task::Poll<U>)
    requires p matches Poll::Ready(t) ==> f.requires((t,)),
    ensures
        match p {
            Poll::Ready(t) => r matches Poll::Ready(u) && f.ensures((t,), u),
            Poll::Pending => r is Pending,
        };
pub assume_specification<T, E, U, F: FnOnce(E) -> U> [std::task::Poll::<std::option::Option<std::result::Result<T, E>>>::map_err] (p: std::task::Poll<std::option::Option<std::result::Result<T, E>>>, f: F) -> (r: std::task::Poll<std::option::Option<std::result::Result<T, U>>>)
    requires p matches Poll::Ready(Some(Err(e))) ==> f.requires((e,)),
    ensures
        match p {
            Poll::Ready(Some(Ok(t))) => r == Poll::<Option<Result<T, U>>>::Ready(Some(Ok(t))),
            Poll::Ready(Some(Err(e))) => r matches Poll::Ready(Some(Err(u))) && f.ensures((e,), u),
            Poll::Ready(None) => r == Poll::<Option<Result<T, U>>>::Ready(None),
            Poll::Pending => r is Pending,
        };

// ---- core::mem::take (A-core) ----
pub assume_specification<T: Default> [std::mem::take] (x: &mut T) -> (r: T)
    ensures r == *old(x), call_ensures(T::default, (), *final(x));
