#[verifier::external_body] pub struct ServerError { _p: u8 }
