// ---- tokio_util::time::DelayQueue<u64> (A-delayqueue) ----
pub mod delay_queue {
    use super::*;
    #[derive(Clone, Copy)]
    pub struct Key { pub k: u64 }
    /// what the queue holds for a key: the value and the delay it was armed with
    pub struct Entry { pub value: u64, pub delay: Duration }
    #[verifier::external_body]
    pub struct DelayQueue { _p: u8 }
    #[verifier::external_body]
    pub struct Expired { _p: u8 }
    impl Expired {
        pub uninterp spec fn value(&self) -> u64;
        pub uninterp spec fn key(&self) -> Key;
        #[verifier::external_body]
        pub fn into_inner(self) -> (r: u64) ensures r == self.value() { unimplemented!() }
        #[verifier::external_body]
        pub fn get_ref(&self) -> (r: &u64) ensures *r == self.value() { unimplemented!() }
    }
    impl DelayQueue {
        pub uninterp spec fn view(&self) -> Map<Key, Entry>;
        /// `DelayQueue::new()` (= its `Default`): nothing armed
        #[verifier::external_body]
        pub fn new() -> (r: DelayQueue)
            ensures r@ == Map::<Key, Entry>::empty()
        { unimplemented!() }
        /// the task's waker is registered with the timer (last poll_expired answered Pending)
        pub uninterp spec fn reg(&self) -> bool;
        #[verifier::external_body]
        pub fn insert(&mut self, value: u64, timeout: Duration) -> (k: Key)
            // tokio-util panics otherwise ("invalid deadline")
            requires timeout.ms <= MAX_TIMER_MS, // @C16
            ensures
                !old(self)@.contains_key(k),
                final(self)@ == old(self)@.insert(k, Entry { value, delay: timeout }),
        { unimplemented!() }
        #[verifier::external_body]
        pub fn remove(&mut self, key: &Key)
            // tokio-util panics on an absent key
            requires old(self)@.contains_key(*key), // @C16,C11
            ensures final(self)@ == old(self)@.remove(*key)
        { unimplemented!() }
        #[verifier::external_body]
        pub fn clear(&mut self)
            ensures final(self)@ == Map::<Key, Entry>::empty()
        { unimplemented!() }
        #[verifier::external_body]
        pub fn is_empty(&self) -> (b: bool)
            ensures b == (self@ == Map::<Key, Entry>::empty())
        { unimplemented!() }
        /// Assumed (A-delayqueue): a key is yielded only once its delay has elapsed, at most
        /// once; Ready(None) iff nothing is armed; Pending registers the waker.
        #[verifier::external_body]
        pub fn poll_expired(&mut self, cx: &mut TaskCx) -> (r: Poll<Option<Expired>>)
            ensures
                match r {
                    Poll::Ready(Some(e)) => old(self)@.contains_key(e.key())
                        && old(self)@[e.key()].value == e.value()
                        && final(self)@ == old(self)@.remove(e.key()),
                    Poll::Ready(None) => old(self)@ == Map::<Key, Entry>::empty() && final(self)@ == old(self)@,
                    Poll::Pending => final(self)@ == old(self)@ && final(self).reg() && !(old(self)@ == Map::<Key, Entry>::empty()),
                }
        { unimplemented!() }
    }
}
use delay_queue::DelayQueue;

/// `HashMap::compact(0.1)` (tarpc::util::Compact): only shrinks capacity (R7 frame-only model).
#[verifier::external_body]
pub fn compact_map<K, V>(m: &mut HashMap<K, V>)
    ensures final(m)@ == old(m)@
{ unimplemented!() }
pub type FnvHashMap<K, V> = HashMap<K, V>;
