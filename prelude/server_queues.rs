// ---- io::ErrorKind / ServerError as the throttler constructs them ----
pub mod io {
    #[derive(Clone, Copy)]
    pub enum ErrorKind { WouldBlock, Other }
}
pub struct ServerError { pub kind: io::ErrorKind, pub detail: String }
/// `"literal".into()` for the error detail (R5; the text is not interpreted)
#[verifier::external_body]
pub fn detail_string(s: &str) -> (r: String) { unimplemented!() }

// ---- the response fan-in queue of `Requests` (tokio mpsc; A-mpsc) ----
pub struct RQV { pub drained: bool, pub reg: bool }
#[verifier::external_body]
#[verifier::accept_recursive_types(T)]
pub struct ResponseQueue<T> { _p: core::marker::PhantomData<T> }
impl<T> ResponseQueue<T> {
    pub uninterp spec fn view(&self) -> RQV;
    #[verifier::external_body]
    pub fn poll_recv(&mut self, cx: &mut TaskCx) -> (r: Poll<Option<T>>)
        ensures
            match r {
                Poll::Ready(Some(_)) => final(self)@.drained == old(self)@.drained,
                Poll::Ready(None) => final(self)@.drained,
                Poll::Pending => final(self)@.reg && final(self)@.drained == old(self)@.drained,
            },
            old(self)@.drained ==> r matches Poll::Ready(None),
    { unimplemented!() }
}
#[verifier::external_body]
#[verifier::accept_recursive_types(T)]
pub struct ResponseSender<T> { _p: core::marker::PhantomData<T> }
impl<T> ResponseSender<T> {
    #[verifier::external_body]
    pub fn clone(&self) -> (r: ResponseSender<T>) { unimplemented!() }
}

impl<Res> ResponseSender<Response<Res>> {
    /// mpsc::Sender::send(response).await: the response is queued for the channel's write pump (or the
    /// queue is gone); either way this handler handed over exactly this response
    #[verifier::external_body]
    pub async fn send(&self, r: Response<Res>, Tracked(fx): Tracked<&mut SFx>) -> (out: Result<(), Response<Res>>)
        ensures final(fx).log == old(fx).log.push(SEffect::Respond { id: r.request_id })
    { unimplemented!() }
}
/// `serve.serve(context, message).await`: one invocation of the application's handler (the `Serve`
/// trait has an async fn, which Verus cannot take; the handler's behaviour is unconstrained)
#[verifier::external_body]
pub async fn serve_model<S, Req, Res>(serve: S, ctx: context::Context, message: Req, Tracked(fx): Tracked<&mut SFx>) -> (out: Result<Res, ServerError>)
    ensures final(fx).log == old(fx).log.push(SEffect::Handler)
{ unimplemented!() }

/// `crate::cancellations::cancellations()`: the two halves of one fresh cancellation queue (the function itself is two
/// lines around `mpsc::unbounded_channel()`; A-mpsc)
#[verifier::external_body]
pub fn cancellations_model() -> (r: (RequestCancellation, CanceledRequests)) { unimplemented!() }

/// `mpsc::channel(buffer)` for the response fan-in of `Requests`: the two ends of one fresh queue (the buffer size, read
/// from the channel's config, is not part of any contract)
#[verifier::external_body]
pub fn response_queue_model<T>() -> (r: (ResponseSender<T>, ResponseQueue<T>))
    ensures !r.1@.drained
{ unimplemented!() }
