// ---- tokio::sync::oneshot::Sender<T> as seen by the client dispatch (A-oneshot) ----
pub enum Effect<Res> {
    /// the oneshot sender of channel `chan` was consumed by `send(value)`
    Deliver { chan: int, value: Res },
}
pub tracked struct Fx<Res> { pub ghost log: Seq<Effect<Res>> }

pub mod oneshot {
    use super::*;
    #[verifier::external_body]
    #[verifier::accept_recursive_types(T)]
    pub struct Sender<T> { _p: core::marker::PhantomData<T> }
    impl<T> Sender<T> {
        /// identity of the oneshot channel this sender belongs to
        pub uninterp spec fn chan(&self) -> int;
        /// what `is_closed()` answers when the dispatch looks (one look per request)
        pub uninterp spec fn seen_closed(&self) -> bool;
        #[verifier::external_body]
        pub fn is_closed(&self) -> (b: bool) ensures b == self.seen_closed() { unimplemented!() }
        #[verifier::external_body]
        pub fn send(self, t: T, Tracked(fx): Tracked<&mut Fx<T>>) -> (r: Result<(), T>)
            ensures final(fx).log == old(fx).log.push(Effect::Deliver { chan: self.chan(), value: t })
        { unimplemented!() }
    }
}
