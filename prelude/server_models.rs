// ---- server-side dependency models (A-abortable, A-mpsc) ----
pub enum SEffect {
    /// AbortHandle::abort() was called on the handle with this identity
    Abort { handle: int },
    /// RequestCancellation::cancel(id): the id was pushed onto the channel's cancellation queue
    CancelMsg { id: u64 },
    /// the application's handler (Serve::serve) was invoked
    Handler,
    /// a response bearing this id was handed to the response fan-in queue
    Respond { id: u64 },
}
/// futures::future::Aborted
pub struct Aborted;
pub tracked struct SFx { pub ghost log: Seq<SEffect> }

#[verifier::external_body] pub struct AbortHandle { _p: u8 }
#[verifier::external_body] pub struct AbortRegistration { _p: u8 }
impl AbortHandle {
    pub uninterp spec fn id(&self) -> int;
    /// futures::future::AbortHandle::new_pair: handle and registration of one abortable future
    #[verifier::external_body]
    pub fn new_pair() -> (r: (AbortHandle, AbortRegistration))
        ensures r.0.id() == r.1.id()
    { unimplemented!() }
    #[verifier::external_body]
    pub fn abort(&self, Tracked(fx): Tracked<&mut SFx>)
        ensures final(fx).log == old(fx).log.push(SEffect::Abort { handle: self.id() })
    { unimplemented!() }
}
impl AbortRegistration {
    pub uninterp spec fn id(&self) -> int;
    /// R15 model of Abortable: whether the paired AbortHandle fires before the wrapped future completes
    /// (unconstrained: both outcomes are considered)
    #[verifier::external_body]
    pub fn aborted(&self) -> (b: bool) { unimplemented!() }
}

/// crate::cancellations::RequestCancellation (sender half of the cancellation queue)
#[verifier::external_body] pub struct RequestCancellation { _p: u8 }
impl RequestCancellation {
    #[verifier::external_body]
    pub fn cancel(&self, request_id: u64, Tracked(fx): Tracked<&mut SFx>)
        ensures final(fx).log == old(fx).log.push(SEffect::CancelMsg { id: request_id })
    { unimplemented!() }
    #[verifier::external_body]
    pub fn clone(&self) -> (r: RequestCancellation) { unimplemented!() }
}

/// tracing span creation (R1: `info_span!(..)` is replaced by this; field expressions are
/// extracted separately as the C16 obligation R12)
impl Span {
    #[verifier::external_body] pub fn model_new() -> (r: Span) { unimplemented!() }
}
