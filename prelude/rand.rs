// ---- rand (A-rand): a thread-local generator and a draw from it; the value drawn is unconstrained ----
pub mod rand {
    use super::*;
    #[verifier::external_body] pub struct ThreadRng { _p: u8 }
    #[verifier::external_body] pub fn thread_rng() -> (r: ThreadRng) { unimplemented!() }
}
