#!/usr/bin/env python3
"""check.py <property> [--tier quick|thorough]

Decides one property on the current /repo working tree by contract-based deductive
verification: Verus on functions extracted mechanically from /repo (vx/extract.py) and Kani
harnesses mounted into the real crate under cfg(kani).

exit 0  every obligation of the property was discharged (known findings are printed as
        KNOWN-FINDING lines)
exit 1  an obligation failed: prints  VIOLATION property=<id> replay=<path> [no-failing-input-found]
exit 2  undecided (extraction anchor lost, unsupported construct, solver limit, tool error):
        never a VIOLATION line
"""
import argparse
import fcntl
import hashlib
import importlib
import json
import os
import re
import subprocess
import sys
import time

VERIF = os.path.dirname(os.path.abspath(__file__))
sys.path.insert(0, VERIF)
from vx import extract, verus_run, props  # noqa: E402
from vx import kani_run, native_run  # noqa: E402

BUILD = os.path.join(VERIF, 'build')
CACHE = os.path.join(BUILD, 'cache')
REPO = os.environ.get('VERIF_REPO', '/repo')


def sha(s):
    return hashlib.sha256(s.encode() if isinstance(s, str) else s).hexdigest()


def tag_props(tagstr):
    """'C01,C05' -> {'C01','C05'};  'core' -> {'*'};  'core:C01,C05' -> {'C01','C05'}"""
    if not tagstr:
        return set()
    t = tagstr
    if t.startswith('core:'):
        t = t[5:]
    out = set()
    for x in t.split(','):
        x = x.strip()
        if x == 'core':
            out.add('*')
        elif x:
            out.add(x)
    return out


def tags_include(tagstr, pid):
    s = tag_props(tagstr)
    return pid in s or '*' in s


class Undecided(Exception):
    pass


def verus_version():
    try:
        return subprocess.run(['verus', '--version'], capture_output=True, text=True, timeout=60).stdout.strip().replace('\n', ' ')
    except Exception as e:
        raise Undecided('verus not runnable: %s' % e)


def run_verus_unit(name, seed, tier):
    """Extract + verify one unit (cached on the generated text)."""
    os.makedirs(CACHE, exist_ok=True)
    mod = importlib.import_module(props.VERUS_UNITS[name])
    lock = open(os.path.join(BUILD, '.lock-' + name), 'w')
    fcntl.flock(lock, fcntl.LOCK_EX)
    try:
        try:
            prov = extract.build_unit(mod.unit(), BUILD, REPO)
        except extract.ExtractError as e:
            raise Undecided('unit %s: extraction failed: %s' % (name, e))
        if prov['hints_lost']:
            hl = prov['hints_lost']
        text = open(prov['generated']).read()
        use_seed = seed if tier == 'thorough' else None
        key = sha(text + verus_version() + repr(use_seed))
        cpath = os.path.join(CACHE, 'verus-%s-%s.json' % (name, key[:24]))
        if os.path.exists(cpath):
            res = json.load(open(cpath))
            res['cache_hit'] = True
        else:
            res = verus_run.run_verus(prov['generated'], seed=use_seed, timeout=900)
            res['cache_hit'] = False
            if not res.get('timeout') and res.get('json') is not None:
                tmp = cpath + '.tmp%d' % os.getpid()
                json.dump(res, open(tmp, 'w'))
                os.replace(tmp, cpath)
        if res.get('timeout'):
            raise Undecided('unit %s: verus timed out' % name)
        cl = verus_run.classify(res, prov)
        return dict(name=name, prov=prov, res=res, cl=cl, text=text)
    finally:
        fcntl.flock(lock, fcntl.LOCK_UN)
        lock.close()


def scan_trusted(text):
    """Mechanical scan of the generated text for everything that is assumed, not proved."""
    out = []
    lines = text.split('\n')
    for i, l in enumerate(lines):
        if 'external_body' in l and 'verifier::' in l:
            # name = next fn/struct
            for j in range(i, min(i + 6, len(lines))):
                m = re.search(r'\b(fn|struct)\s+(\w+)', lines[j])
                if m:
                    out.append('external_body %s %s' % (m.group(1), m.group(2)))
                    break
        m = re.search(r'assume_specification(?:<[^>]*>)?\s*\[\s*([^\]]+)\]', l)
        if m:
            out.append('assume_specification ' + ' '.join(m.group(1).split()))
        if re.search(r'\bassume\s*\(', l) or re.search(r'\badmit\s*\(', l):
            out.append('ASSUME/ADMIT at generated line %d: %s' % (i + 1, l.strip()))
        if 'uninterp spec fn' in l:
            m = re.search(r'uninterp spec fn (\w+)', l)
            out.append('uninterpreted spec fn ' + m.group(1))
    # dedupe, keep order
    seen, res = set(), []
    for x in out:
        if x not in seen:
            seen.add(x)
            res.append(x)
    return res


def load_known():
    p = os.path.join(VERIF, 'known_findings.json')
    if not os.path.exists(p):
        return dict(findings=[], fixed=[])
    return json.load(open(p))


def match_known(known, pid, engine, unit, f):
    for k in known.get('findings', []):
        if pid not in k['properties']:
            continue
        if k.get('engine', 'verus') != engine:
            continue
        if engine == 'verus':
            if k['unit'] != unit or k['function'] != f.get('function'):
                continue
            if k.get('kind') and k['kind'] not in f.get('kind', ''):
                continue
            if k.get('clause_contains') and k['clause_contains'] not in (f.get('clause_text') or ''):
                continue
            if k.get('site_contains') and k['site_contains'] not in (f.get('site_text') or ''):
                continue
            if k.get('exit_context_contains') and k['exit_context_contains'] not in (f.get('exit_context') or ''):
                continue
            if k.get('exit_context_startswith') and not (f.get('exit_context') or '').startswith(k['exit_context_startswith']):
                continue
            if k.get('exit_context_regex') and not re.search(k['exit_context_regex'], f.get('exit_context') or ''):
                continue
            if k.get('exit_contains') and k['exit_contains'] not in (f.get('exit_text') or ''):
                continue
            return k
        else:
            if k['harness'] == f.get('harness') and (not k.get('check_contains') or any(k['check_contains'] in c for c in f.get('failed_checks', []))):
                return k
    return None


def write_replay(pid, payload):
    os.makedirs(os.path.join(VERIF, 'replays'), exist_ok=True)
    h = sha(json.dumps(payload, sort_keys=True, default=str))[:12]
    path = os.path.join(VERIF, 'replays', '%s-%s.json' % (pid, h))
    json.dump(payload, open(path, 'w'), indent=1, default=str)
    return path


def main():
    ap = argparse.ArgumentParser()
    ap.add_argument('property')
    ap.add_argument('--tier', default=os.environ.get('VERIF_TIER', 'quick'), choices=['quick', 'thorough'])
    args = ap.parse_args()
    pid = args.property
    seed = int(os.environ.get('VERIF_SEED', '0') or 0)
    t0 = time.time()
    if pid not in props.PROPS:
        print('unknown or not-applicable property', pid)
        return 2
    P = props.PROPS[pid]
    known = load_known()
    evidence_path = os.path.join(VERIF, 'evidence', pid + '.json')
    os.makedirs(os.path.dirname(evidence_path), exist_ok=True)

    obligations = 0
    discharged = 0
    known_failing = 0
    violations = []       # (descr, replay payload)
    known_hits = []
    functions_under_contract = []
    trusted = []
    samples = []
    dropped = []
    per_backend = dict(verus_functions=0, verus_clauses=0, verus_smt_ms=0, verus_wall_s=0.0, kani_harnesses=0, kani_checks=0, kani_wall_s=0.0)
    canary_ok = []
    lemmas_proved = []
    checker_cmds = []
    undecided = []
    other_failures = []
    stability = []
    selftest_res = None

    # ------------------------------------------------------------------ Verus units
    for uname in P['verus']:
        try:
            U = run_verus_unit(uname, seed, args.tier)
            if args.tier == 'thorough':
                # stability: the same unit under a second solver seed must give the same set of failures
                U2 = run_verus_unit(uname, seed + 1, args.tier)
                f1 = sorted((f['function'], f['kind'], f['clause_line']) for f in U['cl']['failures'] if not f['canary'])
                f2 = sorted((f['function'], f['kind'], f['clause_line']) for f in U2['cl']['failures'] if not f['canary'])
                stability.append(dict(unit=uname, seeds=[seed, seed + 1], agree=(f1 == f2)))
                if f1 != f2:
                    undecided.append('unit %s: verdict differs between solver seeds %d and %d (unstable proof): undecided' % (uname, seed, seed + 1))
        except Undecided as e:
            undecided.append(str(e))
            continue
        prov, cl, res = U['prov'], U['cl'], U['res']
        checker_cmds.append('(cd /verif/build && %s)' % res['cmd'])
        st = verus_run.smt_times(res)
        per_backend['verus_smt_ms'] += st.get('smt_ms') or 0
        per_backend['verus_wall_s'] += res['wall_s'] if not res.get('cache_hit') else 0.0
        if cl['fatal']:
            undecided.append('unit %s: verus rejected the extracted text (unsupported construct or changed shape): %s' % (uname, cl['fatal'][0]['message']))
            continue
        if cl['undecided']:
            undecided.append('unit %s: solver limit: %s' % (uname, '; '.join('%s: %s' % (u['function'], u['message']) for u in cl['undecided'])))
        if prov['hints_lost']:
            hints_lost = prov['hints_lost']
        else:
            hints_lost = []
        trusted += scan_trusted(U['text'])
        fails_by_fn = {}
        canary_fail = set()
        for f in cl['failures']:
            if f['canary']:
                canary_fail.add(f['function'])
            else:
                fails_by_fn.setdefault(f['function'], []).append(f)
        unit_fn_count = 0
        for e in prov['functions']:
            clause_tags = e['ensures_tags'] + e['invariant_tags']
            mine = [t for t in clause_tags if tags_include(t, pid)]
            safety_mine = tags_include(e['tags'], pid) or bool(mine)
            if not mine and not tags_include(e['tags'], pid):
                continue
            unit_fn_count += 1
            n_obl = len(mine) + (1 if safety_mine else 0) + (e['hint_asserts'] if mine else 0)
            obligations += n_obl
            fn_fail = [f for f in fails_by_fn.get(e['name'], []) if tags_include(f['tags'], pid)]
            # vacuity canary
            if e.get('canary_lines'):
                if e['name'] in canary_fail:
                    canary_ok.append('%s::%s' % (uname, e['name']))
                else:
                    undecided.append('unit %s: vacuity canary of %s verified `ensures false` (contradictory precondition or unreachable exit)' % (uname, e['name']))
            functions_under_contract.append(dict(unit=uname, function=e['name'], src=e['src'], src_lines=e['src_lines'], sha256=e['sha256'][:16],
                                                 clauses_for_property=len(mine), body_safety=safety_mine))
            for ra in next((it['rule_applications'] for it in prov['items'] if it.get('name') == e['name'] and it['kind'] == 'fn'), []):
                dropped.append('%s::%s %s x%d: %s -> %s' % (uname, e['name'], ra['rule'], ra['count'], '; '.join(ra['matched'])[:120], ra['replaced_by'][:80]))
            n_failed_here = 0
            n_known_here = 0
            seen_clause = set()
            for f in fn_fail:
                keyc = (f['kind'], f['clause_line'], f['site_line'], f.get('exit_text'), f.get('exit_line'))
                if keyc in seen_clause:
                    continue
                seen_clause.add(keyc)
                n_failed_here += 1
                k = match_known(known, pid, 'verus', uname, f)
                if k:
                    known_hits.append(k)
                    n_known_here += 1
                    continue
                lost = [h for h in hints_lost if h[0] == e['name']]
                if lost:
                    undecided.append('unit %s: %s: obligation failed after a proof hint lost its anchor (%s): undecided' % (uname, e['name'], lost[0][1]))
                    continue
                violations.append(dict(engine='verus', unit=uname, function=e['name'], src=e['src'], src_lines=e['src_lines'],
                                       obligation=dict(kind=f['kind'], clause=f['clause_text'], tags=f['tags'], call_site=f['site_text'], at_exit=f.get('exit_text'), exit_context=f.get('exit_context')),
                                       verifier_output=f['rendered'], generated_file=prov['generated'],
                                       provenance=[it for it in prov['items'] if it.get('name') == e['name']][:1]))
            # obligations recorded as known findings are reported separately and not counted as attempted
            kn = min(n_known_here, n_obl)
            obligations -= kn
            known_failing += kn
            discharged += max(0, (n_obl - kn) - min(n_obl - kn, n_failed_here - n_known_here))
            if len(samples) < 6 and mine:
                a, b = e['gen_lines']
                # write out one obligation
                gl = U['text'].split('\n')[a - 1:b]
                cl_lines = [l.strip() for l in gl if re.search(r'// @', l) and tags_include(extract.TAG_RE.search(l).group(1) if extract.TAG_RE.search(l) else '', pid)]
                if cl_lines:
                    samples.append(dict(unit=uname, function=e['name'], src='%s:%d-%d' % (e['src'], e['src_lines'][0], e['src_lines'][1]), obligation=cl_lines[0][:300]))
        # failures in this unit that belong to other properties: reported, not judged here
        for f in cl['failures']:
            if not f['canary'] and not tags_include(f['tags'], pid):
                other_failures.append('%s::%s %s [%s]' % (uname, f['function'], f['kind'], f['tags']))
        # lemmas over the contracts (proof fns in /verif/lemmas): one obligation each, discharged unless Verus
        # reports a failure in that region (which is then undecided: a lemma is ours, not /repo's)
        for lp in prov.get('lemmas', []):
            ltext = '\n'.join(U['text'].split('\n')[lp['gen_lines'][0] - 1:lp['gen_lines'][1]])
            names = re.findall(r'proof fn (\w+)', ltext)
            lm = re.search(r'// @lemma-for: ([\w, ]+)', ltext)
            if lm and pid not in [x.strip() for x in lm.group(1).split(',')]:
                continue
            bad = any(f['function'] is None and f.get('region') == lp['file'] for f in cl['failures'])
            obligations += len(names)
            if not bad:
                discharged += len(names)
            lemmas_proved.extend('%s::%s' % (uname, n) for n in names)
        # failures outside any contracted function (lemmas, prelude): machinery problem
        for f in cl['failures']:
            if f['function'] is None:
                undecided.append('unit %s: verification failure outside any contracted function (%s): %s' % (uname, f.get('region'), f['kind']))
        per_backend['verus_functions'] += unit_fn_count
        per_backend['verus_clauses'] = obligations

    # ------------------------------------------------------------------ Kani harnesses
    if P['kani']:
        try:
            KR = kani_run.run_harnesses(P['kani'], tier=args.tier, seed=seed)
        except kani_run.KaniUndecided as e:
            undecided.append(str(e))
            KR = None
        if KR:
            checker_cmds.append(KR['cmd'])
            per_backend['kani_wall_s'] += KR['wall_s']
            trusted += KR['trusted']
            for h in KR['harnesses']:
                per_backend['kani_harnesses'] += 1
                per_backend['kani_checks'] += h['checks']
                obligations += h['checks']
                functions_under_contract += [dict(unit='kani:' + h['unit'], function=fn, harness=h['name']) for fn in h['functions']]
                if h['status'] == 'SUCCESS':
                    discharged += h['checks']
                    if h.get('cover_unsat'):
                        undecided.append('kani harness %s: reachability cover not satisfied (vacuous assumptions)' % h['name'])
                    if len(samples) < 8:
                        samples.append(dict(harness=h['name'], proves=h['doc'], checks=h['checks']))
                elif h['status'] == 'FAILURE':
                    discharged += h['checks'] - len(h['failed_checks'])
                    k = match_known(known, pid, 'kani', None, dict(harness=h['name'], failed_checks=h['failed_checks']))
                    if k:
                        known_hits.append(k)
                    else:
                        violations.append(dict(engine='kani', harness=h['name'], functions=h['functions'], failed_checks=h['failed_checks'],
                                               verifier_output=h['output_tail'], playback=h.get('playback')))
                else:
                    undecided.append('kani harness %s: %s' % (h['name'], h['status']))

    # ------------------------------------------------------------------ bounded native stand-ins
    bounded_runs = []
    if P.get('native'):
        try:
            for nr in native_run.run_tests(P['native'], tier=args.tier):
                checker_cmds.append(nr['cmd'])
                bounded_runs.append('BOUNDED (not counted as proved) %s: %s; %d cases; functions %s; reason: %s' % (nr['id'], nr['bound'], nr['evaluations'], ', '.join(nr['functions']), nr['why']))
                functions_under_contract += [dict(unit='native-bounded:' + nr['id'], function=fn, bounded=True) for fn in nr['functions']]
                if not nr['passed'] and nr.get('attributed') and pid not in nr['attributed']:
                    # the failing oracle states other properties: not an alarm for this one
                    bounded_runs[-1] += ' -- INCOMPLETE: stopped at a failure attributed to %s' % ', '.join(nr['attributed'])
                    print('note: bounded stand-in %s failed on an oracle of %s (not of %s): reported by the checks of those properties' % (nr['id'], ', '.join(nr['attributed']), pid))
                elif not nr['passed']:
                    violations.append(dict(engine='native-bounded', test=nr['id'], functions=nr['functions'], cmd=nr['cmd'], failing_inputs=[l for l in nr.get('fail_lines', []) if not nr.get('attributed') or any(t in l.split(':')[0] for t in [pid])] or nr.get('fail_lines', []), verifier_output=nr['output_tail'],
                                           playback=dict(reproduced=True, native_cmd=nr['cmd'])))
        except native_run.NativeUndecided as e:
            undecided.append(str(e))

    # ------------------------------------------------------------------ thorough: self-test of extraction + contracts
    if args.tier == 'thorough' and P['verus'] and not violations:
        try:
            from vx import selftest
            st = selftest.run(pid, repo=REPO)
            selftest_res = dict(mutants=len(st), detected=sum(1 for r in st if r['detected']),
                                not_detected=[dict(mutant=r['mutant'], undecided=r.get('undecided'), note=r.get('note')) for r in st if not r['detected']],
                                what='hand-written property-breaking edits and stored seeded patches replayed through extraction + Verus on a scratch copy; informational, never part of the verdict')
        except Exception as e:  # never let the self-test decide anything
            selftest_res = dict(error=str(e)[:300])

    wall = time.time() - t0
    # ------------------------------------------------------------------ evidence
    trusted_dedup = []
    for x in trusted:
        if x not in trusted_dedup:
            trusted_dedup.append(x)
    ev = dict(
        property_id=pid, tier=args.tier, seed=seed, level='proof',
        coverage=dict(
            obligations=obligations, discharged=discharged,
            checker_cmd=' ; '.join(checker_cmds) or 'none',
            trusted_base=trusted_dedup,
            samples=samples,
            functions_under_contract=functions_under_contract,
            backends=per_backend,
            solver_time_s=round(per_backend['verus_smt_ms'] / 1000.0 + per_backend['kani_wall_s'], 3),
            extraction_dropped=dropped[:400],
            bounded_parts=list(P.get('bounded', [])) + bounded_runs + [x for x in trusted_dedup if x.startswith('BOUNDED')],
            canary_functions_failing_as_required=canary_ok,
            lemmas_over_contracts=lemmas_proved,
            known_findings=[k['what'] for k in known_hits],
            known_failing_obligations_excluded_from_counts=known_failing,
            undecided=undecided,
            failing_obligations_of_other_properties_in_shared_units=other_failures,
            not_covered=P.get('not_covered', ''),
            solver_seed_stability=stability,
            selftest=selftest_res,
            explanation='obligations = tagged ensures/invariant clauses + hint asserts + one body-safety obligation (callee preconditions, overflow, unwrap) per contracted function, plus CBMC checks of the Kani harnesses; counted from the generated text on this run',
        ),
        assumptions=['%s: %s' % (a, props.ASSUMPTIONS[a]) for a in P['assumptions']],
        wall_s=round(wall, 2),
        violations=len(violations),
    )
    json.dump(ev, open(evidence_path, 'w'), indent=1)

    # ------------------------------------------------------------------ verdict
    printed = set()
    for k in known_hits:
        line = 'KNOWN-FINDING: property=%s %s' % (pid, k['what'])
        if line not in printed:
            printed.add(line)
            print(line)
    if violations:
        for v in violations:
            path = write_replay(pid, v)
            suffix = ''
            if not (v.get('playback') and v['playback'].get('reproduced')):
                suffix = ' no-failing-input-found'
            if v['engine'] == 'verus':
                print('failed obligation: %s::%s  %s  clause: %s' % (v['unit'], v['function'], v['obligation']['kind'], (v['obligation']['clause'] or v['obligation']['call_site'] or '')[:200]))
            elif v['engine'] == 'native-bounded':
                print('failed bounded stand-in (concrete failing input on the real code): %s' % v['test'])
            else:
                print('failed harness: %s  checks: %s' % (v['harness'], '; '.join(v['failed_checks'])[:300]))
            print('VIOLATION property=%s replay=%s%s' % (pid, path, suffix))
        return 1
    if undecided:
        for u in undecided:
            print('UNDECIDED: ' + u)
        return 2
    if obligations == 0:
        print('UNDECIDED: zero obligations generated')
        return 2
    print('OK property=%s obligations=%d discharged=%d known_findings=%d wall=%.1fs' % (pid, obligations, discharged, len(printed), wall))
    return 0


if __name__ == '__main__':
    sys.exit(main())
