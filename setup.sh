#!/bin/sh
# Run once after a fresh restore, offline. Builds nothing that is not rebuilt by the checks:
# it only warms the Kani dependency build so the first check is not charged for it.
set -e
cd "$(dirname "$0")"
mkdir -p build/cache evidence replays
python3 -c "import sys; sys.path.insert(0,'.'); from vx import extract, verus_run, kani_run, props; print('framework imports ok')"
verus --version >/dev/null 2>&1 && echo "verus ok" || echo "WARNING: verus not runnable"
( cd /repo/tarpc && CARGO_NET_OFFLINE=true timeout 1500 cargo kani --features full --target-dir /verif/build/kani-target --only-codegen >/verif/build/setup-kani.log 2>&1 && echo "kani warm build ok" ) || echo "WARNING: kani warm build failed (see build/setup-kani.log); checks will retry"
exit 0
