//! K5 — `ConsistentHash::{with_hasher, call}` (tarpc/src/client/stub/load_balance.rs), mounted
//! inside `mod consistent_hash`.
use super::*;
use crate::client::stub::Stub;
use crate::verif_kani_support::{any_instant, run};
use std::cell::Cell;
use std::hash::{BuildHasher, Hasher};

pub struct Rec<'a> {
    pub idx: u8,
    pub hit: &'a Cell<u8>,
}
impl<'a> stub::Stub for Rec<'a> {
    type Req = u32;
    type Resp = u32;
    async fn call(&self, _ctx: context::Context, request: u32) -> Result<u32, RpcError> {
        self.hit.set(self.idx);
        Ok(request)
    }
}

/// A symbolic hash function: deterministic (equal inputs => equal hash) with a symbolic offset
/// `base`, so that the hash of the request under test ranges over all of u64. (A multiplicative
/// mix made the SAT problem intractable; the stub only ever uses `finish() % len`.)
#[derive(Clone, Copy)]
pub struct SymBuild {
    pub base: u64,
    pub mul: u64,
}
pub struct SymHasher {
    acc: u64,
    mul: u64,
}
impl Hasher for SymHasher {
    fn write(&mut self, bytes: &[u8]) {
        let mut i = 0;
        while i < bytes.len() {
            self.acc = self.acc.wrapping_add(bytes[i] as u64);
            i += 1;
        }
    }
    fn finish(&self) -> u64 {
        self.acc
    }
}
impl BuildHasher for SymBuild {
    type Hasher = SymHasher;
    fn build_hasher(&self) -> SymHasher {
        SymHasher {
            acc: self.base,
            mul: self.mul,
        }
    }
}

/// C20: a consistent-hash stub only ever picks a valid backend (no panic for any hash value
/// and any backend count >= 1), the backend is hash(request) % len, and equal requests go to
/// the same backend. Full domain in the hash function parameters and the request; BOUNDED in
/// the backend count (1..=3).
#[kani::proof]
#[kani::unwind(8)]
fn k5_consistent_hash_valid_and_stable() {
    let hit = Cell::new(255u8);
    let n: u8 = kani::any();
    kani::assume(n >= 1 && n <= 3);
    let mut stubs = Vec::new();
    let mut i = 0u8;
    while i < n {
        stubs.push(Rec { idx: i, hit: &hit });
        i += 1;
    }
    let hb = SymBuild {
        base: kani::any(),
        mul: kani::any(),
    };
    let ch = ConsistentHash::with_hasher(stubs, hb).unwrap();
    assert!(
        ch.stubs_len == n as u64 && ch.stubs.len() == n as usize,
        "C20: stubs_len is the number of backends"
    );
    let req: u32 = kani::any();
    let ctx = context::Context {
        deadline: any_instant(),
        trace_context: Default::default(),
    };
    let h = ch.hash_request(&req);
    let _ = run(ch.call(ctx, req));
    let first = hit.get();
    assert!(first < n, "C20: only ever picks a valid backend");
    assert!(
        first as u64 == h % (n as u64),
        "C20: backend == hash(request) % backend count"
    );
    hit.set(255);
    let _ = run(ch.call(ctx, req));
    assert!(
        hit.get() == first,
        "C20: equal requests go to the same backend"
    );
}
