// harnesses for unit consistent_hash (mounted under cfg(kani) by the hook in /repo)
