// harnesses for unit retry (mounted under cfg(kani) by the hook in /repo)
