//! K5 — `Retry::call` (tarpc/src/client/stub/retry.rs). BOUNDED: the policy declines within 3 attempts.
//! `tracing::trace!` in the body of Retry::call is reachable: tracing's dispatcher entry points are
//! stubbed to "no subscriber interested" (see verif_kani_support), which is what keeps kani-compiler
//! 0.68 from dying in intrinsics.rs:243.  The clock is symbolic (any `now`, any deadline), so a retry
//! decision that consulted the clock would be explored on both sides.
use super::*;
use crate::client::stub::Stub;
use crate::verif_kani_support::{any_instant, run};
use std::cell::Cell;

pub struct Backend<'a> {
    pub calls: &'a Cell<u32>,
    pub same_request: &'a Cell<bool>,
    pub first_ptr: &'a Cell<*const u32>,
    pub results: [(bool, u32); 3],
}
impl<'a> stub::Stub for Backend<'a> {
    type Req = Arc<u32>;
    type Resp = u32;
    async fn call(&self, _ctx: context::Context, request: Arc<u32>) -> Result<u32, RpcError> {
        let k = self.calls.get();
        if k == 0 {
            self.first_ptr.set(Arc::as_ptr(&request));
        } else if self.first_ptr.get() != Arc::as_ptr(&request) {
            self.same_request.set(false);
        }
        self.calls.set(k + 1);
        let (ok, v) = self.results[if k < 3 { k as usize } else { 2 }];
        if ok {
            Ok(v)
        } else {
            Err(RpcError::DeadlineExceeded)
        }
    }
}

/// C20: the retry stub re-issues the *identical* request (same Arc) until its policy declines,
/// passes attempt numbers 1, 2, 3, ... to the policy, and returns the last result unchanged.
#[kani::proof]
#[kani::stub(
    tracing::__macro_support::__is_enabled,
    crate::verif_kani_support::tracing_never_enabled
)]
#[kani::stub(
    tracing::__macro_support::MacroCallsite::interest,
    crate::verif_kani_support::tracing_interest_never
)]
#[kani::stub(
    tracing::Event::dispatch,
    crate::verif_kani_support::tracing_no_dispatch
)]
#[kani::stub(std::time::Instant::now, crate::verif_kani_support::fake_now)]
#[kani::unwind(5)]
fn k5_retry_attempts_numbered_and_last_result() {
    let calls = Cell::new(0u32);
    let same = Cell::new(true);
    let first_ptr = Cell::new(std::ptr::null());
    let results: [(bool, u32); 3] = [
        (kani::any(), kani::any()),
        (kani::any(), kani::any()),
        (kani::any(), kani::any()),
    ];
    let decisions: [bool; 3] = [kani::any(), kani::any(), false]; // retry after attempt i? (declines by attempt 3: the bound)
    let attempts_ok = Cell::new(true);
    let seen_results_ok = Cell::new(true);
    let n_policy = Cell::new(0u32);
    let policy = |r: &Result<u32, RpcError>, i: u32| -> bool {
        let k = n_policy.get();
        if i != k + 1 {
            attempts_ok.set(false);
        }
        let (ok, v) = results[if k < 3 { k as usize } else { 2 }];
        let matches = match r {
            Ok(x) => ok && *x == v,
            Err(_) => !ok,
        };
        if !matches {
            seen_results_ok.set(false);
        }
        n_policy.set(k + 1);
        decisions[if k < 3 { k as usize } else { 2 }]
    };
    let retry = Retry::new(
        Backend {
            calls: &calls,
            same_request: &same,
            first_ptr: &first_ptr,
            results,
        },
        policy,
    );
    crate::verif_kani_support::set_now(any_instant());
    let ctx = context::Context {
        deadline: any_instant(),
        trace_context: Default::default(),
    };
    let req: u32 = kani::any();
    let out = run(retry.call(ctx, req));
    let n = calls.get();
    kani::cover!(n == 3, "reachable: three attempts");
    let expect_n = if !decisions[0] {
        1
    } else if !decisions[1] {
        2
    } else {
        3
    };
    assert!(
        n == expect_n && n_policy.get() == n,
        "C20: one backend call and one policy consultation per attempt, until the policy declines"
    );
    assert!(
        attempts_ok.get(),
        "C20: attempt numbers passed to the policy are 1, 2, 3, ..."
    );
    assert!(
        same.get(),
        "C20: every attempt carries the identical request (same Arc)"
    );
    assert!(
        seen_results_ok.get(),
        "C20: the policy sees each attempt's own result"
    );
    let (ok, v) = results[(n - 1) as usize];
    assert!(
        match out {
            Ok(x) => ok && x == v,
            Err(_) => !ok,
        },
        "C20: the last result is returned unchanged"
    );
}
