// harnesses for unit stub_serve (mounted under cfg(kani) by the hook in /repo)
