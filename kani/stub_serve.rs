//! K5 — `impl<S: Serve + Clone> Stub for S` (tarpc/src/client/stub.rs).
use super::*;
use crate::server::Serve;
use crate::verif_kani_support::{any_instant, run};
use crate::ServerError;
use std::cell::Cell;

#[derive(Clone)]
struct Sv<'a> {
    fail: bool,
    val: u32,
    seen: &'a Cell<(u64, u32)>,
    calls: &'a Cell<u32>,
}
impl<'a> Serve for Sv<'a> {
    type Req = u32;
    type Resp = u32;
    async fn serve(self, ctx: context::Context, req: u32) -> Result<u32, ServerError> {
        self.seen.set((ctx.trace_context.span_id.into(), req));
        self.calls.set(self.calls.get() + 1);
        if self.fail {
            Err(ServerError::new(std::io::ErrorKind::Other, String::new()))
        } else {
            Ok(self.val)
        }
    }
}

/// C20 (stub layer): a `Serve` used as a `Stub` is invoked exactly once with the same context
/// and request; Ok passes through, a ServerError becomes RpcError::Server.
#[kani::proof]
#[kani::unwind(6)]
fn k5_serve_as_stub_passes_through() {
    let seen = Cell::new((0u64, 0u32));
    let calls = Cell::new(0u32);
    let s = Sv {
        fail: kani::any(),
        val: kani::any(),
        seen: &seen,
        calls: &calls,
    };
    let (f, v) = (s.fail, s.val);
    let m: u64 = kani::any();
    let req: u32 = kani::any();
    let mut ctx = context::Context {
        deadline: any_instant(),
        trace_context: Default::default(),
    };
    ctx.trace_context.span_id = m.into();
    let out = run(Stub::call(&s, ctx, req));
    assert!(
        calls.get() == 1 && seen.get() == (m, req),
        "C20: served exactly once with the caller's context and request"
    );
    assert!(
        match out {
            Ok(x) => !f && x == v,
            Err(RpcError::Server(_)) => f,
            Err(_) => false,
        },
        "C20: result passes through; ServerError is wrapped as RpcError::Server"
    );
}
