//! K4 (induction step) — `BeforeRequestCons<First, Rest>` with an *arbitrary* `Rest`.
//! Mounted as `crate::server::request_hook::before::verif_kani` under cfg(kani) (needs the
//! private tuple fields of BeforeRequestCons).
//!
//! Cons::before is proved for First and Rest both nondeterministic BeforeRequest
//! implementations. Since a chain of any length k+1 is Cons(h, chain_k) and chain_k is *some*
//! BeforeRequest, this is the induction step; Nil is the base case (k4_empty_chain_is_identity).
use super::*;
use crate::server::request_hook::verif_kani::{any_b, any_ctx, marker, Ev, Log};
use crate::verif_kani_support::run;

#[kani::proof]
#[kani::stub(
    tracing::__macro_support::__is_enabled,
    crate::verif_kani_support::tracing_never_enabled
)]
#[kani::stub(
    tracing::__macro_support::MacroCallsite::interest,
    crate::verif_kani_support::tracing_interest_never
)]
#[kani::stub(
    tracing::Event::dispatch,
    crate::verif_kani_support::tracing_no_dispatch
)]
#[kani::unwind(8)]
fn k4_cons_first_then_rest_any_rest() {
    let log = Log::new();
    let m0: u64 = kani::any();
    let req: u32 = kani::any();
    let first = any_b(1, &log);
    let rest = any_b(2, &log); // stands for the whole remaining chain: any result, any context change
    let (f1, m1, f2, m2) = (first.fail, first.new_marker, rest.fail, rest.new_marker);
    let mut cons = BeforeRequestCons(first, rest);
    let mut ctx = any_ctx(m0);
    let out = run(cons.before(&mut ctx, &req));
    let l = log.borrow();
    kani::cover!(!f1 && f2, "reachable: rest fails");
    assert!(
        l.evs[0] == Some(Ev::Before(1, m0)),
        "C19: first runs first, on the incoming context"
    );
    if f1 {
        assert!(
            l.n == 1 && out.is_err() && marker(&ctx) == m1,
            "C19: first failure stops the chain: rest is not run"
        );
    } else {
        assert!(
            l.n == 2 && l.evs[1] == Some(Ev::Before(2, m1)),
            "C19: rest runs after first and sees first's context change"
        );
        assert!(
            out.is_err() == f2 && marker(&ctx) == m2,
            "C19: the chain's result is rest's result; context as rest left it"
        );
    }
}

/// An arbitrary list tail for the induction on `then`: its own `then` is *specified* (not
/// implemented by tarpc) as "this list, then `next`".
pub struct RL<'a>(crate::server::request_hook::verif_kani::B<'a>);
impl<'a> BeforeRequest<u32> for RL<'a> {
    async fn before(&mut self, ctx: &mut context::Context, req: &u32) -> Result<(), ServerError> {
        self.0.before(ctx, req).await
    }
}
pub struct RLThen<'a, N>(RL<'a>, N);
impl<'a, N: BeforeRequest<u32>> BeforeRequest<u32> for RLThen<'a, N> {
    async fn before(&mut self, ctx: &mut context::Context, req: &u32) -> Result<(), ServerError> {
        self.0.before(ctx, req).await?;
        self.1.before(ctx, req).await
    }
}
impl<'a> BeforeRequestList<u32> for RL<'a> {
    type Then<Next>
        = RLThen<'a, Next>
    where
        Next: BeforeRequest<u32>;
    fn then<Next: BeforeRequest<u32>>(self, next: Next) -> Self::Then<Next> {
        RLThen(self, next)
    }
    type Serve<S: Serve<Req = u32>> = HookThenServe<S, Self>;
    fn serving<S: Serve<Req = u32>>(self, serve: S) -> Self::Serve<S> {
        HookThenServe::new(serve, self)
    }
}

/// C19 (induction step for `then`): appending to Cons(first, rest) -- for an arbitrary list
/// `rest` whose own `then` appends at its end -- yields the order first, rest, next: `then`
/// appends at the END of the chain, for every chain length.
#[kani::proof]
#[kani::stub(
    tracing::__macro_support::__is_enabled,
    crate::verif_kani_support::tracing_never_enabled
)]
#[kani::stub(
    tracing::__macro_support::MacroCallsite::interest,
    crate::verif_kani_support::tracing_interest_never
)]
#[kani::stub(
    tracing::Event::dispatch,
    crate::verif_kani_support::tracing_no_dispatch
)]
#[kani::unwind(8)]
fn k4_cons_then_appends_at_end_any_rest() {
    let log = Log::new();
    let m0: u64 = kani::any();
    let req: u32 = kani::any();
    let first = any_b(1, &log);
    let rest = any_b(2, &log);
    let next = any_b(3, &log);
    let (f1, m1, f2, m2, f3, m3) = (
        first.fail,
        first.new_marker,
        rest.fail,
        rest.new_marker,
        next.fail,
        next.new_marker,
    );
    let mut chain = BeforeRequestCons(first, RL(rest)).then(next);
    let mut ctx = any_ctx(m0);
    let out = run(chain.before(&mut ctx, &req));
    let l = log.borrow();
    kani::cover!(!f1 && !f2 && !f3, "reachable: all pass");
    assert!(l.evs[0] == Some(Ev::Before(1, m0)), "C19: head first");
    if f1 {
        assert!(
            l.n == 1 && out.is_err(),
            "C19: head failure stops the chain"
        );
    } else {
        assert!(
            l.evs[1] == Some(Ev::Before(2, m1)),
            "C19: the existing tail runs before the appended hook and sees the head's context"
        );
        if f2 {
            assert!(
                l.n == 2 && out.is_err(),
                "C19: a failure in the tail stops the chain before the appended hook"
            );
        } else {
            assert!(
                l.n == 3 && l.evs[2] == Some(Ev::Before(3, m2)),
                "C19: the appended hook runs last and sees every earlier change"
            );
            assert!(
                out.is_err() == f3 && marker(&ctx) == m3,
                "C19: result and context are those of the last hook"
            );
        }
    }
}
