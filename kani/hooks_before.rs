//! K4 (induction step) — `BeforeRequestCons<First, Rest>` with an *arbitrary* `Rest`.
//! Mounted as `crate::server::request_hook::before::verif_kani` under cfg(kani) (needs the
//! private tuple fields of BeforeRequestCons).
//!
//! Cons::before is proved for First and Rest both nondeterministic BeforeRequest
//! implementations. Since a chain of any length k+1 is Cons(h, chain_k) and chain_k is *some*
//! BeforeRequest, this is the induction step; Nil is the base case (k4_empty_chain_is_identity).
use super::*;
use crate::server::request_hook::verif_kani::{any_b, any_ctx, marker, Ev, Log};
use crate::verif_kani_support::run;

#[kani::proof]
#[kani::unwind(8)]
fn k4_cons_first_then_rest_any_rest() {
    let log = Log::new();
    let m0: u64 = kani::any();
    let req: u32 = kani::any();
    let first = any_b(1, &log);
    let rest = any_b(2, &log); // stands for the whole remaining chain: any result, any context change
    let (f1, m1, f2, m2) = (first.fail, first.new_marker, rest.fail, rest.new_marker);
    let mut cons = BeforeRequestCons(first, rest);
    let mut ctx = any_ctx(m0);
    let out = run(cons.before(&mut ctx, &req));
    let l = log.borrow();
    kani::cover!(!f1 && f2, "reachable: rest fails");
    assert!(l.evs[0] == Some(Ev::Before(1, m0)), "C19: first runs first, on the incoming context");
    if f1 {
        assert!(l.n == 1 && out.is_err() && marker(&ctx) == m1, "C19: first failure stops the chain: rest is not run");
    } else {
        assert!(l.n == 2 && l.evs[1] == Some(Ev::Before(2, m1)), "C19: rest runs after first and sees first's context change");
        assert!(out.is_err() == f2 && marker(&ctx) == m2, "C19: the chain's result is rest's result; context as rest left it");
    }
}
