// harnesses for unit deadline_codec (mounted under cfg(kani) by the hook in /repo)
