//! K2 — the deadline wire codec `context::absolute_to_relative_time` (tarpc/src/context.rs).
//! Mounted as `crate::context::verif_kani` under cfg(kani); sees the private module.
use super::absolute_to_relative_time as codec;
use super::ten_seconds_from_now;
use crate::verif_kani_support::*;
use serde::de::{self, DeserializeSeed, Deserializer, SeqAccess, Visitor};
use serde::ser::{self, Impossible, SerializeStruct, Serializer};
use std::fmt;
use std::time::{Duration, Instant};

#[derive(Debug)]
pub struct E;
impl fmt::Display for E {
    fn fmt(&self, _: &mut fmt::Formatter) -> fmt::Result {
        Ok(())
    }
}
impl std::error::Error for E {}
impl ser::Error for E {
    fn custom<T: fmt::Display>(_: T) -> Self {
        E
    }
}
impl de::Error for E {
    fn custom<T: fmt::Display>(_: T) -> Self {
        E
    }
}

/// Records a `Duration` written through serde (struct Duration { secs: u64, nanos: u32 }).
#[derive(Clone, Copy, PartialEq, Eq, Debug)]
pub struct Written {
    pub secs: Option<u64>,
    pub nanos: Option<u32>,
    pub other: bool,
}
pub struct RecDur;
pub struct RecFields(Written);
pub struct FieldRec;
#[derive(Clone, Copy)]
pub enum Prim {
    U64(u64),
    U32(u32),
    Other,
}
macro_rules! fother { ($($f:ident($t:ty)),*) => { $(fn $f(self, _: $t) -> Result<Prim, E> { Ok(Prim::Other) })* } }
impl Serializer for FieldRec {
    type Ok = Prim;
    type Error = E;
    type SerializeSeq = Impossible<Prim, E>;
    type SerializeTuple = Impossible<Prim, E>;
    type SerializeTupleStruct = Impossible<Prim, E>;
    type SerializeTupleVariant = Impossible<Prim, E>;
    type SerializeMap = Impossible<Prim, E>;
    type SerializeStruct = Impossible<Prim, E>;
    type SerializeStructVariant = Impossible<Prim, E>;
    fn serialize_u64(self, v: u64) -> Result<Prim, E> {
        Ok(Prim::U64(v))
    }
    fn serialize_u32(self, v: u32) -> Result<Prim, E> {
        Ok(Prim::U32(v))
    }
    fother!(
        serialize_bool(bool),
        serialize_i8(i8),
        serialize_i16(i16),
        serialize_i32(i32),
        serialize_i64(i64),
        serialize_u8(u8),
        serialize_u16(u16),
        serialize_f32(f32),
        serialize_f64(f64),
        serialize_char(char),
        serialize_str(&str),
        serialize_bytes(&[u8])
    );
    fn serialize_none(self) -> Result<Prim, E> {
        Ok(Prim::Other)
    }
    fn serialize_some<T: ?Sized + ser::Serialize>(self, _: &T) -> Result<Prim, E> {
        Ok(Prim::Other)
    }
    fn serialize_unit(self) -> Result<Prim, E> {
        Ok(Prim::Other)
    }
    fn serialize_unit_struct(self, _: &'static str) -> Result<Prim, E> {
        Ok(Prim::Other)
    }
    fn serialize_unit_variant(self, _: &'static str, _: u32, _: &'static str) -> Result<Prim, E> {
        Ok(Prim::Other)
    }
    fn serialize_newtype_struct<T: ?Sized + ser::Serialize>(
        self,
        _: &'static str,
        _: &T,
    ) -> Result<Prim, E> {
        Ok(Prim::Other)
    }
    fn serialize_newtype_variant<T: ?Sized + ser::Serialize>(
        self,
        _: &'static str,
        _: u32,
        _: &'static str,
        _: &T,
    ) -> Result<Prim, E> {
        Ok(Prim::Other)
    }
    fn serialize_seq(self, _: Option<usize>) -> Result<Self::SerializeSeq, E> {
        Err(E)
    }
    fn serialize_tuple(self, _: usize) -> Result<Self::SerializeTuple, E> {
        Err(E)
    }
    fn serialize_tuple_struct(
        self,
        _: &'static str,
        _: usize,
    ) -> Result<Self::SerializeTupleStruct, E> {
        Err(E)
    }
    fn serialize_tuple_variant(
        self,
        _: &'static str,
        _: u32,
        _: &'static str,
        _: usize,
    ) -> Result<Self::SerializeTupleVariant, E> {
        Err(E)
    }
    fn serialize_map(self, _: Option<usize>) -> Result<Self::SerializeMap, E> {
        Err(E)
    }
    fn serialize_struct(self, _: &'static str, _: usize) -> Result<Self::SerializeStruct, E> {
        Err(E)
    }
    fn serialize_struct_variant(
        self,
        _: &'static str,
        _: u32,
        _: &'static str,
        _: usize,
    ) -> Result<Self::SerializeStructVariant, E> {
        Err(E)
    }
}
impl SerializeStruct for RecFields {
    type Ok = Written;
    type Error = E;
    fn serialize_field<T: ?Sized + ser::Serialize>(
        &mut self,
        key: &'static str,
        value: &T,
    ) -> Result<(), E> {
        let p = value.serialize(FieldRec)?;
        let is_secs = key.len() == 4; // "secs" vs "nanos": compared by length to keep CBMC off string loops
        match (is_secs, p) {
            (true, Prim::U64(v)) if self.0.secs.is_none() => self.0.secs = Some(v),
            (false, Prim::U32(v)) if self.0.nanos.is_none() => self.0.nanos = Some(v),
            _ => self.0.other = true,
        }
        Ok(())
    }
    fn end(self) -> Result<Written, E> {
        Ok(self.0)
    }
}
macro_rules! dother { ($($f:ident($t:ty)),*) => { $(fn $f(self, _: $t) -> Result<Written, E> { Err(E) })* } }
impl Serializer for RecDur {
    type Ok = Written;
    type Error = E;
    type SerializeSeq = Impossible<Written, E>;
    type SerializeTuple = Impossible<Written, E>;
    type SerializeTupleStruct = Impossible<Written, E>;
    type SerializeTupleVariant = Impossible<Written, E>;
    type SerializeMap = Impossible<Written, E>;
    type SerializeStruct = RecFields;
    type SerializeStructVariant = Impossible<Written, E>;
    dother!(
        serialize_bool(bool),
        serialize_i8(i8),
        serialize_i16(i16),
        serialize_i32(i32),
        serialize_i64(i64),
        serialize_u8(u8),
        serialize_u16(u16),
        serialize_u32(u32),
        serialize_u64(u64),
        serialize_f32(f32),
        serialize_f64(f64),
        serialize_char(char),
        serialize_str(&str),
        serialize_bytes(&[u8])
    );
    fn serialize_none(self) -> Result<Written, E> {
        Err(E)
    }
    fn serialize_some<T: ?Sized + ser::Serialize>(self, _: &T) -> Result<Written, E> {
        Err(E)
    }
    fn serialize_unit(self) -> Result<Written, E> {
        Err(E)
    }
    fn serialize_unit_struct(self, _: &'static str) -> Result<Written, E> {
        Err(E)
    }
    fn serialize_unit_variant(
        self,
        _: &'static str,
        _: u32,
        _: &'static str,
    ) -> Result<Written, E> {
        Err(E)
    }
    fn serialize_newtype_struct<T: ?Sized + ser::Serialize>(
        self,
        _: &'static str,
        _: &T,
    ) -> Result<Written, E> {
        Err(E)
    }
    fn serialize_newtype_variant<T: ?Sized + ser::Serialize>(
        self,
        _: &'static str,
        _: u32,
        _: &'static str,
        _: &T,
    ) -> Result<Written, E> {
        Err(E)
    }
    fn serialize_seq(self, _: Option<usize>) -> Result<Self::SerializeSeq, E> {
        Err(E)
    }
    fn serialize_tuple(self, _: usize) -> Result<Self::SerializeTuple, E> {
        Err(E)
    }
    fn serialize_tuple_struct(
        self,
        _: &'static str,
        _: usize,
    ) -> Result<Self::SerializeTupleStruct, E> {
        Err(E)
    }
    fn serialize_tuple_variant(
        self,
        _: &'static str,
        _: u32,
        _: &'static str,
        _: usize,
    ) -> Result<Self::SerializeTupleVariant, E> {
        Err(E)
    }
    fn serialize_map(self, _: Option<usize>) -> Result<Self::SerializeMap, E> {
        Err(E)
    }
    fn serialize_struct(self, _: &'static str, _: usize) -> Result<RecFields, E> {
        Ok(RecFields(Written {
            secs: None,
            nanos: None,
            other: false,
        }))
    }
    fn serialize_struct_variant(
        self,
        _: &'static str,
        _: u32,
        _: &'static str,
        _: usize,
    ) -> Result<Self::SerializeStructVariant, E> {
        Err(E)
    }
}

/// Deserializer handing over one Duration the way a binary codec does: as the sequence
/// (secs: u64, nanos: u32).
pub struct DeDur(pub u64, pub u32);
struct Seq2 {
    secs: u64,
    nanos: u32,
    i: u8,
}
impl<'de> SeqAccess<'de> for Seq2 {
    type Error = E;
    fn next_element_seed<T: DeserializeSeed<'de>>(
        &mut self,
        seed: T,
    ) -> Result<Option<T::Value>, E> {
        use serde::de::IntoDeserializer;
        self.i += 1;
        match self.i {
            1 => seed
                .deserialize(IntoDeserializer::<E>::into_deserializer(self.secs))
                .map(Some),
            2 => seed
                .deserialize(IntoDeserializer::<E>::into_deserializer(self.nanos))
                .map(Some),
            _ => Ok(None),
        }
    }
}
impl<'de> Deserializer<'de> for DeDur {
    type Error = E;
    fn deserialize_any<V: Visitor<'de>>(self, v: V) -> Result<V::Value, E> {
        v.visit_seq(Seq2 {
            secs: self.0,
            nanos: self.1,
            i: 0,
        })
    }
    serde::forward_to_deserialize_any! {
        bool i8 i16 i32 i64 i128 u8 u16 u32 u64 u128 f32 f64 char str string bytes byte_buf option unit
        unit_struct newtype_struct seq tuple tuple_struct map struct enum identifier ignored_any
    }
}

/// C07: the duration written for a deadline D at time now1 is the saturating difference
/// D - now1 (zero for a deadline that already passed -- "now", not an error).
#[kani::proof]
#[kani::stub(std::time::Instant::now, crate::verif_kani_support::fake_now)]
#[kani::unwind(3)] // std's Timespec::sub_timespec recurses once; serde seq visitors loop over 2 fields
fn k2_deadline_written_as_remaining_time() {
    let now1 = any_instant();
    let d = any_instant();
    set_now(now1);
    let w = codec::serialize(&d, RecDur).unwrap();
    kani::cover!(gt(d, now1), "reachable: future deadline");
    assert!(
        !w.other && w.secs.is_some() && w.nanos.is_some(),
        "C07: written as Duration (secs: u64, nanos: u32)"
    );
    let wrote = (w.secs.unwrap(), w.nanos.unwrap());
    let expect = if ge(d, now1) { diff(d, now1) } else { (0, 0) };
    assert!(
        wrote == expect,
        "C07: written duration == deadline - now (saturating)"
    );
}

/// C16 + C07: decoding is total -- any (secs, nanos) a peer sends yields a deadline, never a
/// panic -- and for durations that fit the clock it is exactly now2 + duration.
#[kani::proof]
#[kani::stub(std::time::Instant::now, crate::verif_kani_support::fake_now)]
#[kani::unwind(3)] // std's Timespec::sub_timespec recurses once; serde seq visitors loop over 2 fields
fn k2_deadline_decode_total_and_shifted() {
    let now2 = any_instant();
    set_now(now2);
    let secs: u64 = kani::any();
    let nanos: u32 = kani::any();
    let r = codec::deserialize(DeDur(secs, nanos));
    kani::cover!(
        r.is_ok() && secs > (1u64 << 62),
        "reachable: huge duration decodes"
    );
    if let Ok(deadline) = r {
        assert!(
            ge(deadline, now2),
            "C07: decoded deadline is never earlier than now"
        );
        if secs < (1u64 << 41) && nanos < 1_000_000_000 {
            assert!(
                instant_parts(deadline) == plus(now2, (secs, nanos)),
                "C07: decoded deadline == now + duration"
            );
        }
    }
}

/// C07: the end-to-end shift law: a deadline D written at now1 and read at now2 >= now1 becomes
/// D' with D' >= D, D' - D == transit (now2 - now1) when D >= now1, and D' == now2 when D < now1.
#[kani::proof]
#[kani::stub(std::time::Instant::now, crate::verif_kani_support::fake_now)]
#[kani::unwind(3)] // std's Timespec::sub_timespec recurses once; serde seq visitors loop over 2 fields
fn k2_deadline_shift_law() {
    let now1 = any_instant();
    let now2 = any_instant();
    let d = any_instant();
    kani::assume(ge(now2, now1));
    set_now(now1);
    let w = codec::serialize(&d, RecDur).unwrap();
    set_now(now2);
    let d2 = codec::deserialize(DeDur(w.secs.unwrap(), w.nanos.unwrap())).unwrap();
    kani::cover!(gt(d, now1) && gt(now2, now1), "reachable");
    if ge(d, now1) {
        assert!(ge(d2, d), "C07: never earlier than the caller's deadline");
        assert!(
            diff(d2, d) == diff(now2, now1),
            "C07: shifted by exactly the transit time"
        );
    } else {
        assert!(
            instant_parts(d2) == instant_parts(now2),
            "C07: a passed deadline arrives as now"
        );
    }
}

/// C07: the default deadline is 10 s from now.
#[kani::proof]
#[kani::stub(std::time::Instant::now, crate::verif_kani_support::fake_now)]
#[kani::unwind(3)] // std's Timespec::sub_timespec recurses once; serde seq visitors loop over 2 fields
fn k2_default_deadline_ten_seconds() {
    let now = any_instant();
    set_now(now);
    let d = ten_seconds_from_now();
    assert!(
        instant_parts(d) == plus(now, (10, 0)),
        "C07: documented 10 s default"
    );
}
