//! K5 — `RoundRobin::call` (tarpc/src/client/stub/load_balance.rs), mounted inside `mod round_robin`.
use super::*;
use crate::client::stub::Stub;
use crate::verif_kani_support::{any_instant, run};
use std::cell::Cell;

pub struct Rec<'a> {
    pub idx: u8,
    pub hit: &'a Cell<u8>,
    pub seen_req: &'a Cell<u32>,
}
impl<'a> stub::Stub for Rec<'a> {
    type Req = u32;
    type Resp = u32;
    async fn call(&self, _ctx: context::Context, request: u32) -> Result<u32, RpcError> {
        self.hit.set(self.idx);
        self.seen_req.set(request);
        Ok(request)
    }
}

/// C20: successive calls on a 3-backend round-robin stub go to backends 0,1,2,0 and forward
/// the request unchanged (BOUNDED: 3 backends, 4 calls; the arithmetic for every count is
/// k5_cycle_next_is_counter_mod_len).
#[kani::proof]
#[kani::unwind(8)]
fn k5_round_robin_call_uses_next() {
    let hit = Cell::new(255u8);
    let seen = Cell::new(0u32);
    let rr = RoundRobin::new(vec![
        Rec {
            idx: 0,
            hit: &hit,
            seen_req: &seen,
        },
        Rec {
            idx: 1,
            hit: &hit,
            seen_req: &seen,
        },
        Rec {
            idx: 2,
            hit: &hit,
            seen_req: &seen,
        },
    ]);
    let ctx = context::Context {
        deadline: any_instant(),
        trace_context: Default::default(),
    };
    let mut k = 0u8;
    while k < 4 {
        let req: u32 = kani::any();
        let out = run(rr.call(ctx, req));
        assert!(hit.get() == k % 3, "C20: call k goes to backend k % 3");
        assert!(
            seen.get() == req && matches!(out, Ok(v) if v == req),
            "C20: request and result pass through unchanged"
        );
        k += 1;
    }
}
