// harnesses for unit round_robin (mounted under cfg(kani) by the hook in /repo)
