//! K3 — `TimeUntil for Instant` and MAX_TIMER_DELAY (tarpc/src/util.rs).
//! Mounted as `crate::util::verif_kani` under cfg(kani).
use super::{TimeUntil, MAX_TIMER_DELAY};
use crate::verif_kani_support::*;
use std::time::Duration;

/// C05/C06/C07: time_until(d) is the saturating difference d - now, total (no panic) for all
/// instants (A-clock: 0 <= secs < 2^40). Loop-free, full domain.
#[kani::proof]
#[kani::stub(std::time::Instant::now, crate::verif_kani_support::fake_now)]
#[kani::unwind(3)] // std's Timespec::sub_timespec recurses once (swapped operands); unwinding assertion stays on
fn k3_time_until_is_saturating_difference() {
    let now = any_instant();
    let d = any_instant();
    set_now(now);
    let r = d.time_until();
    kani::cover!(gt(d, now), "reachable: deadline in the future");
    kani::cover!(gt(now, d), "reachable: deadline already passed");
    if ge(d, now) {
        assert!(
            dur_parts(r) == diff(d, now),
            "C05: time_until == deadline - now"
        );
    } else {
        assert!(
            r == Duration::ZERO,
            "C05/C07: a passed deadline gives zero, not an error"
        );
    }
}

/// C16: the clamp constant used for deadline timers is exactly the value the Verus model
/// (prelude/time.rs) assumes, and lies within tokio-util's DelayQueue range (2^36 - 1 ms).
#[kani::proof]
fn k3_max_timer_delay_value() {
    assert!(
        MAX_TIMER_DELAY.as_secs() == 31_536_000 && MAX_TIMER_DELAY.subsec_nanos() == 0,
        "model constant == real constant (31_536_000_000 ms)"
    );
    assert!(
        MAX_TIMER_DELAY.as_secs() < ((1u64 << 36) - 1) / 1000,
        "C16: within DelayQueue range (2^36 - 1 ms)"
    );
    // and Duration::min really is the minimum (what `.min(MAX_TIMER_DELAY)` relies on)
    let d = any_duration();
    let m = d.min(MAX_TIMER_DELAY);
    assert!(
        m <= MAX_TIMER_DELAY && m <= d && (m == d || m == MAX_TIMER_DELAY),
        "C16: clamped delay never exceeds the range"
    );
}

/// C16: rendering the `rpc.deadline` span field can never fail: for every deadline and every
/// wall-clock time (>= the epoch) the helper neither overflows nor hands humantime a timestamp
/// it cannot render (humantime::format_rfc3339 errors only from 10000-01-01T00:00:00Z on).
#[kani::proof]
#[kani::stub(std::time::Instant::now, crate::verif_kani_support::fake_now)]
#[kani::stub(std::time::SystemTime::now, crate::verif_kani_support::fake_sys_now)]
#[kani::unwind(3)]
fn k3_deadline_field_always_renderable() {
    let now = any_instant();
    let d = any_instant();
    set_now(now);
    let wall_secs: i64 = kani::any();
    let wall_nanos: u32 = kani::any();
    kani::assume(wall_secs >= 0 && wall_secs < (1i64 << 40) && wall_nanos < 1_000_000_000);
    set_sys_now(wall_secs, wall_nanos);
    let shown = super::deadline_rfc3339(&d);
    let t = *shown.get_ref();
    let since_epoch = t.duration_since(std::time::SystemTime::UNIX_EPOCH);
    kani::cover!(gt(d, now), "reachable: future deadline");
    assert!(since_epoch.is_ok(), "C16: not before the epoch");
    assert!(
        since_epoch.unwrap().as_secs() < 253_402_300_800,
        "C16: within what humantime can render (year <= 9999)"
    );
}
