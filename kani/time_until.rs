// harnesses for unit time_until (mounted under cfg(kani) by the hook in /repo)
