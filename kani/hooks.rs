//! K4 — request hooks (tarpc/src/server/request_hook{,/before,/after,/before_and_after}.rs).
//! Mounted as `crate::server::request_hook::verif_kani` under cfg(kani).
//!
//! The code under test is generic in the hook and in the wrapped `Serve`. It is instantiated
//! with *nondeterministic* implementations: symbolic result (pass/fail), symbolic context
//! mutation, symbolic response mutation, and an event recorder. A proof for the
//! nondeterministic instance is a proof for every instance, because the wrappers cannot
//! observe anything of a hook beyond what these instances vary.
#![allow(dead_code)]

use super::*;
use crate::server::Serve;
use crate::verif_kani_support::{any_instant, run};
use crate::{context, ServerError};
use std::cell::RefCell;

#[derive(Clone, Copy, PartialEq, Eq, Debug)]
pub enum Ev {
    /// before-hook `id` ran and saw context marker `seen`
    Before(u8, u64),
    /// after-hook `id` ran, saw context marker and the response (is_ok, value-or-0)
    After(u8, u64, bool, u32),
    /// the handler ran with context marker and request
    Handler(u64, u32),
}

pub struct Log {
    pub evs: [Option<Ev>; 6],
    pub n: usize,
}
impl Log {
    pub fn new() -> RefCell<Log> {
        RefCell::new(Log {
            evs: [None; 6],
            n: 0,
        })
    }
    pub fn push(&mut self, e: Ev) {
        if self.n < 6 {
            self.evs[self.n] = Some(e);
        }
        self.n += 1;
    }
}

/// the observable part of a context: we use the span id as a marker that hooks may rewrite
pub fn marker(ctx: &context::Context) -> u64 {
    ctx.trace_context.span_id.into()
}
pub fn set_marker(ctx: &mut context::Context, v: u64) {
    ctx.trace_context.span_id = v.into();
}
pub fn any_ctx(m: u64) -> context::Context {
    let mut c = context::Context {
        deadline: any_instant(),
        trace_context: Default::default(),
    };
    set_marker(&mut c, m);
    c
}
pub fn err() -> ServerError {
    ServerError::new(std::io::ErrorKind::Other, String::new())
}

/// nondeterministic before-hook
pub struct B<'a> {
    pub id: u8,
    pub fail: bool,
    pub new_marker: u64,
    pub log: &'a RefCell<Log>,
}
impl<'a> BeforeRequest<u32> for B<'a> {
    async fn before(&mut self, ctx: &mut context::Context, _req: &u32) -> Result<(), ServerError> {
        self.log.borrow_mut().push(Ev::Before(self.id, marker(ctx)));
        set_marker(ctx, self.new_marker);
        if self.fail {
            Err(err())
        } else {
            Ok(())
        }
    }
}
pub fn any_b<'a>(id: u8, log: &'a RefCell<Log>) -> B<'a> {
    B {
        id,
        fail: kani::any(),
        new_marker: kani::any(),
        log,
    }
}

/// nondeterministic after-hook: may rewrite the response arbitrarily
pub struct A<'a> {
    pub id: u8,
    pub rewrite: bool,
    pub to_ok: bool,
    pub to_val: u32,
    pub log: &'a RefCell<Log>,
}
impl<'a> AfterRequest<u32> for A<'a> {
    async fn after(&mut self, ctx: &mut context::Context, resp: &mut Result<u32, ServerError>) {
        let (ok, v) = match resp {
            Ok(v) => (true, *v),
            Err(_) => (false, 0),
        };
        self.log
            .borrow_mut()
            .push(Ev::After(self.id, marker(ctx), ok, v));
        if self.rewrite {
            *resp = if self.to_ok {
                Ok(self.to_val)
            } else {
                Err(err())
            };
        }
    }
}
pub fn any_a<'a>(id: u8, log: &'a RefCell<Log>) -> A<'a> {
    A {
        id,
        rewrite: kani::any(),
        to_ok: kani::any(),
        to_val: kani::any(),
        log,
    }
}

/// a hook that is both (for before_and_after)
pub struct BA<'a> {
    pub b: B<'a>,
    pub a: A<'a>,
}
impl<'a> BeforeRequest<u32> for BA<'a> {
    async fn before(&mut self, ctx: &mut context::Context, req: &u32) -> Result<(), ServerError> {
        self.b.before(ctx, req).await
    }
}
impl<'a> AfterRequest<u32> for BA<'a> {
    async fn after(&mut self, ctx: &mut context::Context, resp: &mut Result<u32, ServerError>) {
        self.a.after(ctx, resp).await
    }
}

/// nondeterministic handler / inner Serve
pub struct S<'a> {
    pub fail: bool,
    pub val: u32,
    pub log: &'a RefCell<Log>,
}
impl<'a> Serve for S<'a> {
    type Req = u32;
    type Resp = u32;
    async fn serve(self, ctx: context::Context, req: u32) -> Result<u32, ServerError> {
        self.log.borrow_mut().push(Ev::Handler(marker(&ctx), req));
        if self.fail {
            Err(err())
        } else {
            Ok(self.val)
        }
    }
}
pub fn any_s<'a>(log: &'a RefCell<Log>) -> S<'a> {
    S {
        fail: kani::any(),
        val: kani::any(),
        log,
    }
}

fn same(out: &Result<u32, ServerError>, ok: bool, v: u32) -> bool {
    match out {
        Ok(x) => ok && *x == v,
        Err(_) => !ok,
    }
}

/// C19: hook-then-serve: the handler runs iff the hook passed, with the context the hook
/// produced; its result is returned unchanged; a hook failure becomes the response.
#[kani::proof]
#[kani::stub(
    tracing::__macro_support::__is_enabled,
    crate::verif_kani_support::tracing_never_enabled
)]
#[kani::stub(
    tracing::__macro_support::MacroCallsite::interest,
    crate::verif_kani_support::tracing_interest_never
)]
#[kani::stub(
    tracing::Event::dispatch,
    crate::verif_kani_support::tracing_no_dispatch
)]
#[kani::unwind(8)]
fn k4_hook_then_serve() {
    let log = Log::new();
    let m0: u64 = kani::any();
    let req: u32 = kani::any();
    let b = any_b(1, &log);
    let (bf, bm) = (b.fail, b.new_marker);
    let s = any_s(&log);
    let (sf, sv) = (s.fail, s.val);
    let out = run(s.before(b).serve(any_ctx(m0), req));
    let l = log.borrow();
    kani::cover!(!bf && !sf, "reachable: hook passes, handler succeeds");
    assert!(
        l.evs[0] == Some(Ev::Before(1, m0)),
        "C19: the hook runs first and sees the incoming context"
    );
    if bf {
        assert!(l.n == 1 && out.is_err(), "C19: a failing before-hook stops the chain; the handler is not invoked; its error is the response");
    } else {
        assert!(
            l.n == 2 && l.evs[1] == Some(Ev::Handler(bm, req)),
            "C19: the handler sees the context the hook produced and the same request"
        );
        assert!(
            same(&out, !sf, sv),
            "C19: the handler's result is returned unchanged"
        );
    }
}

/// C19: serve-then-hook: the after-hook runs exactly once after whatever it wraps produced a
/// result (including an error), and what it leaves in the result is what is returned.
#[kani::proof]
#[kani::stub(
    tracing::__macro_support::__is_enabled,
    crate::verif_kani_support::tracing_never_enabled
)]
#[kani::stub(
    tracing::__macro_support::MacroCallsite::interest,
    crate::verif_kani_support::tracing_interest_never
)]
#[kani::stub(
    tracing::Event::dispatch,
    crate::verif_kani_support::tracing_no_dispatch
)]
#[kani::unwind(8)]
fn k4_serve_then_hook() {
    let log = Log::new();
    let m0: u64 = kani::any();
    let req: u32 = kani::any();
    let a = any_a(7, &log);
    let (rw, tok, tv) = (a.rewrite, a.to_ok, a.to_val);
    let s = any_s(&log);
    let (sf, sv) = (s.fail, s.val);
    let out = run(s.after(a).serve(any_ctx(m0), req));
    let l = log.borrow();
    kani::cover!(
        sf && rw && tok,
        "reachable: after-hook turns an error into a success"
    );
    assert!(l.n == 2, "C19: handler once, after-hook exactly once");
    assert!(
        l.evs[0] == Some(Ev::Handler(m0, req)),
        "C19: the wrapped serve runs first"
    );
    assert!(
        l.evs[1] == Some(Ev::After(7, m0, !sf, if sf { 0 } else { sv })),
        "C19: the after-hook sees the produced result, also when it is an error"
    );
    if rw {
        assert!(
            same(&out, tok, tv),
            "C19: what the after-hook leaves in the result is what is sent"
        );
    } else {
        assert!(
            same(&out, !sf, sv),
            "C19: an after-hook that leaves the result alone returns it unchanged"
        );
    }
}

/// C19: combined hook: after part skipped when the before part fails; otherwise it sees the
/// context its before part produced.
#[kani::proof]
#[kani::stub(
    tracing::__macro_support::__is_enabled,
    crate::verif_kani_support::tracing_never_enabled
)]
#[kani::stub(
    tracing::__macro_support::MacroCallsite::interest,
    crate::verif_kani_support::tracing_interest_never
)]
#[kani::stub(
    tracing::Event::dispatch,
    crate::verif_kani_support::tracing_no_dispatch
)]
#[kani::unwind(8)]
fn k4_before_and_after() {
    let log = Log::new();
    let m0: u64 = kani::any();
    let req: u32 = kani::any();
    let ba = BA {
        b: any_b(1, &log),
        a: any_a(2, &log),
    };
    let (bf, bm) = (ba.b.fail, ba.b.new_marker);
    let (rw, tok, tv) = (ba.a.rewrite, ba.a.to_ok, ba.a.to_val);
    let s = any_s(&log);
    let (sf, sv) = (s.fail, s.val);
    let out = run(s.before_and_after(ba).serve(any_ctx(m0), req));
    let l = log.borrow();
    kani::cover!(!bf, "reachable: before part passes");
    assert!(
        l.evs[0] == Some(Ev::Before(1, m0)),
        "C19: before part runs first"
    );
    if bf {
        assert!(
            l.n == 1 && out.is_err(),
            "C19: before part failed: neither the handler nor the after part runs"
        );
    } else {
        assert!(l.n == 3, "C19: before, handler, after: once each");
        assert!(
            l.evs[1] == Some(Ev::Handler(bm, req)),
            "C19: handler sees the context the before part produced"
        );
        assert!(
            l.evs[2] == Some(Ev::After(2, bm, !sf, if sf { 0 } else { sv })),
            "C19: after part sees the context its before part produced, and the result"
        );
        if rw {
            assert!(
                same(&out, tok, tv),
                "C19: what the after part leaves is what is sent"
            );
        } else {
            assert!(same(&out, !sf, sv), "C19: result unchanged");
        }
    }
}

/// C19: a chain built with before().then(h1).then(h2) runs h1 then h2 (then appends at the
/// end), each seeing the changes of those before it; the first failure stops it; serving()
/// puts the handler after the whole chain. Chain length 0 (`before().serving(s)`) is `s`.
#[kani::proof]
#[kani::stub(
    tracing::__macro_support::__is_enabled,
    crate::verif_kani_support::tracing_never_enabled
)]
#[kani::stub(
    tracing::__macro_support::MacroCallsite::interest,
    crate::verif_kani_support::tracing_interest_never
)]
#[kani::stub(
    tracing::Event::dispatch,
    crate::verif_kani_support::tracing_no_dispatch
)]
#[kani::unwind(8)]
fn k4_chain_api_order_and_short_circuit() {
    let log = Log::new();
    let m0: u64 = kani::any();
    let req: u32 = kani::any();
    let b1 = any_b(1, &log);
    let b2 = any_b(2, &log);
    let (f1, m1, f2, m2) = (b1.fail, b1.new_marker, b2.fail, b2.new_marker);
    let s = any_s(&log);
    let (sf, sv) = (s.fail, s.val);
    let out = run(before()
        .then(b1)
        .then(b2)
        .serving(s)
        .serve(any_ctx(m0), req));
    let l = log.borrow();
    kani::cover!(!f1 && !f2 && !sf, "reachable: everything passes");
    assert!(
        l.evs[0] == Some(Ev::Before(1, m0)),
        "C19: first chained hook runs first"
    );
    if f1 {
        assert!(
            l.n == 1 && out.is_err(),
            "C19: first failure stops the chain"
        );
    } else {
        assert!(
            l.evs[1] == Some(Ev::Before(2, m1)),
            "C19: second hook sees the first hook's context change"
        );
        if f2 {
            assert!(
                l.n == 2 && out.is_err(),
                "C19: second failure stops the chain, handler not invoked"
            );
        } else {
            assert!(
                l.n == 3 && l.evs[2] == Some(Ev::Handler(m2, req)),
                "C19: handler runs last with the final context"
            );
            assert!(
                same(&out, !sf, sv),
                "C19: handler result returned unchanged"
            );
        }
    }
}

/// C19: the closure form of a hook (`impl BeforeRequest for F`) and `then_fn` (which must chain exactly like `then`):
/// two closures chained with `then_fn` run in order, the second sees the first's context change, the first
/// failure stops the chain and the handler, and the handler sees the final context.
#[kani::proof]
#[kani::stub(tracing::__macro_support::__is_enabled, crate::verif_kani_support::tracing_never_enabled)]
#[kani::stub(tracing::__macro_support::MacroCallsite::interest, crate::verif_kani_support::tracing_interest_never)]
#[kani::stub(tracing::Event::dispatch, crate::verif_kani_support::tracing_no_dispatch)]
#[kani::unwind(8)]
fn k4_then_fn_chains_closures_like_then() {
    let log = Log::new();
    let m0: u64 = kani::any();
    let req: u32 = kani::any();
    let (f1, m1, f2, m2): (bool, u64, bool, u64) = (kani::any(), kani::any(), kani::any(), kani::any());
    let s = any_s(&log);
    let (sf, sv) = (s.fail, s.val);
    let lg = &log;
    let c1 = move |ctx: &mut context::Context, _req: &u32| {
        lg.borrow_mut().push(Ev::Before(1, marker(ctx)));
        set_marker(ctx, m1);
        let r = if f1 { Err(err()) } else { Ok(()) };
        async move { r }
    };
    let c2 = move |ctx: &mut context::Context, _req: &u32| {
        lg.borrow_mut().push(Ev::Before(2, marker(ctx)));
        set_marker(ctx, m2);
        let r = if f2 { Err(err()) } else { Ok(()) };
        async move { r }
    };
    let out = run(before().then_fn(c1).then_fn(c2).serving(s).serve(any_ctx(m0), req));
    let l = log.borrow();
    kani::cover!(!f1 && !f2 && !sf, "reachable: everything passes");
    assert!(l.evs[0] == Some(Ev::Before(1, m0)), "C19: first chained hook runs first");
    if f1 {
        assert!(l.n == 1 && out.is_err(), "C19: first failure stops the chain");
    } else {
        assert!(l.evs[1] == Some(Ev::Before(2, m1)), "C19: second hook sees the first hook's context change");
        if f2 {
            assert!(l.n == 2 && out.is_err(), "C19: second failure stops the chain, handler not invoked");
        } else {
            assert!(l.n == 3 && l.evs[2] == Some(Ev::Handler(m2, req)), "C19: handler runs last with the final context");
            assert!(same(&out, !sf, sv), "C19: handler result returned unchanged");
        }
    }
}

/// C19: chain length 0: `before()` is the empty list; `before().serving(s)` behaves as `s`.
#[kani::proof]
#[kani::stub(
    tracing::__macro_support::__is_enabled,
    crate::verif_kani_support::tracing_never_enabled
)]
#[kani::stub(
    tracing::__macro_support::MacroCallsite::interest,
    crate::verif_kani_support::tracing_interest_never
)]
#[kani::stub(
    tracing::Event::dispatch,
    crate::verif_kani_support::tracing_no_dispatch
)]
#[kani::unwind(8)]
fn k4_empty_chain_is_identity() {
    let log = Log::new();
    let m0: u64 = kani::any();
    let req: u32 = kani::any();
    let s = any_s(&log);
    let (sf, sv) = (s.fail, s.val);
    let out = run(before().serving(s).serve(any_ctx(m0), req));
    let l = log.borrow();
    assert!(
        l.n == 1 && l.evs[0] == Some(Ev::Handler(m0, req)),
        "C19: empty chain: handler only, context untouched"
    );
    assert!(same(&out, !sf, sv), "C19: result unchanged");
    let mut nil = before();
    let mut c = any_ctx(m0);
    let r = run(BeforeRequest::<u32>::before(&mut nil, &mut c, &req));
    assert!(
        r.is_ok() && marker(&c) == m0,
        "C19: the empty list passes and changes nothing"
    );
}

/// C19, nesting: after(before(s)) -- the after-hook runs once also when the *inner
/// before-hook* failed (an error from an inner before-hook is a result like any other).
#[kani::proof]
#[kani::stub(
    tracing::__macro_support::__is_enabled,
    crate::verif_kani_support::tracing_never_enabled
)]
#[kani::stub(
    tracing::__macro_support::MacroCallsite::interest,
    crate::verif_kani_support::tracing_interest_never
)]
#[kani::stub(
    tracing::Event::dispatch,
    crate::verif_kani_support::tracing_no_dispatch
)]
#[kani::unwind(8)]
fn k4_after_wraps_inner_before_error() {
    let log = Log::new();
    let m0: u64 = kani::any();
    let req: u32 = kani::any();
    let b = any_b(1, &log);
    let (bf, bm) = (b.fail, b.new_marker);
    let a = any_a(9, &log);
    let rw = a.rewrite;
    let s = any_s(&log);
    let (sf, sv) = (s.fail, s.val);
    let out = run(s.before(b).after(a).serve(any_ctx(m0), req));
    let l = log.borrow();
    kani::cover!(bf, "reachable: inner before-hook fails");
    if bf {
        assert!(
            l.n == 2 && l.evs[1] == Some(Ev::After(9, m0, false, 0)),
            "C19: after-hook runs exactly once on the inner before-hook's error"
        );
    } else {
        assert!(
            l.n == 3
                && l.evs[1] == Some(Ev::Handler(bm, req))
                && l.evs[2] == Some(Ev::After(9, m0, !sf, if sf { 0 } else { sv })),
            "C19: before, handler, after"
        );
    }
    if !rw {
        assert!(
            same(&out, !bf && !sf, sv),
            "C19: untouched result passes through"
        );
    }
}

/// C19: a chain of three built through the public API runs in chained order (then appends at
/// the end), threads the context, and stops at the first failure.
#[kani::proof]
#[kani::stub(
    tracing::__macro_support::__is_enabled,
    crate::verif_kani_support::tracing_never_enabled
)]
#[kani::stub(
    tracing::__macro_support::MacroCallsite::interest,
    crate::verif_kani_support::tracing_interest_never
)]
#[kani::stub(
    tracing::Event::dispatch,
    crate::verif_kani_support::tracing_no_dispatch
)]
#[kani::unwind(8)]
fn k4_chain_of_three_order() {
    let log = Log::new();
    let m0: u64 = kani::any();
    let req: u32 = kani::any();
    let (b1, b2, b3) = (any_b(1, &log), any_b(2, &log), any_b(3, &log));
    let (f1, m1, f2, m2, f3, m3) = (
        b1.fail,
        b1.new_marker,
        b2.fail,
        b2.new_marker,
        b3.fail,
        b3.new_marker,
    );
    let mut chain = before().then(b1).then(b2).then(b3);
    let mut ctx = any_ctx(m0);
    let out = run(BeforeRequest::<u32>::before(&mut chain, &mut ctx, &req));
    let l = log.borrow();
    assert!(
        l.evs[0] == Some(Ev::Before(1, m0)),
        "C19: first chained hook first"
    );
    if !f1 {
        assert!(
            l.evs[1] == Some(Ev::Before(2, m1)),
            "C19: second chained hook second, seeing the first's change"
        );
        if !f2 {
            assert!(
                l.n == 3 && l.evs[2] == Some(Ev::Before(3, m2)),
                "C19: third chained hook third, seeing the second's change"
            );
            assert!(
                out.is_err() == f3 && marker(&ctx) == m3,
                "C19: result of the last hook"
            );
        } else {
            assert!(
                l.n == 2 && out.is_err(),
                "C19: second failure stops the chain"
            );
        }
    } else {
        assert!(
            l.n == 1 && out.is_err(),
            "C19: first failure stops the chain"
        );
    }
}
