// harnesses for unit hooks (mounted under cfg(kani) by the hook in /repo)
