//! K1 (part 3) — wire *shape* of the protocol messages (tarpc/src/lib.rs, context.rs, trace.rs):
//! the sequence of serde calls (struct/variant starts with their declared lengths, fields,
//! primitive kinds) must not depend on the values carried. Non-self-describing codecs (bincode)
//! rely on that: a field that is skipped for some values cannot be decoded.
//! Mounted as `crate::verif_kani_schema` under cfg(kani).
#![allow(dead_code)]
use serde::ser::{
    self, Serialize, SerializeMap, SerializeSeq, SerializeStruct, SerializeStructVariant,
    SerializeTuple, SerializeTupleStruct, SerializeTupleVariant, Serializer,
};
use std::fmt;

#[derive(Debug)]
pub struct E;
impl fmt::Display for E {
    fn fmt(&self, _: &mut fmt::Formatter) -> fmt::Result {
        Ok(())
    }
}
impl std::error::Error for E {}
impl ser::Error for E {
    fn custom<T: fmt::Display>(_: T) -> Self {
        E
    }
}

pub const CAP: usize = 80;
#[derive(Clone, Copy)]
pub struct Shape {
    pub ev: [u16; CAP],
    pub n: usize,
}
impl Shape {
    pub fn new() -> Self {
        Shape { ev: [0; CAP], n: 0 }
    }
    fn push(&mut self, t: u16) {
        if self.n < CAP {
            self.ev[self.n] = t;
        }
        self.n += 1;
    }
}
const STRUCT: u16 = 0x1000;
const SVARIANT: u16 = 0x2000;
const FIELD: u16 = 0x3000;
const END: u16 = 0x4000;
const PRIM: u16 = 0x5000;
const TUPLE: u16 = 0x6000;
const ELEM: u16 = 0x7000;
const NEWTYPE: u16 = 0x8000;
const UVARIANT: u16 = 0x9000;
const NVARIANT: u16 = 0xA000;
const SEQ: u16 = 0xB000;

pub struct Rec<'a>(pub &'a mut Shape);
macro_rules! prim { ($($f:ident($t:ty) = $k:expr),*) => { $(fn $f(self, _: $t) -> Result<(), E> { self.0.push(PRIM | $k); Ok(()) })* } }
impl<'a> Serializer for Rec<'a> {
    type Ok = ();
    type Error = E;
    type SerializeSeq = Rec<'a>;
    type SerializeTuple = Rec<'a>;
    type SerializeTupleStruct = Rec<'a>;
    type SerializeTupleVariant = Rec<'a>;
    type SerializeMap = Rec<'a>;
    type SerializeStruct = Rec<'a>;
    type SerializeStructVariant = Rec<'a>;
    prim!(
        serialize_bool(bool) = 1,
        serialize_i8(i8) = 2,
        serialize_i16(i16) = 3,
        serialize_i32(i32) = 4,
        serialize_i64(i64) = 5,
        serialize_u8(u8) = 6,
        serialize_u16(u16) = 7,
        serialize_u32(u32) = 8,
        serialize_u64(u64) = 9,
        serialize_f32(f32) = 10,
        serialize_f64(f64) = 11,
        serialize_char(char) = 12,
        serialize_str(&str) = 13,
        serialize_bytes(&[u8]) = 14
    );
    fn serialize_none(self) -> Result<(), E> {
        self.0.push(PRIM | 15);
        Ok(())
    }
    fn serialize_some<T: ?Sized + Serialize>(self, v: &T) -> Result<(), E> {
        self.0.push(PRIM | 16);
        v.serialize(Rec(self.0))
    }
    fn serialize_unit(self) -> Result<(), E> {
        self.0.push(PRIM | 17);
        Ok(())
    }
    fn serialize_unit_struct(self, _: &'static str) -> Result<(), E> {
        self.0.push(PRIM | 18);
        Ok(())
    }
    fn serialize_unit_variant(self, _: &'static str, idx: u32, _: &'static str) -> Result<(), E> {
        let _ = idx;
        self.0.push(UVARIANT);
        Ok(())
    }
    fn serialize_newtype_struct<T: ?Sized + Serialize>(
        self,
        _: &'static str,
        v: &T,
    ) -> Result<(), E> {
        self.0.push(NEWTYPE);
        v.serialize(Rec(self.0))
    }
    fn serialize_newtype_variant<T: ?Sized + Serialize>(
        self,
        _: &'static str,
        idx: u32,
        _: &'static str,
        v: &T,
    ) -> Result<(), E> {
        self.0.push(NVARIANT | (idx as u16 & 0xff));
        v.serialize(Rec(self.0))
    }
    fn serialize_seq(self, len: Option<usize>) -> Result<Rec<'a>, E> {
        self.0.push(SEQ | (len.unwrap_or(0xfff) as u16 & 0xfff));
        Ok(self)
    }
    fn serialize_tuple(self, len: usize) -> Result<Rec<'a>, E> {
        self.0.push(TUPLE | (len as u16 & 0xfff));
        Ok(self)
    }
    fn serialize_tuple_struct(self, _: &'static str, len: usize) -> Result<Rec<'a>, E> {
        self.0.push(TUPLE | (len as u16 & 0xfff));
        Ok(self)
    }
    fn serialize_tuple_variant(
        self,
        _: &'static str,
        idx: u32,
        _: &'static str,
        len: usize,
    ) -> Result<Rec<'a>, E> {
        self.0
            .push(SVARIANT | ((idx as u16 & 0xf) << 8) | (len as u16 & 0xff));
        Ok(self)
    }
    fn serialize_map(self, len: Option<usize>) -> Result<Rec<'a>, E> {
        self.0.push(SEQ | (len.unwrap_or(0xfff) as u16 & 0xfff));
        Ok(self)
    }
    fn serialize_struct(self, _: &'static str, len: usize) -> Result<Rec<'a>, E> {
        self.0.push(STRUCT | (len as u16 & 0xfff));
        Ok(self)
    }
    fn serialize_struct_variant(
        self,
        _: &'static str,
        idx: u32,
        _: &'static str,
        len: usize,
    ) -> Result<Rec<'a>, E> {
        self.0
            .push(SVARIANT | ((idx as u16 & 0xf) << 8) | (len as u16 & 0xff));
        Ok(self)
    }
}
impl<'a> SerializeSeq for Rec<'a> {
    type Ok = ();
    type Error = E;
    fn serialize_element<T: ?Sized + Serialize>(&mut self, v: &T) -> Result<(), E> {
        self.0.push(ELEM);
        v.serialize(Rec(self.0))
    }
    fn end(self) -> Result<(), E> {
        self.0.push(END);
        Ok(())
    }
}
impl<'a> SerializeTuple for Rec<'a> {
    type Ok = ();
    type Error = E;
    fn serialize_element<T: ?Sized + Serialize>(&mut self, v: &T) -> Result<(), E> {
        self.0.push(ELEM);
        v.serialize(Rec(self.0))
    }
    fn end(self) -> Result<(), E> {
        self.0.push(END);
        Ok(())
    }
}
impl<'a> SerializeTupleStruct for Rec<'a> {
    type Ok = ();
    type Error = E;
    fn serialize_field<T: ?Sized + Serialize>(&mut self, v: &T) -> Result<(), E> {
        self.0.push(ELEM);
        v.serialize(Rec(self.0))
    }
    fn end(self) -> Result<(), E> {
        self.0.push(END);
        Ok(())
    }
}
impl<'a> SerializeTupleVariant for Rec<'a> {
    type Ok = ();
    type Error = E;
    fn serialize_field<T: ?Sized + Serialize>(&mut self, v: &T) -> Result<(), E> {
        self.0.push(ELEM);
        v.serialize(Rec(self.0))
    }
    fn end(self) -> Result<(), E> {
        self.0.push(END);
        Ok(())
    }
}
impl<'a> SerializeMap for Rec<'a> {
    type Ok = ();
    type Error = E;
    fn serialize_key<T: ?Sized + Serialize>(&mut self, v: &T) -> Result<(), E> {
        self.0.push(ELEM);
        v.serialize(Rec(self.0))
    }
    fn serialize_value<T: ?Sized + Serialize>(&mut self, v: &T) -> Result<(), E> {
        self.0.push(ELEM);
        v.serialize(Rec(self.0))
    }
    fn end(self) -> Result<(), E> {
        self.0.push(END);
        Ok(())
    }
}
impl<'a> SerializeStruct for Rec<'a> {
    type Ok = ();
    type Error = E;
    fn serialize_field<T: ?Sized + Serialize>(&mut self, _: &'static str, v: &T) -> Result<(), E> {
        self.0.push(FIELD);
        v.serialize(Rec(self.0))
    }
    fn end(self) -> Result<(), E> {
        self.0.push(END);
        Ok(())
    }
}
impl<'a> SerializeStructVariant for Rec<'a> {
    type Ok = ();
    type Error = E;
    fn serialize_field<T: ?Sized + Serialize>(&mut self, _: &'static str, v: &T) -> Result<(), E> {
        self.0.push(FIELD);
        v.serialize(Rec(self.0))
    }
    fn end(self) -> Result<(), E> {
        self.0.push(END);
        Ok(())
    }
}

fn same_shape(a: &Shape, b: &Shape) -> bool {
    if a.n != b.n {
        return false;
    }
    let mut i = 0;
    while i < CAP {
        if a.ev[i] != b.ev[i] {
            return false;
        }
        i += 1;
    }
    true
}

fn shape_of<T: Serialize>(v: &T) -> Shape {
    let mut s = Shape::new();
    v.serialize(Rec(&mut s)).unwrap();
    s
}

fn any_trace_context() -> crate::trace::Context {
    let t: u128 = kani::any();
    let s: u64 = kani::any();
    crate::trace::Context {
        trace_id: t.into(),
        span_id: s.into(),
        sampling_decision: if kani::any() {
            crate::trace::SamplingDecision::Sampled
        } else {
            crate::trace::SamplingDecision::Unsampled
        },
    }
}

/// C15: the serde shape of a Cancel message is the same for every trace context and id (in
/// particular for the all-default trace context a client without a tracing layer sends), and it
/// declares and writes both fields.
#[kani::proof]
#[kani::unwind(82)]
fn k1_cancel_shape_is_value_independent() {
    let any = crate::ClientMessage::<u32>::Cancel {
        trace_context: any_trace_context(),
        request_id: kani::any(),
    };
    let dflt = crate::ClientMessage::<u32>::Cancel {
        trace_context: Default::default(),
        request_id: 0,
    };
    let a = shape_of(&any);
    let d = shape_of(&dflt);
    kani::cover!(a.n > 8, "reachable");
    assert!(a.n <= CAP && d.n <= CAP, "recorder large enough");
    assert!(same_shape(&a, &d), "C15: the wire shape of Cancel does not depend on the values (no field is skipped for some values)");
    assert!(
        a.ev[0] == (SVARIANT | (1 << 8) | 2),
        "C15: Cancel is variant 1 and declares its 2 fields"
    );
}

/// C15: same for a Request: shape independent of id, body and trace context; all 3 + 2 + 3 fields written.
#[kani::proof]
#[kani::stub(std::time::Instant::now, crate::verif_kani_support::fake_now)]
#[kani::unwind(82)]
fn k1_request_shape_is_value_independent() {
    use crate::verif_kani_support::{any_instant, set_now};
    let now = any_instant();
    set_now(now);
    let mk = |ctx: crate::trace::Context, deadline, id: u64, body: u32| {
        crate::ClientMessage::Request(crate::Request {
            context: crate::context::Context {
                deadline,
                trace_context: ctx,
            },
            id,
            message: body,
        })
    };
    let a = shape_of(&mk(
        any_trace_context(),
        any_instant(),
        kani::any(),
        kani::any(),
    ));
    let d = shape_of(&mk(Default::default(), now, 0, 0));
    assert!(a.n <= CAP && d.n <= CAP, "recorder large enough");
    assert!(
        same_shape(&a, &d),
        "C15: the wire shape of Request does not depend on the values"
    );
    assert!(
        a.ev[0] == (NVARIANT | 0) && a.ev[1] == (STRUCT | 3),
        "C15: Request is variant 0 wrapping a 3-field struct"
    );
}
