// harnesses for unit trace (mounted under cfg(kani) by the hook in /repo)
