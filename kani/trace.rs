//! K1 (part 2) + K6 — tarpc/src/trace.rs: 128-bit id codec, OpenTelemetry id conversions,
//! child-context derivation. Mounted as `crate::trace::verif_kani` under cfg(kani).
use super::*;
use serde::de::{self, DeserializeSeed, Deserializer, SeqAccess, Visitor};
use serde::ser::{self, Impossible, SerializeTuple, Serializer};
use std::fmt;

#[derive(Debug)]
pub struct E;
impl fmt::Display for E {
    fn fmt(&self, _: &mut fmt::Formatter) -> fmt::Result {
        Ok(())
    }
}
impl std::error::Error for E {}
impl ser::Error for E {
    fn custom<T: fmt::Display>(_: T) -> Self {
        E
    }
}
impl de::Error for E {
    fn custom<T: fmt::Display>(_: T) -> Self {
        E
    }
}

/// records a fixed-size byte tuple ([u8; 16] serializes as a 16-tuple of u8)
pub struct RecBytes;
pub struct TupRec {
    bytes: [u8; 16],
    n: usize,
    bad: bool,
}
pub struct U8Rec;
macro_rules! bad8 { ($($f:ident($t:ty)),*) => { $(fn $f(self, _: $t) -> Result<Option<u8>, E> { Ok(None) })* } }
impl Serializer for U8Rec {
    type Ok = Option<u8>;
    type Error = E;
    type SerializeSeq = Impossible<Option<u8>, E>;
    type SerializeTuple = Impossible<Option<u8>, E>;
    type SerializeTupleStruct = Impossible<Option<u8>, E>;
    type SerializeTupleVariant = Impossible<Option<u8>, E>;
    type SerializeMap = Impossible<Option<u8>, E>;
    type SerializeStruct = Impossible<Option<u8>, E>;
    type SerializeStructVariant = Impossible<Option<u8>, E>;
    fn serialize_u8(self, v: u8) -> Result<Option<u8>, E> {
        Ok(Some(v))
    }
    bad8!(
        serialize_bool(bool),
        serialize_i8(i8),
        serialize_i16(i16),
        serialize_i32(i32),
        serialize_i64(i64),
        serialize_u16(u16),
        serialize_u32(u32),
        serialize_u64(u64),
        serialize_f32(f32),
        serialize_f64(f64),
        serialize_char(char),
        serialize_str(&str),
        serialize_bytes(&[u8])
    );
    fn serialize_none(self) -> Result<Option<u8>, E> {
        Ok(None)
    }
    fn serialize_some<T: ?Sized + ser::Serialize>(self, _: &T) -> Result<Option<u8>, E> {
        Ok(None)
    }
    fn serialize_unit(self) -> Result<Option<u8>, E> {
        Ok(None)
    }
    fn serialize_unit_struct(self, _: &'static str) -> Result<Option<u8>, E> {
        Ok(None)
    }
    fn serialize_unit_variant(
        self,
        _: &'static str,
        _: u32,
        _: &'static str,
    ) -> Result<Option<u8>, E> {
        Ok(None)
    }
    fn serialize_newtype_struct<T: ?Sized + ser::Serialize>(
        self,
        _: &'static str,
        _: &T,
    ) -> Result<Option<u8>, E> {
        Ok(None)
    }
    fn serialize_newtype_variant<T: ?Sized + ser::Serialize>(
        self,
        _: &'static str,
        _: u32,
        _: &'static str,
        _: &T,
    ) -> Result<Option<u8>, E> {
        Ok(None)
    }
    fn serialize_seq(self, _: Option<usize>) -> Result<Self::SerializeSeq, E> {
        Err(E)
    }
    fn serialize_tuple(self, _: usize) -> Result<Self::SerializeTuple, E> {
        Err(E)
    }
    fn serialize_tuple_struct(
        self,
        _: &'static str,
        _: usize,
    ) -> Result<Self::SerializeTupleStruct, E> {
        Err(E)
    }
    fn serialize_tuple_variant(
        self,
        _: &'static str,
        _: u32,
        _: &'static str,
        _: usize,
    ) -> Result<Self::SerializeTupleVariant, E> {
        Err(E)
    }
    fn serialize_map(self, _: Option<usize>) -> Result<Self::SerializeMap, E> {
        Err(E)
    }
    fn serialize_struct(self, _: &'static str, _: usize) -> Result<Self::SerializeStruct, E> {
        Err(E)
    }
    fn serialize_struct_variant(
        self,
        _: &'static str,
        _: u32,
        _: &'static str,
        _: usize,
    ) -> Result<Self::SerializeStructVariant, E> {
        Err(E)
    }
}
impl SerializeTuple for TupRec {
    type Ok = ([u8; 16], usize, bool);
    type Error = E;
    fn serialize_element<T: ?Sized + ser::Serialize>(&mut self, v: &T) -> Result<(), E> {
        match v.serialize(U8Rec)? {
            Some(b) if self.n < 16 => self.bytes[self.n] = b,
            _ => self.bad = true,
        }
        self.n += 1;
        Ok(())
    }
    fn end(self) -> Result<Self::Ok, E> {
        Ok((self.bytes, self.n, self.bad))
    }
}
macro_rules! badt { ($($f:ident($t:ty)),*) => { $(fn $f(self, _: $t) -> Result<([u8; 16], usize, bool), E> { Err(E) })* } }
impl Serializer for RecBytes {
    type Ok = ([u8; 16], usize, bool);
    type Error = E;
    type SerializeSeq = Impossible<Self::Ok, E>;
    type SerializeTuple = TupRec;
    type SerializeTupleStruct = Impossible<Self::Ok, E>;
    type SerializeTupleVariant = Impossible<Self::Ok, E>;
    type SerializeMap = Impossible<Self::Ok, E>;
    type SerializeStruct = Impossible<Self::Ok, E>;
    type SerializeStructVariant = Impossible<Self::Ok, E>;
    badt!(
        serialize_bool(bool),
        serialize_i8(i8),
        serialize_i16(i16),
        serialize_i32(i32),
        serialize_i64(i64),
        serialize_u8(u8),
        serialize_u16(u16),
        serialize_u32(u32),
        serialize_u64(u64),
        serialize_f32(f32),
        serialize_f64(f64),
        serialize_char(char),
        serialize_str(&str),
        serialize_bytes(&[u8])
    );
    fn serialize_none(self) -> Result<Self::Ok, E> {
        Err(E)
    }
    fn serialize_some<T: ?Sized + ser::Serialize>(self, _: &T) -> Result<Self::Ok, E> {
        Err(E)
    }
    fn serialize_unit(self) -> Result<Self::Ok, E> {
        Err(E)
    }
    fn serialize_unit_struct(self, _: &'static str) -> Result<Self::Ok, E> {
        Err(E)
    }
    fn serialize_unit_variant(
        self,
        _: &'static str,
        _: u32,
        _: &'static str,
    ) -> Result<Self::Ok, E> {
        Err(E)
    }
    fn serialize_newtype_struct<T: ?Sized + ser::Serialize>(
        self,
        _: &'static str,
        _: &T,
    ) -> Result<Self::Ok, E> {
        Err(E)
    }
    fn serialize_newtype_variant<T: ?Sized + ser::Serialize>(
        self,
        _: &'static str,
        _: u32,
        _: &'static str,
        _: &T,
    ) -> Result<Self::Ok, E> {
        Err(E)
    }
    fn serialize_seq(self, _: Option<usize>) -> Result<Self::SerializeSeq, E> {
        Err(E)
    }
    fn serialize_tuple(self, _: usize) -> Result<TupRec, E> {
        Ok(TupRec {
            bytes: [0; 16],
            n: 0,
            bad: false,
        })
    }
    fn serialize_tuple_struct(
        self,
        _: &'static str,
        _: usize,
    ) -> Result<Self::SerializeTupleStruct, E> {
        Err(E)
    }
    fn serialize_tuple_variant(
        self,
        _: &'static str,
        _: u32,
        _: &'static str,
        _: usize,
    ) -> Result<Self::SerializeTupleVariant, E> {
        Err(E)
    }
    fn serialize_map(self, _: Option<usize>) -> Result<Self::SerializeMap, E> {
        Err(E)
    }
    fn serialize_struct(self, _: &'static str, _: usize) -> Result<Self::SerializeStruct, E> {
        Err(E)
    }
    fn serialize_struct_variant(
        self,
        _: &'static str,
        _: u32,
        _: &'static str,
        _: usize,
    ) -> Result<Self::SerializeStructVariant, E> {
        Err(E)
    }
}

/// hands the 16 bytes back the way a binary codec does: as a 16-element sequence of u8
pub struct DeBytes(pub [u8; 16]);
struct Seq16 {
    b: [u8; 16],
    i: usize,
}
impl<'de> SeqAccess<'de> for Seq16 {
    type Error = E;
    fn next_element_seed<T: DeserializeSeed<'de>>(
        &mut self,
        seed: T,
    ) -> Result<Option<T::Value>, E> {
        use serde::de::IntoDeserializer;
        if self.i < 16 {
            let v = self.b[self.i];
            self.i += 1;
            seed.deserialize(IntoDeserializer::<E>::into_deserializer(v))
                .map(Some)
        } else {
            Ok(None)
        }
    }
}
impl<'de> Deserializer<'de> for DeBytes {
    type Error = E;
    fn deserialize_any<V: Visitor<'de>>(self, v: V) -> Result<V::Value, E> {
        v.visit_seq(Seq16 { b: self.0, i: 0 })
    }
    serde::forward_to_deserialize_any! {
        bool i8 i16 i32 i64 i128 u8 u16 u32 u64 u128 f32 f64 char str string bytes byte_buf option unit
        unit_struct newtype_struct seq tuple tuple_struct map struct enum identifier ignored_any
    }
}

/// C15: 128-bit trace ids are written as their 16 little-endian bytes and read back exactly,
/// for every u128.
#[kani::proof]
#[kani::unwind(18)]
fn k1_u128_round_trip_le_bytes() {
    let x: u128 = kani::any();
    let (bytes, n, bad) = u128_serde::serialize(&x, RecBytes).unwrap();
    assert!(n == 16 && !bad, "C15: written as exactly 16 u8 elements");
    assert!(bytes == x.to_le_bytes(), "C15: little-endian byte order");
    let back = u128_serde::deserialize(DeBytes(bytes)).unwrap();
    assert!(back == x, "C15: 128-bit id round-trips exactly");
}

/// C18: trace and span ids survive the OpenTelemetry conversions in both directions.
#[kani::proof]
fn k6_otel_id_conversions_round_trip() {
    let t: u128 = kani::any();
    let s: u64 = kani::any();
    let tid = TraceId::from(t);
    let sid = SpanId::from(s);
    let o: opentelemetry::trace::TraceId = tid.into();
    let back: TraceId = o.into();
    assert!(
        u128::from(back) == t,
        "C18: TraceId <-> opentelemetry TraceId is the identity"
    );
    let os: opentelemetry::trace::SpanId = sid.into();
    let backs: SpanId = os.into();
    assert!(
        u64::from(backs) == s,
        "C18: SpanId <-> opentelemetry SpanId is the identity"
    );
    let d: bool = kani::any();
    let dec = if d {
        SamplingDecision::Sampled
    } else {
        SamplingDecision::Unsampled
    };
    let flags: opentelemetry::trace::TraceFlags = dec.into();
    assert!(
        flags.is_sampled() == d,
        "C18: sampling decision maps to the sampled flag"
    );
}
