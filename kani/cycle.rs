//! K5 — `round_robin::cycle::State::next` (tarpc/src/client/stub/load_balance.rs).
//! Mounted inside `mod cycle` under cfg(kani) (private fields).
use super::*;
use std::sync::atomic::{AtomicUsize, Ordering};

fn state_of(n: usize, start: usize) -> State<u8> {
    let elements: Vec<u8> = match n {
        1 => vec![0],
        2 => vec![0, 1],
        3 => vec![0, 1, 2],
        _ => vec![0, 1, 2, 3],
    };
    State {
        elements,
        next: AtomicUsize::new(start),
    }
}

/// C20: for a non-empty backend list, `next()` returns element `c % len` where c is the value
/// the atomic counter held, and advances the counter by exactly one (wrapping) -- so concurrent
/// calls, each getting a distinct consecutive c from fetch_add, spread evenly.
/// Full domain in the counter value (incl. usize::MAX wrap); BOUNDED in the backend count (1..=4).
#[kani::proof]
#[kani::unwind(6)]
fn k5_cycle_next_is_counter_mod_len() {
    let n: usize = kani::any();
    kani::assume(n >= 1 && n <= 4);
    let c: usize = kani::any();
    let s = state_of(n, c);
    let got = *s.next();
    kani::cover!(c == usize::MAX, "reachable: counter wraps");
    assert!(got as usize == c % n, "C20: backend index == counter % len");
    assert!(
        s.next.load(Ordering::Relaxed) == c.wrapping_add(1),
        "C20: counter advances by exactly one"
    );
    let got2 = *s.next();
    assert!(
        got2 as usize == c.wrapping_add(1) % n,
        "C20: the next call gets the next counter value"
    );
}

/// thorough tier: the same contract with the backend count enumerated up to 8 (still BOUNDED in that dimension)
#[kani::proof]
#[kani::unwind(10)]
fn k5_cycle_next_upto8() {
    let n: usize = kani::any();
    kani::assume(n >= 1 && n <= 8);
    let c: usize = kani::any();
    let mut elements: Vec<u8> = Vec::new();
    let mut i = 0u8;
    while (i as usize) < n {
        elements.push(i);
        i += 1;
    }
    let s = State {
        elements,
        next: AtomicUsize::new(c),
    };
    let got = *s.next();
    assert!(got as usize == c % n, "C20: backend index == counter % len");
    assert!(
        s.next.load(Ordering::Relaxed) == c.wrapping_add(1),
        "C20: counter advances by exactly one"
    );
}
