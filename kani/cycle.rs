// harnesses for unit cycle (mounted under cfg(kani) by the hook in /repo)
