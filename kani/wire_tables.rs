//! K1 (part 1) — the io::ErrorKind wire table of tarpc/src/util/serde.rs, both directions.
//! Mounted as `crate::util::serde::verif_kani` under cfg(kani).
//!
//! Contract (property C15): for every kind k the serializer is invoked exactly as
//! `serialize_u32(code(k))` with `code` the 18-entry table and 16 for every other kind;
//! `deserialize(c)` is the inverse on 0..=17 and `Other` for every other u32.
//! All harnesses are loop-free over the full input domain => complete proofs, not bounded.
#![allow(dead_code)]

use super::{deserialize_io_error_kind_from_u32, serialize_io_error_kind_as_u32};
use serde::de::{self, Deserializer, Visitor};
use serde::ser::{self, Impossible, Serializer};
use std::fmt;
use std::io::ErrorKind;

#[derive(Debug)]
pub struct E;
impl fmt::Display for E {
    fn fmt(&self, _: &mut fmt::Formatter) -> fmt::Result {
        Ok(())
    }
}
impl std::error::Error for E {}
impl ser::Error for E {
    fn custom<T: fmt::Display>(_: T) -> Self {
        E
    }
}
impl de::Error for E {
    fn custom<T: fmt::Display>(_: T) -> Self {
        E
    }
}

/// What the serializer was asked to write.
#[derive(PartialEq, Eq, Clone, Copy, Debug)]
pub enum W {
    U32(u32),
    I32(i32),
    OtherPrimitive,
}

/// Recording serializer: remembers which primitive method was invoked and with what value.
pub struct Rec;
macro_rules! other { ($($f:ident($t:ty)),*) => { $(fn $f(self, _: $t) -> Result<W, E> { Ok(W::OtherPrimitive) })* } }
impl Serializer for Rec {
    type Ok = W;
    type Error = E;
    type SerializeSeq = Impossible<W, E>;
    type SerializeTuple = Impossible<W, E>;
    type SerializeTupleStruct = Impossible<W, E>;
    type SerializeTupleVariant = Impossible<W, E>;
    type SerializeMap = Impossible<W, E>;
    type SerializeStruct = Impossible<W, E>;
    type SerializeStructVariant = Impossible<W, E>;
    fn serialize_u32(self, v: u32) -> Result<W, E> {
        Ok(W::U32(v))
    }
    fn serialize_i32(self, v: i32) -> Result<W, E> {
        Ok(W::I32(v))
    }
    other!(
        serialize_bool(bool),
        serialize_i8(i8),
        serialize_i16(i16),
        serialize_i64(i64),
        serialize_u8(u8),
        serialize_u16(u16),
        serialize_u64(u64),
        serialize_f32(f32),
        serialize_f64(f64),
        serialize_char(char),
        serialize_str(&str),
        serialize_bytes(&[u8])
    );
    fn serialize_none(self) -> Result<W, E> {
        Ok(W::OtherPrimitive)
    }
    fn serialize_some<T: ?Sized + ser::Serialize>(self, _: &T) -> Result<W, E> {
        Ok(W::OtherPrimitive)
    }
    fn serialize_unit(self) -> Result<W, E> {
        Ok(W::OtherPrimitive)
    }
    fn serialize_unit_struct(self, _: &'static str) -> Result<W, E> {
        Ok(W::OtherPrimitive)
    }
    fn serialize_unit_variant(self, _: &'static str, _: u32, _: &'static str) -> Result<W, E> {
        Ok(W::OtherPrimitive)
    }
    fn serialize_newtype_struct<T: ?Sized + ser::Serialize>(
        self,
        _: &'static str,
        _: &T,
    ) -> Result<W, E> {
        Ok(W::OtherPrimitive)
    }
    fn serialize_newtype_variant<T: ?Sized + ser::Serialize>(
        self,
        _: &'static str,
        _: u32,
        _: &'static str,
        _: &T,
    ) -> Result<W, E> {
        Ok(W::OtherPrimitive)
    }
    fn serialize_seq(self, _: Option<usize>) -> Result<Self::SerializeSeq, E> {
        Err(E)
    }
    fn serialize_tuple(self, _: usize) -> Result<Self::SerializeTuple, E> {
        Err(E)
    }
    fn serialize_tuple_struct(
        self,
        _: &'static str,
        _: usize,
    ) -> Result<Self::SerializeTupleStruct, E> {
        Err(E)
    }
    fn serialize_tuple_variant(
        self,
        _: &'static str,
        _: u32,
        _: &'static str,
        _: usize,
    ) -> Result<Self::SerializeTupleVariant, E> {
        Err(E)
    }
    fn serialize_map(self, _: Option<usize>) -> Result<Self::SerializeMap, E> {
        Err(E)
    }
    fn serialize_struct(self, _: &'static str, _: usize) -> Result<Self::SerializeStruct, E> {
        Err(E)
    }
    fn serialize_struct_variant(
        self,
        _: &'static str,
        _: u32,
        _: &'static str,
        _: usize,
    ) -> Result<Self::SerializeStructVariant, E> {
        Err(E)
    }
}

/// Deserializer that holds exactly one u32 (what a codec hands over after decoding a u32).
pub struct DeU32(pub u32);
impl<'de> Deserializer<'de> for DeU32 {
    type Error = E;
    fn deserialize_any<V: Visitor<'de>>(self, v: V) -> Result<V::Value, E> {
        v.visit_u32(self.0)
    }
    fn deserialize_u32<V: Visitor<'de>>(self, v: V) -> Result<V::Value, E> {
        v.visit_u32(self.0)
    }
    serde::forward_to_deserialize_any! {
        bool i8 i16 i32 i64 i128 u8 u16 u64 u128 f32 f64 char str string bytes byte_buf option unit
        unit_struct newtype_struct seq tuple tuple_struct map struct enum identifier ignored_any
    }
}

/// The specification table (written independently of the code under test, from the
/// property statement: "the 18 portable error kinds").
pub fn spec_code(k: ErrorKind) -> u32 {
    use ErrorKind::*;
    match k {
        NotFound => 0,
        PermissionDenied => 1,
        ConnectionRefused => 2,
        ConnectionReset => 3,
        ConnectionAborted => 4,
        NotConnected => 5,
        AddrInUse => 6,
        AddrNotAvailable => 7,
        BrokenPipe => 8,
        AlreadyExists => 9,
        WouldBlock => 10,
        InvalidInput => 11,
        InvalidData => 12,
        TimedOut => 13,
        WriteZero => 14,
        Interrupted => 15,
        Other => 16,
        UnexpectedEof => 17,
        _ => 16,
    }
}

/// Every stable io::ErrorKind (the 18 portable ones first), selected by a symbolic index.
pub fn any_kind() -> ErrorKind {
    use ErrorKind::*;
    let i: u8 = kani::any();
    match i {
        0 => NotFound,
        1 => PermissionDenied,
        2 => ConnectionRefused,
        3 => ConnectionReset,
        4 => ConnectionAborted,
        5 => NotConnected,
        6 => AddrInUse,
        7 => AddrNotAvailable,
        8 => BrokenPipe,
        9 => AlreadyExists,
        10 => WouldBlock,
        11 => InvalidInput,
        12 => InvalidData,
        13 => TimedOut,
        14 => WriteZero,
        15 => Interrupted,
        16 => Other,
        17 => UnexpectedEof,
        18 => OutOfMemory,
        19 => Unsupported,
        20 => HostUnreachable,
        21 => NetworkUnreachable,
        22 => NetworkDown,
        23 => NotADirectory,
        24 => IsADirectory,
        25 => DirectoryNotEmpty,
        26 => ReadOnlyFilesystem,
        27 => StaleNetworkFileHandle,
        28 => StorageFull,
        29 => NotSeekable,
        30 => FileTooLarge,
        31 => ResourceBusy,
        32 => ExecutableFileBusy,
        33 => Deadlock,
        34 => TooManyLinks,
        35 => ArgumentListTooLong,
        36 => CrossesDevices,
        _ => QuotaExceeded,
    }
}

/// C15: the table is written as a u32 (not as the i32 an untyped literal defaults to), with
/// the specified code, for every kind.
#[kani::proof]
fn k1_errorkind_written_as_u32_code() {
    let k = any_kind();
    let w = serialize_io_error_kind_as_u32(&k, Rec).unwrap();
    kani::cover!(true, "reachable");
    assert!(
        w == W::U32(spec_code(k)),
        "C15: kind written as serialize_u32(code(kind))"
    );
}

/// C15: every u32 decodes (never an error, never a panic); 0..=17 decode to the table's
/// kind, everything else to Other.
#[kani::proof]
fn k1_errorkind_read_total_and_table() {
    let c: u32 = kani::any();
    let r = deserialize_io_error_kind_from_u32(DeU32(c));
    kani::cover!(c > 17, "reachable: unknown code");
    assert!(r.is_ok(), "C15/C16: decoding a u32 code never fails");
    let k = r.unwrap();
    if c <= 17 {
        assert!(
            spec_code(k) == c && (c == 16) == (k == ErrorKind::Other),
            "C15: portable code decodes to its kind"
        );
    } else {
        assert!(k == ErrorKind::Other, "C15: unknown codes degrade to Other");
    }
}

/// C15: write-then-read is the identity on the 18 portable kinds and Other elsewhere.
#[kani::proof]
fn k1_errorkind_round_trip() {
    let k = any_kind();
    let w = serialize_io_error_kind_as_u32(&k, Rec).unwrap();
    let code = match w {
        W::U32(c) => c,
        // a value written through another primitive would be read back by a u32 reader as
        // whatever the codec makes of it: not a round trip
        _ => {
            assert!(false, "C15: kind not written as u32");
            0
        }
    };
    let back = deserialize_io_error_kind_from_u32(DeU32(code)).unwrap();
    kani::cover!(true, "reachable");
    let portable = spec_code(k) != 16 || k == ErrorKind::Other;
    if portable {
        assert!(back == k, "C15: portable kinds round-trip exactly");
    } else {
        assert!(
            back == ErrorKind::Other,
            "C15: other kinds degrade to the generic kind"
        );
    }
}
