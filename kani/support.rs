//! Shared support for the Kani harnesses (mounted as `crate::verif_kani_support` under cfg(kani)).
#![allow(dead_code, missing_docs)]

use std::future::Future;
use std::pin::pin;
use std::task::{Context, Poll, RawWaker, RawWakerVTable, Waker};
use std::time::{Duration, Instant};

fn noop_raw() -> RawWaker {
    fn clone(_: *const ()) -> RawWaker {
        noop_raw()
    }
    fn noop(_: *const ()) {}
    static VT: RawWakerVTable = RawWakerVTable::new(clone, noop, noop, noop);
    RawWaker::new(std::ptr::null(), &VT)
}

/// One-poll executor: the futures under test never suspend (their leaves are ready), so a
/// single poll completes them; a `Pending` would make the harness vacuous, which the
/// `kani::cover!` in each harness detects.
pub fn run<F: Future>(f: F) -> F::Output {
    let w = unsafe { Waker::from_raw(noop_raw()) };
    let mut cx = Context::from_waker(&w);
    let mut f = pin!(f);
    match f.as_mut().poll(&mut cx) {
        Poll::Ready(v) => v,
        Poll::Pending => {
            kani::assume(false);
            unreachable!()
        }
    }
}

/// Any `Instant` with 0 <= secs < 2^40 (A-clock). On Linux an Instant is (i64 secs, u32 nanos < 1e9).
pub fn any_instant() -> Instant {
    let secs: i64 = kani::any();
    let nanos: u32 = kani::any();
    kani::assume(nanos < 1_000_000_000);
    kani::assume(secs >= 0 && secs < (1i64 << 40));
    instant_from(secs, nanos)
}

pub fn instant_from(secs: i64, nanos: u32) -> Instant {
    const _: () = assert!(std::mem::size_of::<Instant>() == 16);
    #[repr(C)]
    struct Raw {
        secs: i64,
        nanos: u32,
    }
    unsafe { std::mem::transmute::<Raw, Instant>(Raw { secs, nanos }) }
}

pub fn instant_parts(i: Instant) -> (i64, u32) {
    #[repr(C)]
    struct Raw {
        secs: i64,
        nanos: u32,
    }
    let r = unsafe { std::mem::transmute::<Instant, Raw>(i) };
    (r.secs, r.nanos)
}

pub fn any_duration() -> Duration {
    let secs: u64 = kani::any();
    let nanos: u32 = kani::any();
    kani::assume(nanos < 1_000_000_000);
    Duration::new(secs, nanos)
}

/// Symbolic clock: harnesses stub `Instant::now` with `fake_now` and set `NOW` themselves.
pub static mut NOW: (i64, u32) = (0, 0);
pub fn fake_now() -> Instant {
    unsafe { instant_from(NOW.0, NOW.1) }
}
pub fn set_now(i: Instant) {
    let p = instant_parts(i);
    unsafe { NOW = p }
}
/// (secs, nanos) comparison and difference without wide multiplications (cheap for the SAT back end)
pub fn ge(a: Instant, b: Instant) -> bool {
    let (a, b) = (instant_parts(a), instant_parts(b));
    a.0 > b.0 || (a.0 == b.0 && a.1 >= b.1)
}
pub fn gt(a: Instant, b: Instant) -> bool {
    let (a, b) = (instant_parts(a), instant_parts(b));
    a.0 > b.0 || (a.0 == b.0 && a.1 > b.1)
}
/// a - b as (secs, nanos), requires ge(a, b)
pub fn diff(a: Instant, b: Instant) -> (u64, u32) {
    let (a, b) = (instant_parts(a), instant_parts(b));
    if a.1 >= b.1 {
        ((a.0 - b.0) as u64, a.1 - b.1)
    } else {
        ((a.0 - b.0 - 1) as u64, a.1 + 1_000_000_000 - b.1)
    }
}
/// a + (secs, nanos) as instant parts, nanos < 1e9, no overflow assumed by the caller
pub fn plus(a: Instant, d: (u64, u32)) -> (i64, u32) {
    let a = instant_parts(a);
    let n = a.1 + d.1;
    if n >= 1_000_000_000 {
        (a.0 + d.0 as i64 + 1, n - 1_000_000_000)
    } else {
        (a.0 + d.0 as i64, n)
    }
}
pub fn dur_parts(d: Duration) -> (u64, u32) {
    (d.as_secs(), d.subsec_nanos())
}

/// Symbolic wall clock: harnesses stub `SystemTime::now` with `fake_sys_now`.
pub static mut SYS_NOW: (i64, u32) = (0, 0);
pub fn fake_sys_now() -> std::time::SystemTime {
    const _: () = assert!(std::mem::size_of::<std::time::SystemTime>() == 16);
    #[repr(C)]
    struct Raw {
        secs: i64,
        nanos: u32,
    }
    unsafe {
        std::mem::transmute::<Raw, std::time::SystemTime>(Raw {
            secs: SYS_NOW.0,
            nanos: SYS_NOW.1,
        })
    }
}
pub fn set_sys_now(secs: i64, nanos: u32) {
    unsafe { SYS_NOW = (secs, nanos) }
}

// ---- tracing switched off (A-tracing: no subscriber is interested in any callsite) ----
// kani-compiler 0.68 dies (intrinsics.rs:243) on code reachable from tracing's std dispatcher, so a
// harness that can reach a `tracing::*!` event stubs the three entry points of that machinery with
// the answers they give when no subscriber is installed.  `tracing_off!` in each harness file adds
// the attributes.
pub fn tracing_never_enabled(
    _m: &tracing::Metadata<'static>,
    _i: tracing::subscriber::Interest,
) -> bool {
    false
}
pub fn tracing_interest_never(
    _c: &tracing::__macro_support::MacroCallsite,
) -> tracing::subscriber::Interest {
    tracing::subscriber::Interest::never()
}
pub fn tracing_no_dispatch<'a>(
    _m: &'static tracing::Metadata<'static>,
    _f: &tracing::field::ValueSet<'a>,
) where
    'a: 'a,
{
}
