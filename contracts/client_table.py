"""U1 — the client's in-flight request table (tarpc/src/client/in_flight_requests.rs).

Contracts are stated over the abstract view  self@ : Map<u64, CEntry>  (id -> context and
oneshot channel of the waiting call) and  self.timers() : Map<Key, {value, delay}>.
Tags: @Cxx = the property that clause carries;  @core = structural (every property of the
unit depends on it).
"""
import re
from vx.extract import Fn, Impl, Lift, Raw, Rule, TypeItem

SRC = 'tarpc/src/client/in_flight_requests.rs'
IMPL = r'impl<Res> InFlightRequests<Res>'

TABLE_RULES = [
    Rule('R7:compact', r'self\.request_data\.compact\(0\.1\);', 'compact_map(&mut self.request_data);',
         why='frame-only model of util::Compact (capacity only)'),
    Rule('R7:compact-lifted', r'(?<![\w.])request_data_map\.compact\(0\.1\);', 'compact_map(request_data_map);',
         why='frame-only model of util::Compact (capacity only)'),
    Rule('R5:delayqueue-type', r'DelayQueue<u64>', 'DelayQueue', where='sig', why='prelude model is monomorphic in the value type u64'),
    Rule('R5:context-path', r'context::Context', 'context::Context', why='(identity; prelude mirrors the path)'),
]

DEFAULT_RULES = [
    Rule('R7:default-map', r'request_data: Default::default\(\),', 'request_data: HashMap::new(),', '*', where='body',
         why='`Default` of (Fnv)HashMap is the empty map (A-hashmap: FnvHashMap behaves as HashMap; the hasher is not modelled)'),
    Rule('R7:default-delayqueue', r'deadlines: Default::default\(\),', 'deadlines: DelayQueue::new(),', '*', where='body',
         why='`Default` of DelayQueue is `DelayQueue::new()` (tokio-util); prelude model: nothing armed'),
]

FX_CALLS = [r'\.complete_request\(', r'Self::poll_expired__closure\(']

VOCAB = Raw('''
pub struct CEntry { pub ctx: context::Context, pub chan: int }
/// C09: the log l1 extends l0 by exactly one delivery per entry of v (in the order `order` of their ids), each to the
/// oneshot channel of that entry and each carrying a value produced by `f`
pub open spec fn delivered_all<Res, F: Fn() -> Res>(v: Map<u64, CEntry>, l0: Seq<Effect<Res>>, l1: Seq<Effect<Res>>, order: Seq<u64>, f: F) -> bool {
    &&& forall|i: int, j: int| 0 <= i < j < order.len() ==> order[i] != order[j]
    &&& forall|i: int| 0 <= i < order.len() ==> v.contains_key(#[trigger] order[i])
    &&& forall|k: u64| v.contains_key(k) ==> exists|i: int| 0 <= i < order.len() && #[trigger] order[i] == k
    &&& l1.len() == l0.len() + order.len()
    &&& forall|i: int| 0 <= i < l0.len() ==> #[trigger] l1[i] == l0[i]
    &&& forall|i: int| 0 <= i < order.len() ==> ((#[trigger] l1[l0.len() + i]) matches Effect::Deliver { chan, value }
            && chan == v[order[i]].chan && call_ensures(f, (), value))
}
''')

COMPLETE_ALL_LOOP = '''
    invariant
        call_requires(result, ()),
        0 <= it__n <= it__all.len(), drain__it@ == it__all.subrange(it__n, it__all.len() as int),
        fx.log.len() == old(fx).log.len() + it__n,
        forall|i: int| 0 <= i < old(fx).log.len() ==> #[trigger] fx.log[i] == old(fx).log[i],
        forall|i: int| 0 <= i < it__n ==> ((#[trigger] fx.log[old(fx).log.len() + i]) matches Effect::Deliver { chan, value }
            && chan == it__all[i].1.response_completion.chan() && call_ensures(result, (), value)), // @C09
    ensures it__n == it__all.len(),
    decreases it__all.len() - it__n
'''
COMPLETE_ALL_POST = '''
    proof {
        let order = Seq::new(it__all.len(), |i: int| it__all[i].0);
        assert(delivered_all(old(self)@, old(fx).log, fx.log, order, result)) by {
            assert forall|k: u64| old(self)@.contains_key(k) implies exists|i: int| 0 <= i < order.len() && #[trigger] order[i] == k by {
                assert(old(self).request_data@.contains_key(k));
                let i = choose|i: int| 0 <= i < it__all.len() && (#[trigger] it__all[i]).0 == k;
                assert(order[i] == k);
            }
        }
    }
'''

IMPL_VOCAB = Raw('''
    /// abstract view: id -> (context stored with the request, oneshot channel of the waiting call)
    pub open spec fn view(&self) -> Map<u64, CEntry> {
        Map::new(
            self.request_data@.dom(),
            |id: u64| CEntry { ctx: self.request_data@[id].ctx, chan: self.request_data@[id].response_completion.chan() },
        )
    }
    pub open spec fn timers(&self) -> Map<delay_queue::Key, delay_queue::Entry> { self.deadlines@ }
    pub open spec fn timers_reg(&self) -> bool { self.deadlines.reg() }
    pub open spec fn key_of(&self, id: u64) -> delay_queue::Key { self.request_data@[id].deadline_key }
    /// representation invariant: timers <-> entries is a bijection (no leaked timer, no entry
    /// without its timer) -- C11; it is also what makes DelayQueue::remove panic-free -- C16.
    pub open spec fn wf(&self) -> bool {
        &&& vstd::std_specs::hash::obeys_key_model::<u64>()
        &&& forall|id: u64| #[trigger] self.request_data@.contains_key(id) ==>
                self.deadlines@.contains_key(self.request_data@[id].deadline_key)
                && self.deadlines@[self.request_data@[id].deadline_key].value == id
        &&& forall|k: delay_queue::Key| #[trigger] self.deadlines@.contains_key(k) ==>
                self.request_data@.contains_key(self.deadlines@[k].value)
                && self.request_data@[self.deadlines@[k].value].deadline_key == k
    }
''')


def parts():
    return [
        VOCAB,
        TypeItem(SRC, 'struct', 'InFlightRequests'),
        TypeItem(SRC, 'struct', 'RequestData'),
        TypeItem(SRC, 'struct', 'AlreadyExistsError', attrs='#[derive(Debug)]'),
        Impl('impl<Res> InFlightRequests<Res>', [
            IMPL_VOCAB,
            Fn(SRC, r'impl<Resp> Default for InFlightRequests<Resp>', 'default', tags='C11', rules=DEFAULT_RULES,
               pre='broadcast use vstd::std_specs::hash::group_hash_axioms;',
               ensures='''
                   // the induction base of the table invariant: a new table is well-formed and tracks nothing
                   r.wf(), // @core:C01,C08,C11
                   r@ =~= Map::<u64, CEntry>::empty() && r.timers() =~= Map::<delay_queue::Key, delay_queue::Entry>::empty(), // @C11
               '''),
            Fn(SRC, IMPL, 'len', tags='C11',
               requires='self.wf(), // @core',
               ensures='n == self@.dom().len(), // @C11',
               ret='n', pre='proof { assert(self@.dom() =~= self.request_data@.dom()); }'),
            Fn(SRC, IMPL, 'is_empty', tags='C10,C11',
               requires='self.wf(), // @core',
               ensures='b == (self@.dom().len() == 0), // @C10,C11',
               ret='b', pre='proof { assert(self@.dom() =~= self.request_data@.dom()); }'),
            Fn(SRC, IMPL, 'insert_request', tags='C16',
               requires='''
                   old(self).wf(), // @core
               ''',
               ensures='''
                   final(self).wf(), // @core:C01,C05,C11,C16
                   old(self)@.contains_key(request_id) ==> r is Err && final(self)@ =~= old(self)@ && final(self).timers() =~= old(self).timers(), // @C01,C11
                   !old(self)@.contains_key(request_id) ==> r is Ok && final(self)@ =~= old(self)@.insert(request_id, CEntry { ctx, chan: response_completion.chan() }), // @C01,C18
                   // the step of the history lemma (lemmas/client_history.rs); this function has no effect-log parameter: it delivers nothing
                   step_insert::<Res>(old(self)@, Seq::empty(), final(self)@, Seq::empty(), request_id, CEntry { ctx, chan: response_completion.chan() }), // @C01
                   !old(self)@.contains_key(request_id) ==> !old(self).timers().contains_key(final(self).key_of(request_id))
                       && final(self).timers() =~= old(self).timers().insert(final(self).key_of(request_id), delay_queue::Entry { value: request_id, delay: dmin(until(ctx.deadline), max_timer_delay()) }), // @C05,C11
               '''),
            Fn(SRC, IMPL, 'complete_request', fx=True, tags='C16',
               requires='old(self).wf(), // @core',
               ensures='''
                   final(self).wf(), // @core:C01,C05,C11,C16
                   final(self)@ =~= old(self)@.remove(request_id), // @C01,C11
                   r is Some == old(self)@.contains_key(request_id), // @C01
                   old(self)@.contains_key(request_id) ==> final(fx).log == old(fx).log.push(Effect::Deliver { chan: old(self)@[request_id].chan, value: result }), // @C01
                   old(self)@.contains_key(request_id) ==> final(self).timers() =~= old(self).timers().remove(old(self).key_of(request_id)), // @C05,C11
                   !old(self)@.contains_key(request_id) ==> final(fx).log == old(fx).log && final(self).timers() =~= old(self).timers(), // @C01,C16
                   step_complete(old(self)@, old(fx).log, final(self)@, final(fx).log, request_id, result), // @C01
               '''),
            Fn(SRC, IMPL, 'complete_all_requests', fx=True, tags='C16', fuse_iter=True,
               rules=[
                   Rule('R5:generic-F', r"fn complete_all_requests\(", 'fn complete_all_requests<F: Fn() -> Res>(', 1, where='sig',
                        why="impl-Trait argument written as a named generic (the lifetime 'a, which only ties the returned iterator to self, is dropped by R2:lifetime-a)"),
                   Rule('R5:lifetime-self', r"&'a mut self", '&mut self', 1, where='sig', why="the lifetime only ties the returned iterator to self"),
                   Rule('R5:fnmut-param', r"mut result: impl FnMut\(\) -> Res \+ 'a", 'result: F', 1, where='sig',
                        why='Verus has no FnMut: the bound is NARROWED to Fn (the contract is proved for every Fn closure; the only call site passes one: `|| Err(RpcError::Channel(e.clone()))`)'),
                   Rule('R17:ret-iterator', r"\s*->\s*impl Iterator<Item = Span> \+ 'a", '', 1, where='sig',
                        why='R17: the function is emitted run to exhaustion; the yielded Spans are only entered for logging by the consumer (A-tracing)'),
               ],
               loops=[COMPLETE_ALL_LOOP],
               post=COMPLETE_ALL_POST,
               requires='''
                   old(self).wf(), // @core
                   call_requires(result, ()), // @core
               ''',
               ensures='''
                   final(self).wf(), // @core:C09,C11,C16
                   final(self)@ =~= Map::<u64, CEntry>::empty(), // @C09,C11
                   final(self).timers() =~= Map::<delay_queue::Key, delay_queue::Entry>::empty(), // @C11
                   // C09: every in-flight call is delivered exactly one value of `result`, and nothing else is delivered
                   exists|order: Seq<u64>| delivered_all(old(self)@, old(fx).log, final(fx).log, order, result), // @C09
               '''),
            Fn(SRC, IMPL, 'cancel_request', tags='C16',
               requires='old(self).wf(), // @core',
               ensures='''
                   final(self).wf(), // @core:C03,C11,C16
                   final(self)@ =~= old(self)@.remove(request_id), // @C03,C11
                   r is Some == old(self)@.contains_key(request_id), // @C03
                   r matches Some(p) ==> p.0 == old(self)@[request_id].ctx, // @C18
                   old(self)@.contains_key(request_id) ==> final(self).timers() =~= old(self).timers().remove(old(self).key_of(request_id)), // @C11
                   !old(self)@.contains_key(request_id) ==> final(self).timers() =~= old(self).timers(), // @C03,C16
                   step_cancel::<Res>(old(self)@, Seq::empty(), final(self)@, Seq::empty(), request_id), // @C01
               '''),
            Fn(SRC, IMPL, 'poll_expired', fx=True, tags='C16',
               hints=[('let lifted__r = Self::poll_expired__closure(', '''
                   proof {
                       if lifted__r is None {
                           assert(old(self)@.dom() =~= Set::<u64>::empty());
                       }
                       if let Some(id) = lifted__r {
                           assert(old(self).request_data@.contains_key(id));
                           assert(old(self)@[id].chan == old(self).request_data@[id].response_completion.chan());
                           let v = choose|v: Res| call_ensures(expired_error, (), v)
                               && fx.log == old(fx).log.push(Effect::Deliver { chan: old(self).request_data@[id].response_completion.chan(), value: v });
                           assert(self@ =~= old(self)@.remove(id));
                           assert(step_expire(old(self)@, old(fx).log, self@, fx.log, id, v));
                       }
                   }
               ''')],
               rules=[
                   Rule('R5:impl-fn-param', r'expired_error: impl Fn\(\) -> Res', 'expired_error: F', 1, where='sig',
                        why='impl-Trait argument written as a named generic (same meaning)'),
                   Rule('R5:generic-F', r'fn poll_expired\(', 'fn poll_expired<F: Fn() -> Res>(', 1, where='sig', why='see R5:impl-fn-param'),
               ],
               lifts=[Lift(anchor=r'\.map\(\|(?P<arg>expired)\| \{', name='poll_expired__closure',
                           generics='<F: Fn() -> Res>',
                           params='request_data_map: &mut FnvHashMap<u64, RequestData<Res>>, expired_error: &F, expired: Option<delay_queue::Expired>',
                           call_args='&mut self.request_data, &expired_error, expired',
                           ret='Option<u64>',
                           renames=[('self.request_data', 'request_data_map')],
                           fx=True,
                           requires='''
                               vstd::std_specs::hash::obeys_key_model::<u64>(), // @core
                               call_requires(*expired_error, ()), // @core
                           ''',
                           ensures='''
                               expired is None ==> r is None && final(request_data_map)@ == old(request_data_map)@ && final(fx).log == old(fx).log, // @C05
                               expired matches Some(e) ==> r == Some(e.value()) && final(request_data_map)@ == old(request_data_map)@.remove(e.value()), // @C05,C11
                               expired matches Some(e) ==> (old(request_data_map)@.contains_key(e.value()) ==> exists|v: Res| call_ensures(*expired_error, (), v)
                                   && final(fx).log == old(fx).log.push(Effect::Deliver { chan: old(request_data_map)@[e.value()].response_completion.chan(), value: v })), // @C05,C01
                               expired matches Some(e) ==> (!old(request_data_map)@.contains_key(e.value()) ==> final(fx).log == old(fx).log), // @C01
                           ''')],
               requires='''
                   old(self).wf(), // @core
                   call_requires(expired_error, ()), // @core
               ''',
               ensures='''
                   final(self).wf(), // @core:C05,C11,C16
                   r matches Poll::Ready(Some(id)) ==> old(self)@.contains_key(id) && final(self)@ =~= old(self)@.remove(id)
                       && old(self).timers().contains_key(old(self).key_of(id)) && final(self).timers() =~= old(self).timers().remove(old(self).key_of(id)), // @C05,C11
                   r matches Poll::Ready(Some(id)) ==> exists|v: Res| call_ensures(expired_error, (), v)
                       && final(fx).log == old(fx).log.push(Effect::Deliver { chan: old(self)@[id].chan, value: v }), // @C05,C01
                   r matches Poll::Ready(Some(id)) ==> exists|v: Res| step_expire(old(self)@, old(fx).log, final(self)@, final(fx).log, id, v), // @C01
                   r matches Poll::Ready(None) ==> old(self)@.dom().len() == 0 && final(self)@ =~= old(self)@ && final(self).timers() =~= old(self).timers() && final(fx).log == old(fx).log, // @C05,C02
                   r is Pending ==> final(self)@ =~= old(self)@ && final(self).timers() =~= old(self).timers() && final(fx).log == old(fx).log && final(self).timers_reg(), // @C02,C05
               '''),
        ]),
    ]


def unit():
    from vx.extract import Unit
    return Unit('client_table', prelude=['base.rs', 'time.rs', 'delay_queue.rs', 'oneshot_tx.rs', 'hash_iter.rs'],
                parts=parts(), rules=TABLE_RULES,
                fx_fns=FX_CALLS,
                fx_prims=[r'response_completion\.send\('], fx_type='Fx<Res>', lemmas=['client_history.rs'])
