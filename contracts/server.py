"""Unit `server` — server in-flight table (U2) + BaseChannel (U4) + MaxRequests throttler (U5) +
Requests (U4) in one file.

`Channel` below is the contract of tarpc's `server::Channel` (+ its Stream/Sink supertraits):
BaseChannel and MaxRequests<C> are *proved* to implement it with their real bodies, and
MaxRequests<C>/Requests<C> are verified against it for an arbitrary C -- so decorators stack.
"""
import re
from vx.extract import Fn, Impl, Lift, Raw, Rule, TypeItem, Unit
from contracts import server_table

SRC = 'tarpc/src/server.rs'
LIB = 'tarpc/src/lib.rs'
THR = 'tarpc/src/server/limits/requests_per_channel.rs'

BC_IMPL = r'impl<Req, Resp, T> BaseChannel<Req, Resp, T> where T: Transport<Response<Resp>, ClientMessage<Req>>,'
BC_STREAM = r'impl<Req, Resp, T> Stream for BaseChannel<Req, Resp, T> where T: Transport<Response<Resp>, ClientMessage<Req>>,'
BC_SINK = r'impl<Req, Resp, T> Sink<Response<Resp>> for BaseChannel<Req, Resp, T> where T: Transport<Response<Resp>, ClientMessage<Req>>, T::Error: Error,'
BC_CHAN = r'impl<Req, Resp, T> Channel for BaseChannel<Req, Resp, T> where T: Transport<Response<Resp>, ClientMessage<Req>>,'
MR_STREAM = r'impl<C> Stream for MaxRequests<C> where C: Channel,'
MR_SINK = r'impl<C> Sink<Response<<C as Channel>::Resp>> for MaxRequests<C> where C: Channel,'
MR_CHAN = r'impl<C> Channel for MaxRequests<C> where C: Channel,'
RQ_IMPL = r'impl<C> Requests<C> where C: Channel,'
RQ_STREAM = r'impl<C> Stream for Requests<C> where C: Channel,'

RULES = server_table.TABLE_RULES + [
    Rule('R2:as-mut', r'self\s*\.as_mut\(\)\s*\.', 'self.', flags=re.M | re.S, why='A-pin: re-borrow of the pinned self'),
    Rule('R2:deref-project', r'\*self\.project\(\)\.', 'self.', why='A-pin: projection is field access'),
    Rule('R2:project', r'self\s*\.project\(\)\s*\.', 'self.', flags=re.M | re.S, why='A-pin: projection is field access'),
    Rule('R3:in_flight_requests_mut', r'self\s*\.in_flight_requests_mut\(\)', 'self.in_flight_requests', flags=re.M | re.S, why='accessor = projection'),
    Rule('R3:canceled_requests_pin_mut', r'self\s*\.canceled_requests_pin_mut\(\)', 'self.canceled_requests', flags=re.M | re.S, why='accessor = projection'),
    Rule('R3:transport_pin_mut', r'self\s*\.transport_pin_mut\(\)', 'self.transport', flags=re.M | re.S, why='accessor = projection'),
    Rule('R3:channel_pin_mut', r'self\s*\.channel_pin_mut\(\)', 'self.channel', flags=re.M | re.S, why='accessor = projection'),
    Rule('R3:pending_responses_mut', r'self\s*\.pending_responses_mut\(\)', 'self.pending_responses', flags=re.M | re.S, why='accessor = projection'),
    Rule('R5:T-Error', r'(?:T|C)::Error', 'ChannelError<TErr>', why='channel/transport error type: every Channel in tarpc uses ChannelError<transport error>'),
    Rule('R5:Self-Error', r'Self::Error', 'ChannelError<TErr>', why='Sink::Error of the channel impls'),
    Rule('R5:fuse', r'Fuse<T>', 'Transport<Response<Resp>, ClientMessage<Req>>', why='prelude model of the fused transport'),
    Rule('R5:generic-T', r'BaseChannel<Req, Resp, T>', 'BaseChannel<Req, Resp>', why='transport type parameter erased (prelude model)'),
    Rule('R5:mpsc-receiver', r'mpsc::Receiver<Response<C::Resp>>', 'ResponseQueue<Response<C::Resp>>', why='prelude model of the response fan-in queue'),
    Rule('R5:mpsc-sender', r'mpsc::Sender<Response<(C::Resp|Res)>>', r'ResponseSender<Response<\1>>', why='prelude model of the response fan-in queue'),
    Rule('R5:assoc-resp', r'<C as Channel>::Resp', 'C::Resp', why='same type'),
    Rule('R9:chan-err', r'\|e\| ChannelError::(\w+)\(Arc::new\(e\)\)',
         r'|e: TErr| -> (r: ChannelError<TErr>) ensures r is \1 { ChannelError::\1(Arc::new(e)) }', why='closure postcondition = its head constructor'),
    Rule('R1:set-context', r'^[ \t]*span\.set_context\(&request\.context\);\n', '', why='A-otel: OpenTelemetry parent linkage'),
    Rule('R1:trace-id-fmt', r'^[ \t]*if !(self\.in_flight_requests\.cancel_request\(request_id(?:, Tracked\(fx\))?\)) \{\s*\}\n', r'        let _ = \1;\n',
         why='after R1 the `if !cancel_request(..) { trace!(..) }` has an empty block'),
]

# ------------------------------------------------------------------ the Channel contract
CH = dict(
    poll_next_req='''
        old(self).cinv(), // @core
        // serving a channel stops once it reported a sink failure or was closed (C09)
        !old(self).cv().failed && !old(self).cv().closed, // @core
    ''',
    poll_next_ens='''
        final(self).cinv(), // @core
        final(self).quiet() == old(self).quiet(), // @core
        // a channel whose reads are quiet never touches the sink side while reading (BaseChannel); a throttler may write throttle replies
        old(self).quiet() ==> final(self).cv().write_same(old(self).cv()), // @C08,C14
        final(self).cv().closed == old(self).cv().closed && old(self).cv().sent.len() <= final(self).cv().sent.len(), // @C08
        !(r matches Poll::Ready(Some(Err(_)))) ==> final(self).cv().failed == old(self).cv().failed, // @C09
        final(self).cv().read_done_stable(old(self).cv()), // @core
        // every poll of a channel polls its inbound side, i.e. processes due cancellations and expirations (C04, C06)
        !(r matches Poll::Ready(Some(Err(_)))) ==> final(self).cv().nr > old(self).cv().nr, // @C04,C06
        aborts_only(old(fx).log, final(fx).log), // @C04,C06
        r matches Poll::Ready(Some(Ok(t))) ==> final(self).cv().in_flight.contains(t.request.id) && final(self).cv().in_flight.remove(t.request.id).subset_of(old(self).cv().in_flight)
            && t.response_guard.request_id == t.request.id && !t.response_guard.cancel, // @C08,C11,C12
        !(r matches Poll::Ready(Some(Ok(_)))) ==> final(self).cv().in_flight.subset_of(old(self).cv().in_flight), // @C08
        r matches Poll::Ready(Some(Err(e))) ==> e is Read || (!old(self).quiet() && (e is Ready || e is Write)), // @C09
        r matches Poll::Ready(None) ==> final(self).cv().read_done && final(self).cv().in_flight.len() == 0, // @C10
        r is Pending ==> final(self).cv().read_reg || final(self).cv().read_done || (!old(self).quiet() && final(self).cv().ready_reg), // @C02
    ''',
    in_flight_req='self.cinv(), // @core',
    in_flight_ens='n == self.cv().in_flight.len(), // @C11,C12',
    poll_ready_req='old(self).cinv(), // @core',
    poll_ready_ens='''
        final(self).cinv() && final(self).quiet() == old(self).quiet() && final(self).cv().nr == old(self).cv().nr, // @core
        final(self).cv().in_flight == old(self).cv().in_flight && final(self).cv().sent == old(self).cv().sent && final(self).cv().unflushed == old(self).cv().unflushed && final(self).cv().closed == old(self).cv().closed
            && final(self).cv().flush_reg == old(self).cv().flush_reg && final(self).cv().read_reg == old(self).cv().read_reg && final(self).cv().read_done == old(self).cv().read_done, // @core
        r matches Poll::Ready(Ok(())) ==> final(self).cv().ready && final(self).cv().failed == old(self).cv().failed && final(self).cv().np == old(self).cv().np, // @C14
        r matches Poll::Ready(Err(e)) ==> final(self).cv().failed && e is Ready && final(self).cv().np == old(self).cv().np, // @C09
        r is Pending ==> final(self).cv().ready_reg && final(self).cv().failed == old(self).cv().failed && final(self).cv().ready == old(self).cv().ready && final(self).cv().np == old(self).cv().np + 1, // @C02,C14
    ''',
    start_send_req='''
        old(self).cinv(), // @core
        old(self).cv().ready, // @C14
        !old(self).cv().failed, // @C14
        !old(self).cv().closed, // @C14
    ''',
    start_send_ens='''
        final(self).cinv() && final(self).quiet() == old(self).quiet() && final(self).cv().nr == old(self).cv().nr, // @core
        final(self).cv().in_flight == old(self).cv().in_flight.remove(response.request_id), // @C08,C11
        final(self).cv().failed == old(self).cv().failed && final(self).cv().closed == old(self).cv().closed && final(self).cv().np == old(self).cv().np
            && final(self).cv().read_reg == old(self).cv().read_reg && final(self).cv().read_done == old(self).cv().read_done, // @core
        old(self).cv().in_flight.contains(response.request_id) && r is Ok ==> final(self).cv().sent == old(self).cv().sent.push(response) && final(self).cv().unflushed == old(self).cv().unflushed + 1, // @C08
        old(self).cv().in_flight.contains(response.request_id) && r is Err ==> final(self).cv().sent == old(self).cv().sent && final(self).cv().unflushed == old(self).cv().unflushed, // @C09
        r matches Err(e) ==> e is Write && old(self).cv().in_flight.contains(response.request_id), // @C09
        // C04/C08: a response for a request that is no longer tracked (cancelled, expired, already answered) is dropped
        !old(self).cv().in_flight.contains(response.request_id) ==> r is Ok && final(self).cv().sent == old(self).cv().sent && final(self).cv().unflushed == old(self).cv().unflushed
            && final(self).cv().ready == old(self).cv().ready && final(self).cv().flush_reg == old(self).cv().flush_reg, // @C04,C08
    ''',
    poll_flush_req='old(self).cinv(), // @core',
    poll_flush_ens='''
        final(self).cinv() && final(self).quiet() == old(self).quiet() && final(self).cv().nr == old(self).cv().nr, // @core
        final(self).cv().in_flight == old(self).cv().in_flight && final(self).cv().sent == old(self).cv().sent && final(self).cv().ready == old(self).cv().ready && final(self).cv().closed == old(self).cv().closed
            && final(self).cv().np == old(self).cv().np && final(self).cv().ready_reg == old(self).cv().ready_reg && final(self).cv().read_reg == old(self).cv().read_reg && final(self).cv().read_done == old(self).cv().read_done, // @core
        r matches Poll::Ready(Ok(())) ==> final(self).cv().unflushed == 0 && final(self).cv().failed == old(self).cv().failed, // @C14
        r matches Poll::Ready(Err(e)) ==> final(self).cv().failed && e is Flush, // @C09
        r is Pending ==> final(self).cv().flush_reg && final(self).cv().failed == old(self).cv().failed && final(self).cv().unflushed == old(self).cv().unflushed, // @C02,C14
    ''',
    poll_close_req='old(self).cinv(), // @core',
    poll_close_ens='''
        final(self).cinv() && final(self).quiet() == old(self).quiet() && final(self).cv().nr == old(self).cv().nr, // @core
        final(self).cv().in_flight == old(self).cv().in_flight && final(self).cv().sent == old(self).cv().sent && final(self).cv().np == old(self).cv().np
            && final(self).cv().read_reg == old(self).cv().read_reg && final(self).cv().read_done == old(self).cv().read_done, // @core
        r matches Poll::Ready(Ok(())) ==> final(self).cv().unflushed == 0 && final(self).cv().closed && final(self).cv().failed == old(self).cv().failed, // @C10,C14
        r matches Poll::Ready(Err(e)) ==> final(self).cv().failed && e is Close, // @C09
        r is Pending ==> final(self).cv().flush_reg && final(self).cv().failed == old(self).cv().failed && final(self).cv().closed == old(self).cv().closed && final(self).cv().unflushed == old(self).cv().unflushed, // @C02,C14
    ''',
)


def _ind(t, n=8):
    return '\n'.join(' ' * n + l.strip() for l in t.strip('\n').split('\n') if l.strip())


def strip_tags(t):
    return re.sub(r'\s*// @[\w,:\-]+\s*$', '', t, flags=re.M)


TRAIT = Raw('''
/// what a channel exposes to its decorators and to `Requests`
pub struct ChanView<Resp> {
    /// ids the channel reports as in flight
    pub in_flight: Set<u64>,
    /// responses written to the transport, in order
    pub sent: Seq<Response<Resp>>,
    pub ready: bool, pub failed: bool, pub closed: bool, pub unflushed: nat,
    pub flush_reg: bool, pub ready_reg: bool, pub read_reg: bool, pub read_done: bool, pub np: nat, pub nr: nat,
}
impl<Resp> ChanView<Resp> {
    pub open spec fn write_same(self, o: ChanView<Resp>) -> bool {
        self.sent == o.sent && self.ready == o.ready && self.failed == o.failed && self.closed == o.closed && self.unflushed == o.unflushed
        && self.flush_reg == o.flush_reg && self.ready_reg == o.ready_reg && self.np == o.np
    }
    pub open spec fn read_done_stable(self, o: ChanView<Resp>) -> bool { o.read_done ==> self.read_done }
}
/// the effect log was only extended by Abort effects (poll_next aborts handlers, nothing else)
pub open spec fn aborts_only(a: Seq<SEffect>, b: Seq<SEffect>) -> bool {
    &&& a.len() <= b.len()
    &&& forall|i: int| 0 <= i < a.len() ==> #[trigger] b[i] == a[i]
    &&& forall|i: int| a.len() <= i < b.len() ==> (#[trigger] b[i]) is Abort
}

/// Contract of `tarpc::server::Channel` (with its Stream<TrackedRequest> / Sink<Response> supertraits).
pub trait Channel: Sized {
    type Req;
    type Resp;
    spec fn cv(&self) -> ChanView<Self::Resp>;
    /// implementation invariant of the channel
    spec fn cinv(&self) -> bool;
    /// reading never touches the sink side (true for BaseChannel, false for a throttling decorator)
    spec fn quiet(&self) -> bool;

    fn in_flight_requests(&self) -> (n: usize)
        requires
%(in_flight_req)s
        ensures
%(in_flight_ens)s
    ;
    fn poll_next(&mut self, cx: &mut TaskCx, Tracked(fx): Tracked<&mut SFx>) -> (r: Poll<Option<Result<TrackedRequest<Self::Req>, ChannelError<TErr>>>>)
        requires
%(poll_next_req)s
        ensures
%(poll_next_ens)s
    ;
    fn poll_ready(&mut self, cx: &mut TaskCx) -> (r: Poll<Result<(), ChannelError<TErr>>>)
        requires
%(poll_ready_req)s
        ensures
%(poll_ready_ens)s
    ;
    fn start_send(&mut self, response: Response<Self::Resp>) -> (r: Result<(), ChannelError<TErr>>)
        requires
%(start_send_req)s
        ensures
%(start_send_ens)s
    ;
    fn poll_flush(&mut self, cx: &mut TaskCx) -> (r: Poll<Result<(), ChannelError<TErr>>>)
        requires
%(poll_flush_req)s
        ensures
%(poll_flush_ens)s
    ;
    fn poll_close(&mut self, cx: &mut TaskCx) -> (r: Poll<Result<(), ChannelError<TErr>>>)
        requires
%(poll_close_req)s
        ensures
%(poll_close_ens)s
    ;
}
''' % {k: _ind(v) for k, v in CH.items()})

BC_VOCAB = Raw('''
    type Req = Req;
    type Resp = Resp;
    open spec fn cv(&self) -> ChanView<Resp> {
        ChanView {
            in_flight: self.in_flight_requests@.dom(), sent: self.transport@.sent, ready: self.transport@.ready, failed: self.transport@.failed,
            closed: self.transport@.closed, unflushed: self.transport@.unflushed, flush_reg: self.transport@.flush_reg, ready_reg: self.transport@.ready_reg,
            read_reg: self.transport@.read_reg, read_done: self.transport@.read_done, np: self.transport@.np, nr: self.transport@.nr,
        }
    }
    open spec fn cinv(&self) -> bool { self.in_flight_requests.wf() }
    open spec fn quiet(&self) -> bool { true }
''')


def base_channel_parts():
    T = lambda impl, name, key, **kw: Fn(SRC, impl, name, requires=CH[key + '_req'], inherited_ensures=CH[key + '_ens'], ensures=kw.pop('ensures', ''), **kw)
    return [
        TypeItem(LIB, 'enum', 'ChannelError', rules=[Rule('R5:where-unsized', r'\nwhere\n\s*E: \?Sized,\n', '\n', flags=re.M, why='?Sized bound only matters for dyn upcasts')]),
        TypeItem(LIB, 'struct', 'Request'),
        TypeItem(LIB, 'enum', 'ClientMessage'),
        TypeItem(LIB, 'struct', 'Response'),
        TypeItem(SRC, 'struct', 'Config'),
        TypeItem(SRC, 'struct', 'ResponseGuard'),
        TypeItem(SRC, 'struct', 'TrackedRequest'),
        TypeItem(SRC, 'struct', 'BaseChannel', drop_fields=['ghost']),
        TRAIT,
        Impl('impl<Req, Resp> BaseChannel<Req, Resp>', fx_type='SFx', qual='BaseChannel', parts=[
            Fn(SRC, BC_IMPL, 'new', tags='C11',
               rules=[
                   Rule('R5:new-transport-param', r'transport: T\)', 'transport: Transport<Response<Resp>, ClientMessage<Req>>)', 1, where='sig', why='transport type parameter erased (prelude model)'),
                   Rule('R5:new-cancellations', r'= cancellations\(\);', '= cancellations_model();', 1, where='body', why='prelude model of crate::cancellations::cancellations()'),
                   Rule('R5:new-fuse', r'transport\.fuse\(\)', 'fuse_model(transport)', 1, where='body', why='A-sink: the transport model is the fused view'),
                   Rule('R5:new-ghost', r'^[ \t]*ghost: PhantomData,\n', '', 1, where='body', flags=re.M, why='PhantomData marker field (dropped from the struct: drop_fields)'),
               ],
               ensures='''
                 // the induction base: a new channel satisfies the channel invariant, tracks nothing and has not touched its transport
                 r.in_flight_requests.wf() && r.in_flight_requests@ =~= Map::<u64, SEntry>::empty(), // @C11,C08
                 r.transport@ == transport@ && r.config == config, // @C14
               ''',
               pre='broadcast use vstd::std_specs::hash::group_hash_axioms;'),
            Fn(SRC, BC_IMPL, 'start_request', tags='C08,C18',
               requires='old(self).in_flight_requests.wf(), // @core',
               ensures='''
                 final(self).in_flight_requests.wf(), // @core
                 final(self).transport == old(self).transport && final(self).canceled_requests == old(self).canceled_requests, // @core
                 old(self).in_flight_requests@.contains_key(request.id) ==> r is Err && final(self).in_flight_requests@ =~= old(self).in_flight_requests@ && final(self).in_flight_requests.timers() =~= old(self).in_flight_requests.timers(), // @C08
                 !old(self).in_flight_requests@.contains_key(request.id) ==> (r matches Ok(t) && final(self).in_flight_requests@ =~= old(self).in_flight_requests@.insert(request.id, SEntry { handle: t.abort_registration.id() })
                     && t.request.id == request.id && t.request.message == request.message && t.response_guard.request_id == request.id && !t.response_guard.cancel), // @C08,C11
                 // C07: the deadline the handler sees is the one received; C18: same trace id and sampling unless an OpenTelemetry layer supplies the context
                 r matches Ok(t) ==> t.request.context.deadline == request.context.deadline, // @C07
               '''),
        ]),
        Impl('impl<Req, Resp> Channel for BaseChannel<Req, Resp>', fx_type='SFx', trait_impl=True, qual='BaseChannel',
             canary_header='impl<Req, Resp> BaseChannel<Req, Resp>', parts=[
            BC_VOCAB,
            T(BC_CHAN, 'in_flight_requests', 'in_flight', ret='n', tags='C11',
              pre='proof { assert(self.in_flight_requests@.dom() =~= self.in_flight_requests.request_data@.dom()); }'),
            T(BC_STREAM, 'poll_next', 'poll_next', fx=True, tags='C04,C06,C08,C09,C10', attrs='#[verifier::exec_allows_no_decreases_clause]',
              hoist=[('enum', 'ReceiverStatus'), ('impl', 'ReceiverStatus')],
              hoist_contracts={'combine': '''        ensures r == (match (self, other) {
            (ReceiverStatus::Ready, _) | (_, ReceiverStatus::Ready) => ReceiverStatus::Ready,
            (ReceiverStatus::Closed, ReceiverStatus::Closed) => ReceiverStatus::Closed,
            _ => ReceiverStatus::Pending,
        })'''},
              rules=[
                  Rule('R4:use-enum', r'^[ \t]*use ReceiverStatus::\*;\n', '', '+', where='body', why='`use` inside a fn body: variants are written qualified instead'),
                  Rule('R4:qualify', r'(?<![:\w])(Ready|Pending|Closed)\b(?![\(\w])', r'ReceiverStatus::\1', '+', where='body', why='see R4:use-enum'),
                  Rule('R5:Self-Item', r'Self::Item', 'Result<TrackedRequest<Req>, ChannelError<TErr>>', 1, where='sig', why='Stream::Item of BaseChannel'),
              ],
              ensures='''
                // C08 (stronger than the trait): a request is yielded only for an id that was not tracked at that moment
                r matches Poll::Ready(Some(Ok(t))) ==> final(self).in_flight_requests@.contains_key(t.request.id) && final(self).in_flight_requests@[t.request.id].handle == t.abort_registration.id(), // @C08,C04
                // C10: the stream ends only when the inbound side ended and nothing is tracked or armed
                r matches Poll::Ready(None) ==> final(self).transport@.read_done && final(self).in_flight_requests.timers() =~= Map::<delay_queue::Key, delay_queue::Entry>::empty(), // @C10
                r is Pending ==> (final(self).transport@.read_reg || final(self).transport@.read_done) && (final(self).in_flight_requests@.dom().len() == 0 || final(self).in_flight_requests.timers_reg()), // @C02,C06
              ''',
              hints=[('match status {', '''
                  proof {
                      if expiration_status is Closed {
                          assert(self.in_flight_requests@.dom() =~= Set::<u64>::empty());
                      }
                  }
              ''', 'before')],
              loops=['''
                invariant
                    self.in_flight_requests.wf(), // @core
                    self.cv().write_same(old(self).cv()), // @C08
                    self.cv().read_done_stable(old(self).cv()), // @core
                    self.cv().in_flight.subset_of(old(self).cv().in_flight), // @C08
                    self.cv().nr >= old(self).cv().nr, // @C04,C06
                    aborts_only(old(fx).log, fx.log), // @C04,C06
              ''']),
            T(BC_SINK, 'poll_ready', 'poll_ready', tags='C14'),
            T(BC_SINK, 'start_send', 'start_send', tags='C08,C14'),
            T(BC_SINK, 'poll_flush', 'poll_flush', tags='C14'),
            T(BC_SINK, 'poll_close', 'poll_close', tags='C14'),
        ]),
    ]



MR_VOCAB = Raw('''
    type Req = C::Req;
    type Resp = C::Resp;
    open spec fn cv(&self) -> ChanView<C::Resp> { self.inner.cv() }
    /// the throttler is only correct over a channel whose reads do not consume sink readiness
    open spec fn cinv(&self) -> bool { self.inner.cinv() && self.inner.quiet() }
    open spec fn quiet(&self) -> bool { false }
''')

THROTTLE_VOCAB = Raw('''
/// the response is the throttle error (kind WouldBlock)
pub broadcast proof fn lemma_subset_len(a: Set<u64>, b: Set<u64>)
    requires #[trigger] a.subset_of(b)
    ensures a.len() <= b.len()
{ vstd::set_lib::lemma_len_subset(a, b); }
pub open spec fn is_throttle_reply<Resp>(r: Response<Resp>) -> bool { r.message matches Err(e) && e.kind is WouldBlock }
pub open spec fn throttle_only<Resp>(a: Seq<Response<Resp>>, b: Seq<Response<Resp>>) -> bool {
    &&& a.len() <= b.len()
    &&& forall|i: int| 0 <= i < a.len() ==> #[trigger] b[i] == a[i]
    &&& forall|i: int| a.len() <= i < b.len() ==> is_throttle_reply(#[trigger] b[i])
}
''')


KEEP = 'final(self).max_in_flight_requests == old(self).max_in_flight_requests, // @core'


def throttle_parts():
    T = lambda impl, name, key, **kw: Fn(THR, impl, name, requires=CH[key + '_req'], inherited_ensures=CH[key + '_ens'], ensures=kw.pop('ensures', ''), **kw)
    return [
        TypeItem(THR, 'struct', 'MaxRequests'),
        THROTTLE_VOCAB,
        Impl('impl<C: Channel> MaxRequests<C>', fx_type='SFx', qual='MaxRequests', parts=[
            Fn(THR, r'impl<C> MaxRequests<C> where C: Channel,', 'new', tags='C12',
               ensures='''
                 // the limiter starts out over exactly the channel and the limit it was given (its invariant is the inner channel's)
                 r.inner == inner && r.max_in_flight_requests == max_in_flight_requests, // @C12
                 inner.cinv() && inner.quiet() ==> r.cinv(), // @C12
               '''),
        ]),
        Impl('impl<C: Channel> Channel for MaxRequests<C>', fx_type='SFx', trait_impl=True, qual='MaxRequests', canary_header='impl<C: Channel> MaxRequests<C>', parts=[
            MR_VOCAB,
            T(MR_CHAN, 'in_flight_requests', 'in_flight', ret='n', tags='C12'),
            T(MR_STREAM, 'poll_next', 'poll_next', fx=True, tags='C12,C14,C16', attrs='#[verifier::exec_allows_no_decreases_clause]',
              pre='broadcast use lemma_subset_len;',
              rules=[
                  Rule('R5:Self-Item', r'Self::Item', 'Result<TrackedRequest<C::Req>, ChannelError<TErr>>', 1, where='sig', why='Stream::Item of the inner channel'),
                  Rule('R5:into-string', r'"[^"\n]*"\.into\(\)', 'detail_string("")', '*', where='body', why='string literal conversion (the text of an error detail is not interpreted)'),
                  Rule('R5:format-string', r'format!\((?:[^()]|\([^()]*\))*\)', 'detail_string("")', '*', where='body', flags=re.M | re.S, why='a formatted error detail is an opaque string (its text is not interpreted; formatting integers cannot fail)'),
                  Rule('R3:self-in-flight', r'self\.in_flight_requests\(\)', 'self.inner.in_flight_requests()', '+', where='body',
                       why='MaxRequests::in_flight_requests is the one-line delegation to inner (checked by its own contract)'),
              ],
              ensures='''
                // C12(a): the application is handed a request only while fewer than L *other* requests are in flight
                r matches Poll::Ready(Some(Ok(t))) ==> final(self).cv().in_flight.remove(t.request.id).len() < old(self).max_in_flight_requests, // @C12
                // C12(b): whatever the throttler writes while reading is a throttle error reply
                throttle_only(old(self).cv().sent, final(self).cv().sent), // @C12
                final(self).max_in_flight_requests == old(self).max_in_flight_requests, // @core
              ''',
              hints=[('self.start_send(Response {', '''
                  // C12(c): a request is refused only if L others really were in flight when it was read
                  proof { assert(self.inner.cv().in_flight.remove(r.request.id).len() >= self.max_in_flight_requests); } // @C12
              ''', 'before')],
              loops=['''
                invariant
                    self.inner.cinv() && self.inner.quiet(), // @core
                    !self.cv().failed && !self.cv().closed, // @core
                    self.max_in_flight_requests == old(self).max_in_flight_requests, // @core
                    self.cv().closed == old(self).cv().closed && self.cv().failed == old(self).cv().failed, // @core
                    throttle_only(old(self).cv().sent, self.cv().sent), // @C12
                    self.cv().in_flight.subset_of(old(self).cv().in_flight), // @C08
                    self.cv().read_done_stable(old(self).cv()), // @core
                    self.cv().nr >= old(self).cv().nr, // @core
                    aborts_only(old(fx).log, fx.log), // @C04,C06
              '''], loops_optional=True),
            T(MR_SINK, 'poll_ready', 'poll_ready', tags='C14', ensures=KEEP),
            T(MR_SINK, 'start_send', 'start_send', tags='C14', ensures=KEEP),
            T(MR_SINK, 'poll_flush', 'poll_flush', tags='C14', ensures=KEEP),
            T(MR_SINK, 'poll_close', 'poll_close', tags='C14', ensures=KEEP),
        ]),
    ]


RQ_VOCAB = Raw('''
    /// invariant of the request stream between polls: the channel is usable for writing
    pub open spec fn inv(&self) -> bool { self.channel.cinv() && !self.channel.cv().failed && !self.channel.cv().closed }
    pub open spec fn rest_same(&self, o: &Self) -> bool { self.pending_responses == o.pending_responses && self.responses_tx == o.responses_tx }
''')


def requests_parts():
    F = lambda impl, name, **kw: Fn(SRC, impl, name, **kw)
    return [
        TypeItem(SRC, 'struct', 'InFlightRequest'),
        TypeItem(SRC, 'struct', 'Requests', rules=[Rule('R5:where-channel', r'pub struct Requests<C>\nwhere\n\s*C: Channel,\n\{', 'pub struct Requests<C: Channel> {', 1, flags=re.M, why='where clause written inline')]),
        Impl('impl ResponseGuard', fx_type='SFx', qual='ResponseGuard', parts=[
            Fn(SRC, r'impl Drop for ResponseGuard', 'drop', fx=True, tags='C11',
               ensures='''
                 // C11: an armed guard hands the id to the channel's cancellation queue exactly once; a disarmed one does nothing
                 old(self).cancel ==> final(fx).log == old(fx).log.push(SEffect::CancelMsg { id: old(self).request_id }), // @C11
                 !old(self).cancel ==> final(fx).log == old(fx).log, // @C11,C08
               '''),
        ]),
        Impl('impl<Req, Res> InFlightRequest<Req, Res>', fx_type='SFx', qual='InFlightRequest', parts=[
            Raw('''
    /// execute() appended no cancellation to the log (the guard was disarmed on every completion path)
    pub open spec fn no_cancel_since(a: Seq<SEffect>, b: Seq<SEffect>) -> bool {
        a.len() <= b.len() && forall|i: int| a.len() <= i < b.len() ==> !((#[trigger] b[i]) is CancelMsg)
    }
'''),
            Fn(SRC, r'impl<Req, Res> InFlightRequest<Req, Res>', 'execute', fx=True, tags='C08,C11',
               rules=[
                   Rule('R5:serve-where', r'\n\s*where\n\s*Req: RequestName,\n\s*S: Serve<Req = Req, Resp = Res>,', '', 1, where='sig', flags=re.M, why='trait bounds of the handler erased (handler is opaque: serve_model)'),
                   Rule('R1:span-record', r'^[ \t]*span\.record\("otel\.name", message\.name\(\)\);\n', '', 1, where='body', why='A-tracing: span field'),
                   Rule('R5:serve-call', r'serve\.serve\(context, message\)\.await', 'serve_model(serve, context, message, Tracked(fx)).await', 1, where='body',
                        why='async trait fn call replaced by its opaque model (one handler invocation)'),
               ],
               abortable=dict(name='execute__body', generics='<S>', fx=True,
                              params='serve: S, context: context::Context, message: Req, request_id: u64, response_tx: ResponseSender<Response<Res>>',
                              call_args='serve, context, message, request_id, response_tx, Tracked(fx)', ret='()',
                              ensures='''
                                // C08: the handler is invoked exactly once and exactly one response, bearing the request's id, is handed over
                                final(fx).log == old(fx).log.push(SEffect::Handler).push(SEffect::Respond { id: request_id }), // @C08
                              ''', tags='C08'),
               drops_at_end=['response_guard'],
               requires='''
                 self.response_guard.cancel && self.response_guard.request_id == self.request.id, // @core
               ''',
               ensures='''
                 // C11/C08: once execute() has run to its end -- whether the handler completed or was aborted by the channel --
                 // the guard is disarmed: no cancellation is queued for an id the channel has already finished with
                 Self::no_cancel_since(old(fx).log, final(fx).log), // @C04,C08,C11,C12
                 // C08: at most one handler invocation and one response, for this request's id
                 final(fx).log == old(fx).log || final(fx).log == old(fx).log.push(SEffect::Handler).push(SEffect::Respond { id: self.request.id }), // @C08
               '''),
        ]),
        Impl('impl<C: Channel> Requests<C>', fx_type='SFx', qual='Requests', parts=[
            Fn(SRC, r'pub trait Channel where .*', 'requests', tags='C10,C14',
               rules=[
                   Rule('R5:requests-sig', r'fn requests\(self\) -> Requests<Self>\s*where\s*Self: Sized,', 'fn requests(this: C) -> Requests<C>', 1, where='sig', flags=re.M | re.S,
                        why='default method of the trait emitted as an associated function of Requests<C> (self by value -> a named parameter)'),
                   Rule('R5:requests-queue', r'mpsc::channel\(self\.config\(\)\.pending_response_buffer\)', 'response_queue_model()', 1, where='body',
                        why='prelude model of the response fan-in queue; the buffer size (a pure getter on the config) is not part of any contract'),
                   Rule('R5:requests-self', r'channel: self,', 'channel: this,', 1, where='body', why='see R5:requests-sig'),
               ],
               requires='this.cinv() && !this.cv().failed && !this.cv().closed, // @core (a channel that has not failed or been closed yet)',
               ensures='''
                 // the induction base of the request stream's invariant: it wraps exactly the given channel, which it has not touched
                 r.inv() && r.channel == this, // @core:C10,C14
                 !r.pending_responses@.drained, // @C10
               '''),

            RQ_VOCAB,
            F(RQ_IMPL, 'ensure_writeable', tags='C14',
              requires='old(self).inv(), // @core',
              ensures='''
                final(self).rest_same(old(self)) && final(self).channel.cinv() && final(self).channel.quiet() == old(self).channel.quiet(), // @core
                final(self).channel.cv().in_flight == old(self).channel.cv().in_flight && final(self).channel.cv().sent == old(self).channel.cv().sent && final(self).channel.cv().closed == old(self).channel.cv().closed
                    && final(self).channel.cv().read_done == old(self).channel.cv().read_done && final(self).channel.cv().read_reg == old(self).channel.cv().read_reg && final(self).channel.cv().nr == old(self).channel.cv().nr, // @core
                r matches Poll::Ready(Some(Ok(()))) ==> final(self).channel.cv().ready && !final(self).channel.cv().failed, // @C14,C09
                r matches Poll::Ready(Some(Err(e))) ==> final(self).channel.cv().failed && (e is Ready || e is Flush), // @C09
                !(r matches Poll::Ready(None)), // @core
                r is Pending ==> !final(self).channel.cv().failed && (final(self).channel.cv().flush_reg || final(self).channel.cv().ready_reg), // @C02,C14
                final(self).channel.cv().np <= old(self).channel.cv().np + 2, // @C14
              '''),
            F(RQ_IMPL, 'poll_next_response', tags='C14',
              requires='old(self).inv(), // @core',
              ensures='''
                final(self).responses_tx == old(self).responses_tx && final(self).channel.cinv() && final(self).channel.quiet() == old(self).channel.quiet(), // @core
                final(self).channel.cv().in_flight == old(self).channel.cv().in_flight && final(self).channel.cv().sent == old(self).channel.cv().sent && final(self).channel.cv().closed == old(self).channel.cv().closed
                    && final(self).channel.cv().read_done == old(self).channel.cv().read_done && final(self).channel.cv().read_reg == old(self).channel.cv().read_reg && final(self).channel.cv().nr == old(self).channel.cv().nr, // @core
                r matches Poll::Ready(Some(Ok(resp))) ==> final(self).channel.cv().ready && !final(self).channel.cv().failed, // @C14
                r matches Poll::Ready(Some(Err(e))) ==> final(self).channel.cv().failed && (e is Ready || e is Flush), // @C09
                r matches Poll::Ready(None) ==> final(self).pending_responses@.drained && !final(self).channel.cv().failed, // @C10
                r is Pending ==> !final(self).channel.cv().failed && (final(self).pending_responses@.reg || final(self).channel.cv().flush_reg || final(self).channel.cv().ready_reg), // @C02
              '''),
            F(RQ_IMPL, 'pump_read', fx=True, tags='C08,C11',
              lifts=[Lift(anchor=r'\.map_ok\(\s*\|(?P<arg>TrackedRequest \{[^|]*\})\| \{', name='pump_read__closure', adaptor='poll_map_ok_opt',
                          params='responses_tx: &ResponseSender<Response<C::Resp>>, request: Request<C::Req>, abort_registration: AbortRegistration, span: Span, mut response_guard: ResponseGuard',
                          call_args='&self.responses_tx, request, abort_registration, span, response_guard',
                          renames=[('self.responses_tx', 'responses_tx')],
                          ret='InFlightRequest<C::Req, C::Resp>',
                          ensures='''
                            // C11: the guard becomes active when the request becomes an InFlightRequest
                            r.response_guard.cancel && r.response_guard.request_id == response_guard.request_id, // @C11
                            r.request == request && r.abort_registration == abort_registration, // @C08
                          ''')],
              requires='old(self).inv(), // @core',
              ensures='''
                final(self).rest_same(old(self)) && final(self).channel.quiet() == old(self).channel.quiet(), // @core
                !(r matches Poll::Ready(Some(Err(_)))) ==> final(self).inv(), // @core
                aborts_only(old(fx).log, final(fx).log), // @C04,C06
                final(self).channel.cv().read_done_stable(old(self).channel.cv()), // @core
                r matches Poll::Ready(Some(Ok(h))) ==> final(self).channel.cv().in_flight.contains(h.request.id) && final(self).channel.cv().in_flight.remove(h.request.id).subset_of(old(self).channel.cv().in_flight)
                    && h.response_guard.cancel && h.response_guard.request_id == h.request.id, // @C08,C11
                !(r matches Poll::Ready(Some(Ok(_)))) ==> final(self).channel.cv().in_flight.subset_of(old(self).channel.cv().in_flight), // @C08
                r matches Poll::Ready(None) ==> final(self).channel.cv().read_done && final(self).channel.cv().in_flight.len() == 0, // @C10
                r matches Poll::Ready(Some(Err(e))) ==> e is Read || e is Ready || e is Write, // @C09
              '''),
            F(RQ_IMPL, 'pump_write', tags='C08,C10,C14',
              requires='old(self).inv(), // @core',
              ensures='''
                final(self).responses_tx == old(self).responses_tx && final(self).channel.quiet() == old(self).channel.quiet(), // @core
                !(r matches Poll::Ready(Some(Err(_)))) ==> final(self).inv(), // @core
                final(self).channel.cv().in_flight.subset_of(old(self).channel.cv().in_flight), // @C08,C11
                final(self).channel.cv().read_done == old(self).channel.cv().read_done && final(self).channel.cv().nr == old(self).channel.cv().nr, // @core
                // C08: at most one response is forwarded per pass, and only through the channel's start_send (which drops untracked ids)
                final(self).channel.cv().sent == old(self).channel.cv().sent || (exists|resp: Response<C::Resp>| old(self).channel.cv().in_flight.contains(resp.request_id) && !final(self).channel.cv().in_flight.contains(resp.request_id)
                    && final(self).channel.cv().sent == old(self).channel.cv().sent.push(resp)), // @C08
                r matches Poll::Ready(Some(Err(e))) ==> (final(self).channel.cv().failed && (e is Ready || e is Flush)) || e is Write, // @C09
                // C10: the write pump finishes only when everything written is flushed and either the fan-in queue is gone or (inbound closed and nothing in flight)
                r matches Poll::Ready(None) ==> final(self).channel.cv().unflushed == 0 && (final(self).pending_responses@.drained || (read_half_closed && final(self).channel.cv().in_flight.len() == 0)), // @C10
                r is Pending ==> final(self).channel.cv().unflushed == 0 || final(self).channel.cv().flush_reg, // @C14
              '''),
            F(RQ_STREAM, 'poll_next', fx=True, tags='C08,C10,C14', attrs='#[verifier::exec_allows_no_decreases_clause]',
              rules=[
                  Rule('R1:identity-map-err', r'\.map_err\(\|e\| \{\s*e\s*\}\)', '', 2, where='body', flags=re.M | re.S, why='after R1 the closure only returned its argument'),
                  Rule('R5:Self-Item', r'Self::Item', 'Result<InFlightRequest<C::Req, C::Resp>, ChannelError<TErr>>', 1, where='sig', why='Stream::Item of Requests'),
                  Rule('R5:at-pattern', r'\(read @ Poll::Pending, write\) \| \(read, write @ Poll::Pending\) => \{', '(Poll::Pending, _) | (_, Poll::Pending) => {', 1, where='body',
                       why='the @-bindings were only used by the dropped trace statement'),
              ],
              requires='old(self).inv(), // @core',
              ensures='''
                !(r matches Poll::Ready(Some(Err(_)))) ==> final(self).inv(), // @core
                aborts_only(old(fx).log, final(fx).log), // @C04,C06
                r matches Poll::Ready(Some(Ok(h))) ==> h.response_guard.cancel && h.response_guard.request_id == h.request.id, // @C11
                r matches Poll::Ready(Some(Err(e))) ==> e is Read || e is Write || e is Ready || e is Flush, // @C09
                // C10: the request stream ends only when inbound ended, nothing is in flight and everything written is flushed
                r matches Poll::Ready(None) ==> final(self).channel.cv().read_done && final(self).channel.cv().unflushed == 0 && (final(self).channel.cv().in_flight.len() == 0 || final(self).pending_responses@.drained), // @C10
                r is Pending ==> final(self).channel.cv().unflushed == 0 || final(self).channel.cv().flush_reg, // @C14
              ''',
              loops=['''
                invariant
                    self.inv(), // @core
                    aborts_only(old(fx).log, fx.log), // @C04,C06
              ''']),
        ]),
    ]

def unit():
    return Unit('server', prelude=['base.rs', 'time.rs', 'delay_queue.rs', 'server_models.rs', 'hash_iter.rs', 'trace_models.rs', 'transport.rs', 'server_queues.rs', 'cancellations.rs'],
                parts=server_table.parts() + base_channel_parts() + throttle_parts() + requests_parts(), rules=RULES,
                fx_fns=server_table.FX_CALLS + [r'(?:inner|channel)\s*\.poll_next\(', r'\.pump_read\('],
                fx_prims=[r'request_cancellation\.cancel\(', r'response_tx\.send\('], fx_type='SFx',
                accessor_guards=[
                    (SRC, BC_IMPL, 'in_flight_requests_mut', r'\{\s*self\.as_mut\(\)\.project\(\)\.in_flight_requests\s*\}'),
                    (SRC, BC_IMPL, 'canceled_requests_pin_mut', r'\{\s*self\.as_mut\(\)\.project\(\)\.canceled_requests\s*\}'),
                    (SRC, BC_IMPL, 'transport_pin_mut', r'\{\s*self\.as_mut\(\)\.project\(\)\.transport\s*\}'),
                    (SRC, RQ_IMPL, 'channel_pin_mut', r'\{\s*self\.as_mut\(\)\.project\(\)\.channel\s*\}'),
                    (SRC, RQ_IMPL, 'pending_responses_mut', r'\{\s*self\.as_mut\(\)\.project\(\)\.pending_responses\s*\}'),
                ], lemmas=['server_history.rs'])
