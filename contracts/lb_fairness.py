"""Unit `lb_fairness` — lemma-only unit: the C20 fairness corollary over the contract of
`round_robin::cycle::State::next` (which Kani proves on the real code)."""
from vx.extract import Unit


def unit():
    return Unit('lb_fairness', prelude=[], parts=[], lemmas=['round_robin_fair.rs'],
                header='use vstd::arithmetic::div_mod::*;\n')
