"""Unit `lb_fairness` — the load-balancing stubs of tarpc/src/client/stub/load_balance.rs under contract for EVERY
number of backends (the Kani harnesses k5_* enumerate 1..=4 / 1..=3): `cycle::State::next`, `AtomicCycle::next`,
`RoundRobin::call`, `ConsistentHash::call`; plus the C20 fairness corollary as a lemma over the contract of `next`."""
import re
from vx.extract import Fn, Impl, Raw, Rule, TypeItem, Unit

SRC = 'tarpc/src/client/stub/load_balance.rs'
LX = 'Tracked(lx): Tracked<&mut HLog<Req, Resp>>'

CALL_RULES = [
    Rule('R5:assoc-resp', r'Stub::Resp', 'Resp', where='sig', why='associated type of the backing stub written as a type parameter'),
    Rule('R5:assoc-req', r'Self::Req', 'Req', where='sig', why='associated type of the impl (type Req = Stub::Req)'),
    Rule('R6:lx', r'\b(\w+)\.call\(ctx, request\)', r'\1.call(ctx, request, Tracked(lx))', 1, where='body', why='ghost log of the calls on the backing stubs'),
]


def unit():
    return Unit('lb_fairness', prelude=['atomic_counter.rs', 'lb_models.rs'], lemmas=['round_robin_fair.rs'], fx_type='CFx',
                header='use vstd::arithmetic::div_mod::*;\n',
                fx_prims=[r'self\.next\.fetch_add\('], fx_fns=[r'\.next\('],
                rules=[Rule('R5:fetch-add', r'fetch_add\(1, Ordering::Relaxed\)', 'fetch_add(1)', why='prelude model of the atomic counter (the ordering argument only concerns other memory)')],
                parts=[
        TypeItem(SRC, 'struct', 'State'),
        TypeItem(SRC, 'struct', 'AtomicCycle'),
        TypeItem(SRC, 'struct', 'RoundRobin', attrs='#[verifier::reject_recursive_types(Req)] #[verifier::reject_recursive_types(Resp)]', rules=[
            Rule('R5:rr-generics', r'pub struct RoundRobin<Stub>', 'pub struct RoundRobin<Req, Resp>', 1, why='the backing stub type is instantiated with the opaque model'),
            Rule('R5:rr-stubs', r'AtomicCycle<Stub>', 'AtomicCycle<HStub<Req, Resp>>', 1, why='see R5:rr-generics'),
        ]),
        TypeItem(SRC, 'struct', 'ConsistentHash', attrs='#[verifier::reject_recursive_types(Req)] #[verifier::reject_recursive_types(Resp)]', rules=[
            Rule('R5:ch-generics', r'pub struct ConsistentHash<Stub, S = RandomState>', 'pub struct ConsistentHash<Req, Resp>', 1, why='the backing stub type and the BuildHasher are instantiated with opaque models'),
            Rule('R5:ch-stubs', r'stubs: Vec<Stub>,', 'stubs: Vec<HStub<Req, Resp>>,', 1, why='see R5:ch-generics'),
            Rule('R5:ch-hasher', r'hasher: S,', 'hasher: HasherS,', 1, why='see R5:ch-generics'),
        ]),
        Impl('impl<T> State<T>', qual='cycle::State', parts=[
            Fn(SRC, r'impl<T> State<T>', 'next', fx=True, tags='C20,C16',
               requires='self.elements@.len() > 0, // @core',
               ensures='''
                 // C20: the call that draws counter value c goes to backend c % n, for every n; every call advances the shared counter by exactly one
                 *r == self.elements@[(old(fx).value as int) % (self.elements@.len() as int)], // @C20
                 final(fx).value == (if old(fx).value == usize::MAX { 0usize } else { (old(fx).value + 1) as usize }), // @C20
               '''),
        ]),
        Impl('impl<T> AtomicCycle<T>', qual='cycle::AtomicCycle', parts=[
            Fn(SRC, r'impl<T> AtomicCycle<T>', 'next', fx=True, tags='C20,C16',
               requires='self.0.elements@.len() > 0, // @core',
               ensures='''
                 *r == self.0.elements@[(old(fx).value as int) % (self.0.elements@.len() as int)], // @C20
                 final(fx).value == (if old(fx).value == usize::MAX { 0usize } else { (old(fx).value + 1) as usize }), // @C20
               '''),
        ]),
        Impl('impl<Req, Resp> RoundRobin<Req, Resp>', qual='RoundRobin', parts=[
            Fn(SRC, r'impl<Stub> stub::Stub for RoundRobin<Stub> where Stub: stub::Stub,', 'call', fx=True, tags='C20', extra_params=LX, rules=CALL_RULES,
               requires='self.stubs.0.elements@.len() > 0, // @core',
               ensures='''
                 // C20: exactly one call, on the backend the shared cursor selects, with the caller's context and request; its answer is passed through
                 final(lx).log == old(lx).log.push(HCall { stub: self.stubs.0.elements@[(old(fx).value as int) % (self.stubs.0.elements@.len() as int)].id(), ctx, request, result: r }), // @C20,C07,C18
                 final(fx).value == (if old(fx).value == usize::MAX { 0usize } else { (old(fx).value + 1) as usize }), // @C20
               '''),
        ]),
        Impl('impl<Req, Resp> ConsistentHash<Req, Resp>', qual='ConsistentHash', parts=[
            Fn(SRC, r'impl<Stub, S> stub::Stub for ConsistentHash<Stub, S> where .*', 'call', tags='C20,C16', extra_params=LX,
               rules=CALL_RULES + [
                   Rule('R5:hash-request', r'self\.hash_request\(&request\)', 'hash_request_model(&self.hasher, &request)', 1, where='body',
                        why='hash_request (BuildHasher::build_hasher, Hash::hash, Hasher::finish: trait-generic std calls) is modelled as a function of hasher and request (A-hash)'),
                   Rule('R5:try-from-expect', r'usize::try_from\(([^;]*?)\)\.expect\(\s*"(?:[^"\\]|\\.)*",?\s*\)', r'usize_try_from_expect(\1)', 1, where='body', flags=re.M | re.S,
                        why='`usize::try_from(x).expect(..)` as a call with the precondition that x fits (panic freedom obligation)'),
               ],
               hints=[('let index = usize_try_from_expect(', 'proof { lemma_mod_bound(hash_of(&self.hasher, &request) as int, self.stubs_len as int); assert(self.stubs.len() == self.stubs@.len()); }', 'before')],
               requires='self.stubs_len == self.stubs@.len() && self.stubs@.len() > 0, // @core (established by new / with_hasher for a non-empty list)',
               ensures='''
                 // C20: exactly one call, on the backend hash(request) % n -- a function of the request and the hasher only -- with the caller's context and request; its answer is passed through
                 final(lx).log == old(lx).log.push(HCall { stub: self.stubs@[(hash_of(&self.hasher, &request) as int) % (self.stubs@.len() as int)].id(), ctx, request, result: r }), // @C20,C07,C18
               '''),
        ]),
    ])
