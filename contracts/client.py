"""Unit `client` — client in-flight table (U1) + RequestDispatch (U3) of tarpc/src/client.rs in
one file, so that the dispatch functions are checked against the *proved* contracts of the
table functions (no assumed copy of them)."""
import re
from vx.extract import Fn, Impl, Lift, Raw, Rule, TypeItem, Unit
from contracts import client_table

SRC = 'tarpc/src/client.rs'
LIB = 'tarpc/src/lib.rs'
IMPL = r'impl<Req, Resp, C> RequestDispatch<Req, Resp, C> where C: Transport<ClientMessage<Req>, Response<Resp>>,'
FXT = 'Fx<Result<Resp, RpcError>>'

RULES = client_table.TABLE_RULES + [
    # R2 pin erasure in bodies
    Rule('R2:as-mut', r'self\s*\.as_mut\(\)\s*\.', 'self.', flags=re.M | re.S, why='A-pin: re-borrow of the pinned self'),
    # R3 accessor inlining (accessor bodies are checked by ACCESSOR_GUARDS below)
    Rule('R3:transport_pin_mut', r'self\s*\.transport_pin_mut\(\)', 'self.transport', flags=re.M | re.S, why='accessor = projection of field transport'),
    Rule('R3:in_flight_requests', r'self\s*\.in_flight_requests\(\)', 'self.in_flight_requests', flags=re.M | re.S, why='accessor = projection of field in_flight_requests'),
    Rule('R3:pending_requests_mut', r'self\s*\.pending_requests_mut\(\)', 'self.pending_requests', flags=re.M | re.S, why='accessor = projection of field pending_requests'),
    Rule('R3:terminal_error_mut-assign', r'\*self\s*\.terminal_error_mut\(\)', 'self.terminal_error', flags=re.M | re.S, why='accessor = projection of field terminal_error'),
    Rule('R3:terminal_error_mut', r'self\s*\.terminal_error_mut\(\)', '(&mut self.terminal_error)', flags=re.M | re.S, why='accessor = projection of field terminal_error'),
    Rule('R3:canceled_requests_mut', r'self\s*\.canceled_requests_mut\(\)', 'self.canceled_requests', flags=re.M | re.S, why='accessor = projection of field canceled_requests'),
    Rule('R7:poll_next_unpin', r'\.poll_next_unpin\(cx\)', '.poll_next(cx)', why='StreamExt::poll_next_unpin = Pin::new(self).poll_next'),
    # R5 type substitutions
    Rule('R5:C-Error', r'C::Error', 'TErr', why='the transport error type is opaque'),
    Rule('R5:dyn-error', r"dyn std::error::Error \+ Send \+ Sync \+ 'static", 'TErr', why='upcast error object is opaque'),
    Rule('R5:fuse', r'Fuse<C>', 'Transport<ClientMessage<Req>, Response<Resp>>', why='prelude model of the fused transport'),
    Rule('R5:mpsc-receiver', r'mpsc::Receiver<DispatchRequest<Req, Resp>>', 'PendingRequests<Req, Resp>', why='prelude model of the request queue'),
    Rule('R5:generic-C', r'RequestDispatch<Req, Resp, C>', 'RequestDispatch<Req, Resp>', why='transport type parameter erased (prelude model)'),
    # R9 closure annotation (derived from the closure's own head constructor)
    Rule('R9:chan-err', r'\|e\| ChannelError::(\w+)\(Arc::new\(e\)\)',
         r'|e: TErr| -> (r: ChannelError<TErr>) ensures r is \1 { ChannelError::\1(Arc::new(e)) }', why='closure postcondition = its head constructor'),
    Rule('R9:deadline-err', r'\|\| Err\(RpcError::DeadlineExceeded\)',
         r'|| -> (r: Result<Resp, RpcError>) ensures r == Err::<Resp, RpcError>(RpcError::DeadlineExceeded) { Err(RpcError::DeadlineExceeded) }',
         why='closure postcondition = its (constant) body'),
    Rule('R9:eta-server', r'\.map_err\(RpcError::Server\)', r'.map_err(|e: ServerError| -> (r: RpcError) ensures r == RpcError::Server(e) { RpcError::Server(e) })',
         why='constructor passed as a function, eta-expanded'),
]

def _complete_all_repl(m):
    """R11/R9: computed replacement for the consumer of complete_all_requests (see the rule's `why`)."""
    expr, ctor, args = m.group('expr'), m.group('ctor'), m.group('args')
    if ctor == 'Channel' and args is not None and re.sub(r'\s+', '', args) == '(e.clone())':
        ens = 'r matches Err(RpcError::Channel(c)) && c == *e__ref'
    elif args is not None:
        ens = 'r matches Err(RpcError::%s(..))' % ctor
    else:
        ens = 'r == Err::<Resp, RpcError>(RpcError::%s)' % ctor
    return ('let e__ref = &e;\n'
            '        let result__f = || -> (r: Result<Resp, RpcError>) ensures %s { %s };\n'
            '        self.in_flight_requests.complete_all_requests(result__f, Tracked(fx));' % (ens, expr))


TYPE_RULES = [
    Rule('R5:where-unsized', r'\nwhere\n\s*E: \?Sized,\n', '\n', flags=re.M, why='?Sized bound only matters for dyn upcasts'),
]

VOCAB = Raw('''
pub open spec fn is_req_for<Req>(m: ClientMessage<Req>, id: u64) -> bool { m matches ClientMessage::Request(r) && r.id == id }
/// a Request message with this id has been written to the transport
pub open spec fn has_req<Req>(sent: Seq<ClientMessage<Req>>, id: u64) -> bool {
    exists|i: int| 0 <= i < sent.len() && is_req_for(#[trigger] sent[i], id)
}
pub open spec fn sub(a: Map<u64, CEntry>, b: Map<u64, CEntry>) -> bool { forall|k: u64| #[trigger] a.contains_key(k) ==> b.contains_key(k) && a[k] == b[k] }
/// what the waiting call receives for a response read off the wire
pub open spec fn deliverable<Resp>(m: Result<Resp, ServerError>) -> Result<Resp, RpcError> {
    match m { Ok(b) => Ok(b), Err(e) => Err(RpcError::Server(e)) }
}
pub broadcast proof fn lemma_has_req_push<Req>(s: Seq<ClientMessage<Req>>, w: ClientMessage<Req>, id: u64)
    requires has_req(s, id)
    ensures #[trigger] has_req(s.push(w), id)
{
    let i = choose|i: int| 0 <= i < s.len() && is_req_for(#[trigger] s[i], id);
    assert(s.push(w)[i] == s[i]);
}
pub broadcast proof fn lemma_has_req_new<Req>(s: Seq<ClientMessage<Req>>, w: ClientMessage<Req>, id: u64)
    requires is_req_for(w, id)
    ensures #[trigger] has_req(s.push(w), id)
{
    assert(is_req_for(s.push(w)[s.len() as int], id));
}
/// the effect log was only extended by deliveries of RpcError::Channel errors
pub open spec fn channel_errors_only<Resp>(a: Seq<Effect<Result<Resp, RpcError>>>, b: Seq<Effect<Result<Resp, RpcError>>>) -> bool {
    &&& a.len() <= b.len()
    &&& forall|i: int| 0 <= i < a.len() ==> #[trigger] b[i] == a[i]
    &&& forall|i: int| a.len() <= i < b.len() ==> ((#[trigger] b[i]) matches Effect::Deliver { value: Err(RpcError::Channel(_)), .. })
}
impl<E> ChannelError<E> {
    /// `impl Clone for ChannelError` (clones the Arc): same value
    #[verifier::external_body]
    pub fn clone(&self) -> (r: Self) ensures r == *self { unimplemented!() }
    /// `upcast_error` / `upcast_any` / `downcast`: change only the (erased) type of the source error; the activity
    /// variant and the Arc are kept. `downcast` of what `poll` itself stored always succeeds (A-downcast: the
    /// field is only populated by RequestDispatch::poll with a C::Error).
    #[verifier::external_body]
    pub fn upcast_error(self) -> (r: Self) ensures r == self { unimplemented!() }
    #[verifier::external_body]
    pub fn upcast_any(self) -> (r: Self) ensures r == self { unimplemented!() }
    #[verifier::external_body]
    pub fn downcast(self) -> (r: Result<Self, Self>) ensures r == Ok::<Self, Self>(self) { unimplemented!() }
}
pub broadcast group group_wire { lemma_has_req_push, lemma_has_req_new }
pub broadcast proof fn lemma_remove_len(m: Map<u64, CEntry>, k: u64)
    ensures #[trigger] m.remove(k).dom().len() <= m.dom().len()
{
    if m.contains_key(k) { m.lemma_remove_key_len(k); } else { assert(m.remove(k) =~= m); }
}
pub broadcast proof fn lemma_insert_len(m: Map<u64, CEntry>, k: u64, v: CEntry)
    requires !m.contains_key(k)
    ensures #[trigger] m.insert(k, v).dom().len() == m.dom().len() + 1
{
    assert(m.insert(k, v).dom() =~= m.dom().insert(k));
}
''')

IMPL_VOCAB = Raw('''
    /// dispatch invariant (holds between any two calls of the poll functions)
    pub open spec fn inv(&self) -> bool {
        &&& self.in_flight_requests.wf()
        // C03: everything in flight has had its Request written
        &&& forall|id: u64| #[trigger] self.in_flight_requests@.contains_key(id) ==> has_req(self.transport@.sent, id)
        // ids in flight were taken from the queue, so a freshly dequeued id is not in flight (A-ids)
        &&& forall|id: u64| #[trigger] self.in_flight_requests@.contains_key(id) ==> self.pending_requests@.taken.contains(id)
        // C11: bounded
        &&& self.in_flight_requests@.dom().len() <= self.config.max_in_flight_requests
        // C09/C14: after a reported transport failure the dispatch is not in this state any more
        &&& !self.transport@.failed
        // C10: the transport is closed only after both queues were closed and drained
        &&& self.transport@.closed ==> self.pending_requests@.drained && self.canceled_requests@.drained
    }
    /// everything except the transport is unchanged
    pub open spec fn frame_tr(&self, o: &Self) -> bool {
        &&& self.in_flight_requests == o.in_flight_requests && self.pending_requests == o.pending_requests
        &&& self.canceled_requests == o.canceled_requests && self.config == o.config && self.terminal_error == o.terminal_error
    }
    /// read-side and bookkeeping fields of the transport unchanged
    pub open spec fn tr_read_same(&self, o: &Self) -> bool {
        self.transport@.read_reg == o.transport@.read_reg && self.transport@.read_done == o.transport@.read_done
    }
    /// write-side fields of the transport unchanged
    pub open spec fn tr_write_same(&self, o: &Self) -> bool {
        &&& self.transport@.sent == o.transport@.sent && self.transport@.ready == o.transport@.ready && self.transport@.failed == o.transport@.failed
        &&& self.transport@.closed == o.transport@.closed && self.transport@.unflushed == o.transport@.unflushed && self.transport@.flush_reg == o.transport@.flush_reg
        &&& self.transport@.ready_reg == o.transport@.ready_reg && self.transport@.np == o.transport@.np
    }
    /// the in-flight table is observably unchanged (its representation may have been compacted)
    pub open spec fn table_same(&self, o: &Self) -> bool {
        self.in_flight_requests@ =~= o.in_flight_requests@ && self.in_flight_requests.timers() =~= o.in_flight_requests.timers()
    }
    pub open spec fn at_capacity(&self) -> bool { self.in_flight_requests@.dom().len() >= self.config.max_in_flight_requests }
''')

WRAP_FRAME = 'final(self).frame_tr(old(self)) && final(self).tr_read_same(old(self)), // @core\n'


def dispatch_parts():
    F = lambda name, **kw: Fn(SRC, IMPL, name, **kw)
    return [
        TypeItem(LIB, 'enum', 'ChannelError', rules=TYPE_RULES, attrs='#[derive(Debug)]'),
        TypeItem(SRC, 'enum', 'RpcError'),
        TypeItem(LIB, 'struct', 'Request', rules=[]),
        TypeItem(LIB, 'enum', 'ClientMessage'),
        TypeItem(LIB, 'struct', 'Response'),
        TypeItem(SRC, 'struct', 'Config'),
        TypeItem(SRC, 'struct', 'DispatchRequest'),
        TypeItem(SRC, 'struct', 'RequestDispatch', rules=[Rule('R5:any-error', r"ChannelError<dyn Any \+ Send \+ Sync \+ 'static>", 'ChannelError<TErr>', 1, why='type-erased error object is opaque (same model type)')]),
        VOCAB,
        Impl('impl<Req, Resp> RequestDispatch<Req, Resp>', fx_type=FXT, parts=[
            IMPL_VOCAB,
            F('poll_ready', tags='C14',
              ensures=WRAP_FRAME + '''
                final(self).transport@.sent == old(self).transport@.sent && final(self).transport@.unflushed == old(self).transport@.unflushed && final(self).transport@.closed == old(self).transport@.closed && final(self).transport@.flush_reg == old(self).transport@.flush_reg, // @core
                r matches Poll::Ready(Ok(())) ==> final(self).transport@.ready && final(self).transport@.failed == old(self).transport@.failed && final(self).transport@.np == old(self).transport@.np, // @C14
                r matches Poll::Ready(Err(e)) ==> final(self).transport@.failed && e is Ready && final(self).transport@.np == old(self).transport@.np, // @C09
                r is Pending ==> final(self).transport@.ready_reg && final(self).transport@.failed == old(self).transport@.failed && final(self).transport@.ready == old(self).transport@.ready && final(self).transport@.np == old(self).transport@.np + 1, // @C02,C14
              '''),
            F('start_send', tags='C14',
              requires='''
                old(self).transport@.ready, // @C14
                !old(self).transport@.failed, // @C14
                !old(self).transport@.closed, // @C14
              ''',
              ensures=WRAP_FRAME + '''
                !final(self).transport@.ready && final(self).transport@.failed == old(self).transport@.failed && final(self).transport@.closed == old(self).transport@.closed && final(self).transport@.np == old(self).transport@.np, // @core
                r is Ok ==> final(self).transport@.sent == old(self).transport@.sent.push(message) && final(self).transport@.unflushed == old(self).transport@.unflushed + 1, // @C14,C03
                r is Err ==> final(self).transport@.sent == old(self).transport@.sent && final(self).transport@.unflushed == old(self).transport@.unflushed, // @C09
              '''),
            F('poll_flush', tags='C14',
              ensures=WRAP_FRAME + '''
                final(self).transport@.sent == old(self).transport@.sent && final(self).transport@.ready == old(self).transport@.ready && final(self).transport@.closed == old(self).transport@.closed && final(self).transport@.np == old(self).transport@.np && final(self).transport@.ready_reg == old(self).transport@.ready_reg, // @core
                r matches Poll::Ready(Ok(())) ==> final(self).transport@.unflushed == 0 && final(self).transport@.failed == old(self).transport@.failed, // @C14
                r matches Poll::Ready(Err(e)) ==> final(self).transport@.failed && e is Flush, // @C09
                r is Pending ==> final(self).transport@.flush_reg && final(self).transport@.failed == old(self).transport@.failed && final(self).transport@.unflushed == old(self).transport@.unflushed, // @C02,C14
              '''),
            F('poll_close', tags='C14',
              ensures=WRAP_FRAME + '''
                final(self).transport@.sent == old(self).transport@.sent && final(self).transport@.np == old(self).transport@.np, // @core
                r matches Poll::Ready(Ok(())) ==> final(self).transport@.unflushed == 0 && final(self).transport@.closed && final(self).transport@.failed == old(self).transport@.failed, // @C10,C14
                r matches Poll::Ready(Err(e)) ==> final(self).transport@.failed && e is Close, // @C09
                r is Pending ==> final(self).transport@.flush_reg && final(self).transport@.failed == old(self).transport@.failed && final(self).transport@.closed == old(self).transport@.closed && final(self).transport@.unflushed == old(self).transport@.unflushed, // @C02,C14
              '''),
            F('complete', fx=True, tags='C01',
              requires='old(self).inv(), // @core',
              ensures='''
                final(self).inv(), // @core
                final(self).transport == old(self).transport && final(self).pending_requests == old(self).pending_requests && final(self).canceled_requests == old(self).canceled_requests && final(self).config == old(self).config && final(self).terminal_error == old(self).terminal_error, // @core
                final(self).in_flight_requests@ =~= old(self).in_flight_requests@.remove(response.request_id), // @C01,C11
                r == old(self).in_flight_requests@.contains_key(response.request_id), // @C01
                old(self).in_flight_requests@.contains_key(response.request_id) ==> final(fx).log == old(fx).log.push(Effect::Deliver { chan: old(self).in_flight_requests@[response.request_id].chan, value: deliverable(response.message) }), // @C01
                !old(self).in_flight_requests@.contains_key(response.request_id) ==> final(fx).log == old(fx).log, // @C01,C16
              ''',
              pre='broadcast use lemma_remove_len;'),
            F('pump_read', fx=True, tags='C01',
              lifts=[Lift(anchor=r'\.map_ok\(\|(?P<arg>response)\| \{', name='pump_read__closure', adaptor='poll_map_ok_opt', call_self=True,
                          params='&mut self, response: Response<Resp>', call_args='response', ret='()', fx=True,
                          requires='old(self).inv(), // @core',
                          ensures='''
                            final(self).inv(), // @core
                            final(self).transport == old(self).transport && final(self).pending_requests == old(self).pending_requests && final(self).canceled_requests == old(self).canceled_requests && final(self).config == old(self).config && final(self).terminal_error == old(self).terminal_error, // @core
                            final(self).in_flight_requests@ =~= old(self).in_flight_requests@.remove(response.request_id), // @C01,C11
                            old(self).in_flight_requests@.contains_key(response.request_id) ==> final(fx).log == old(fx).log.push(Effect::Deliver { chan: old(self).in_flight_requests@[response.request_id].chan, value: deliverable(response.message) }), // @C01
                            !old(self).in_flight_requests@.contains_key(response.request_id) ==> final(fx).log == old(fx).log, // @C01,C16
                          ''')],
              requires='old(self).inv(), // @core',
              ensures='''
                final(self).inv(), // @core
                final(self).terminal_error == old(self).terminal_error, // @core
                final(self).tr_write_same(old(self)) && final(self).pending_requests == old(self).pending_requests && final(self).canceled_requests == old(self).canceled_requests && final(self).config == old(self).config, // @core
                r matches Poll::Ready(Some(Ok(()))) ==> exists|resp: Response<Resp>| final(self).in_flight_requests@ =~= old(self).in_flight_requests@.remove(resp.request_id)
                    && (old(self).in_flight_requests@.contains_key(resp.request_id) ==> final(fx).log == old(fx).log.push(Effect::Deliver { chan: old(self).in_flight_requests@[resp.request_id].chan, value: deliverable(resp.message) }))
                    && (!old(self).in_flight_requests@.contains_key(resp.request_id) ==> final(fx).log == old(fx).log), // @C01
                r matches Poll::Ready(Some(Err(e))) ==> e is Read && final(self).in_flight_requests == old(self).in_flight_requests && final(fx).log == old(fx).log, // @C09
                r matches Poll::Ready(None) ==> final(self).transport@.read_done && final(self).in_flight_requests == old(self).in_flight_requests && final(fx).log == old(fx).log, // @C10
                // C10: the end of the read side is reported the moment it is seen -- anything else means it has not ended
                !(r matches Poll::Ready(None)) ==> !final(self).transport@.read_done, // @C10
                r is Pending ==> final(self).transport@.read_reg && final(self).in_flight_requests == old(self).in_flight_requests && final(fx).log == old(fx).log, // @C02
              '''),
            F('ensure_writeable', tags='C14', attrs='#[verifier::exec_allows_no_decreases_clause]',
              requires='!old(self).transport@.failed, // @core',
              ensures=WRAP_FRAME + '''
                final(self).transport@.sent == old(self).transport@.sent && final(self).transport@.closed == old(self).transport@.closed, // @core
                // C14: Ready means a write is allowed now; C09: a failure reported while readying is never swallowed
                r matches Poll::Ready(Some(Ok(()))) ==> final(self).transport@.ready && !final(self).transport@.failed, // @C14,C09
                r matches Poll::Ready(Some(Err(e))) ==> final(self).transport@.failed && (e is Ready || e is Flush), // @C09
                !(r matches Poll::Ready(None)), // @core
                r is Pending ==> !final(self).transport@.failed && (final(self).transport@.flush_reg || final(self).transport@.ready_reg), // @C02,C14
                final(self).transport@.np <= old(self).transport@.np + 2, // @C14
              ''',
              loops=['''
                invariant
                    !self.transport@.failed, // @core
                    self.frame_tr(old(self)) && self.tr_read_same(old(self)), // @core
                    self.transport@.sent == old(self).transport@.sent && self.transport@.closed == old(self).transport@.closed, // @core
              '''], loops_optional=True),
            F('poll_next_request', tags='C03,C11,C14', attrs='#[verifier::exec_allows_no_decreases_clause]',
              requires='old(self).inv(), // @core',
              ensures='''
                final(self).in_flight_requests == old(self).in_flight_requests && final(self).canceled_requests == old(self).canceled_requests && final(self).config == old(self).config && final(self).tr_read_same(old(self)) && final(self).terminal_error == old(self).terminal_error, // @core
                final(self).transport@.sent == old(self).transport@.sent && final(self).transport@.closed == old(self).transport@.closed, // @core
                old(self).pending_requests@.taken.subset_of(final(self).pending_requests@.taken), // @core
                old(self).pending_requests@.drained ==> final(self).pending_requests@.drained, // @core
                r matches Poll::Ready(Some(Ok(d))) ==> final(self).transport@.ready && !final(self).transport@.failed, // @C14
                r matches Poll::Ready(Some(Ok(d))) ==> final(self).in_flight_requests@.dom().len() < final(self).config.max_in_flight_requests, // @C11
                r matches Poll::Ready(Some(Ok(d))) ==> !d.response_completion.seen_closed(), // @C03
                r matches Poll::Ready(Some(Ok(d))) ==> !old(self).pending_requests@.taken.contains(d.request_id) && final(self).pending_requests@.taken.contains(d.request_id) && !final(self).in_flight_requests@.contains_key(d.request_id) && !old(self).pending_requests@.drained, // @core
                r matches Poll::Ready(Some(Err(e))) ==> final(self).transport@.failed && (e is Ready || e is Flush), // @C09
                r matches Poll::Ready(None) ==> final(self).pending_requests@.drained && !final(self).transport@.failed, // @C10
                r is Pending ==> !final(self).transport@.failed && (final(self).pending_requests@.reg || final(self).transport@.flush_reg || final(self).transport@.ready_reg || final(self).at_capacity()), // @C02
              ''',
              loops=['''
                invariant
                    self.transport@.ready && !self.transport@.failed, // @core
                    self.in_flight_requests == old(self).in_flight_requests && self.canceled_requests == old(self).canceled_requests && self.config == old(self).config && self.tr_read_same(old(self)) && self.terminal_error == old(self).terminal_error, // @core
                    self.transport@.sent == old(self).transport@.sent && self.transport@.closed == old(self).transport@.closed, // @core
                    old(self).pending_requests@.taken.subset_of(self.pending_requests@.taken), // @core
                    old(self).pending_requests@.drained ==> self.pending_requests@.drained, // @core
                    old(self).inv(), // @core
                    self.in_flight_requests@.dom().len() < self.config.max_in_flight_requests, // @C11
              ''']),
            F('poll_next_cancellation', tags='C03', attrs='#[verifier::exec_allows_no_decreases_clause]',
              requires='old(self).inv(), // @core',
              ensures='''
                final(self).pending_requests == old(self).pending_requests && final(self).config == old(self).config && final(self).tr_read_same(old(self)) && final(self).terminal_error == old(self).terminal_error, // @core
                final(self).in_flight_requests.wf(), // @core
                final(self).transport@.sent == old(self).transport@.sent && final(self).transport@.closed == old(self).transport@.closed, // @core
                sub(final(self).in_flight_requests@, old(self).in_flight_requests@), // @C01,C03
                old(self).canceled_requests@.drained ==> final(self).canceled_requests@.drained, // @core
                !final(self).transport@.failed ==> final(self).inv(), // @core
                r matches Poll::Ready(Some(Ok(t))) ==> final(self).transport@.ready && !final(self).transport@.failed && !old(self).canceled_requests@.drained, // @C14
                r matches Poll::Ready(Some(Ok(t))) ==> old(self).in_flight_requests@.contains_key(t.2) && final(self).in_flight_requests@ =~= old(self).in_flight_requests@.remove(t.2), // @C03
                r matches Poll::Ready(Some(Ok(t))) ==> t.0 == old(self).in_flight_requests@[t.2].ctx, // @C18
                r matches Poll::Ready(Some(Err(e))) ==> final(self).transport@.failed && (e is Ready || e is Flush), // @C09
                r matches Poll::Ready(None) ==> final(self).canceled_requests@.drained && !final(self).transport@.failed && final(self).table_same(old(self)), // @C10
                r is Pending ==> !final(self).transport@.failed && final(self).table_same(old(self)) && (final(self).canceled_requests@.reg || final(self).transport@.flush_reg || final(self).transport@.ready_reg), // @C02
                r matches Poll::Ready(Some(Err(_))) ==> final(self).table_same(old(self)), // @C09
              ''',
              pre='broadcast use lemma_remove_len;',
              loops=['''
                invariant
                    self.transport@.ready && !self.transport@.failed, // @core
                    self.pending_requests == old(self).pending_requests && self.config == old(self).config && self.tr_read_same(old(self)) && self.terminal_error == old(self).terminal_error, // @core
                    self.transport@.sent == old(self).transport@.sent && self.transport@.closed == old(self).transport@.closed, // @core
                    self.table_same(old(self)), // @C03
                    old(self).canceled_requests@.drained ==> self.canceled_requests@.drained, // @core
                    self.inv(), // @core
              ''']),
            F('poll_write_request', fx=True, tags='C01,C03,C09,C14,C16',
              requires='old(self).inv(), // @core',
              ensures='''
                final(self).canceled_requests == old(self).canceled_requests && final(self).config == old(self).config && final(self).tr_read_same(old(self)) && final(self).terminal_error == old(self).terminal_error, // @core
                final(self).in_flight_requests.wf(), // @core
                final(self).transport@.closed == old(self).transport@.closed, // @core
                old(self).pending_requests@.drained ==> final(self).pending_requests@.drained, // @core
                !(r matches Poll::Ready(Some(Err(_)))) ==> final(self).inv(), // @core
                r matches Poll::Ready(Some(Ok(()))) ==> (
                    (exists|m: Request<Req>, chan: int| final(self).transport@.sent == old(self).transport@.sent.push(ClientMessage::Request(m))
                        && !old(self).in_flight_requests@.contains_key(m.id)
                        && final(self).in_flight_requests@ =~= old(self).in_flight_requests@.insert(m.id, CEntry { ctx: m.context, chan })
                        && final(fx).log == old(fx).log)
                    || (exists|id: u64, chan: int, e: TErr| final(self).transport@.sent == old(self).transport@.sent && final(self).in_flight_requests@ =~= old(self).in_flight_requests@
                        && !old(self).in_flight_requests@.contains_key(id)
                        && final(fx).log == old(fx).log.push(Effect::Deliver { chan, value: Err::<Resp, RpcError>(RpcError::Send(Box::new(e))) }))), // @C01,C03,C07,C09,C18
                r matches Poll::Ready(Some(Err(e))) ==> final(self).transport@.failed && (e is Ready || e is Flush) && final(self).transport@.sent == old(self).transport@.sent && final(self).in_flight_requests == old(self).in_flight_requests && final(fx).log == old(fx).log, // @C09
                r matches Poll::Ready(None) ==> final(self).pending_requests@.drained && final(self).transport@.sent == old(self).transport@.sent && final(self).in_flight_requests == old(self).in_flight_requests && final(fx).log == old(fx).log, // @C10
                r is Pending ==> final(self).transport@.sent == old(self).transport@.sent && final(self).in_flight_requests == old(self).in_flight_requests && final(fx).log == old(fx).log
                    && (final(self).pending_requests@.reg || final(self).transport@.flush_reg || final(self).transport@.ready_reg || final(self).at_capacity()), // @C02
              ''',
              pre='broadcast use group_wire, lemma_insert_len, lemma_remove_len;',
              hints=[
                  ('.insert_request(request_id, ctx, span.clone(), response_completion)', '''
                      let ghost g_chan = response_completion.chan();
                  ''', 'before'),
                  ('Poll::Ready(Some(Ok(())))', '''
                      proof {
                          if self.transport@.sent.len() == old(self).transport@.sent.len() + 1 {
                              let gm = self.transport@.sent.last();
                              if let ClientMessage::Request(m) = gm {
                                  assert(is_req_for(gm, m.id));
                                  assert(self.in_flight_requests@ =~= old(self).in_flight_requests@.insert(m.id, CEntry { ctx: m.context, chan: g_chan })); // @C01,C07,C18
                              }
                          } else {
                              assert(self.in_flight_requests@ =~= old(self).in_flight_requests@); // @C09
                          }
                      }
                  ''', 'before'),
              ],
              rules=[Rule('R5:expect', r'\n\s*\.expect\("Request IDs should be unique"\);', '.expect("Request IDs should be unique");', 1, where='body',
                          why='(whitespace only) keep `.expect` on the call line'),
                     Rule('R5:join-insert', r'self\.in_flight_requests\n\s*\.insert_request', 'self.in_flight_requests.insert_request', 1, where='body',
                          why='(whitespace only) statement on one line so that a ghost snapshot can precede it')],
              ),
            F('poll_write_cancel', tags='C03,C09,C14,C18',
              requires='old(self).inv(), // @core',
              ensures='''
                final(self).pending_requests == old(self).pending_requests && final(self).config == old(self).config && final(self).tr_read_same(old(self)) && final(self).terminal_error == old(self).terminal_error, // @core
                final(self).in_flight_requests.wf(), // @core
                final(self).transport@.closed == old(self).transport@.closed, // @core
                sub(final(self).in_flight_requests@, old(self).in_flight_requests@), // @C01,C03
                old(self).canceled_requests@.drained ==> final(self).canceled_requests@.drained, // @core
                !(r matches Poll::Ready(Some(Err(_)))) ==> final(self).inv(), // @core
                r matches Poll::Ready(Some(Ok(()))) ==> exists|id: u64| old(self).in_flight_requests@.contains_key(id) && final(self).in_flight_requests@ =~= old(self).in_flight_requests@.remove(id)
                    && has_req(old(self).transport@.sent, id)
                    && final(self).transport@.sent == old(self).transport@.sent.push(ClientMessage::Cancel { trace_context: old(self).in_flight_requests@[id].ctx.trace_context, request_id: id }), // @C03,C18
                r matches Poll::Ready(Some(Err(e))) ==> final(self).transport@.sent == old(self).transport@.sent && ((final(self).transport@.failed && (e is Ready || e is Flush)) || e is Write), // @C09
                r matches Poll::Ready(None) ==> final(self).canceled_requests@.drained && final(self).transport@.sent == old(self).transport@.sent && final(self).table_same(old(self)), // @C10
                r is Pending ==> final(self).transport@.sent == old(self).transport@.sent && final(self).table_same(old(self))
                    && (final(self).canceled_requests@.reg || final(self).transport@.flush_reg || final(self).transport@.ready_reg), // @C02
              ''',
              pre='broadcast use group_wire, lemma_remove_len;',
              ),
            F('pump_write', fx=True, tags='C09,C10,C14', hoist=[('enum', 'ReceiverStatus')],
              requires='old(self).inv(), // @core',
              ensures='''
                final(self).config == old(self).config && final(self).tr_read_same(old(self)) && final(self).terminal_error == old(self).terminal_error, // @core
                final(self).in_flight_requests.wf(), // @core
                old(self).pending_requests@.drained ==> final(self).pending_requests@.drained, // @core
                old(self).canceled_requests@.drained ==> final(self).canceled_requests@.drained, // @core
                !(r matches Poll::Ready(Some(Err(_)))) ==> final(self).inv(), // @core
                sub(final(self).in_flight_requests@, old(self).in_flight_requests@) || final(self).in_flight_requests@.dom().len() == old(self).in_flight_requests@.dom().len() + 1, // @C11
                final(self).transport@.sent == old(self).transport@.sent || (exists|m: ClientMessage<Req>| final(self).transport@.sent == old(self).transport@.sent.push(m)), // @C03,C14
                // the write pump never completes a call successfully: it only ever delivers errors (C01)
                final(fx).log == old(fx).log || (exists|chan: int, e: RpcError| final(fx).log == old(fx).log.push(Effect::Deliver { chan, value: Err::<Resp, RpcError>(e) })), // @C01,C05
                r matches Poll::Ready(Some(Err(e))) ==> (final(self).transport@.failed && (e is Ready || e is Flush || e is Close)) || e is Write, // @C09
                r matches Poll::Ready(None) ==> final(self).pending_requests@.drained && final(self).canceled_requests@.drained && final(self).transport@.closed && final(self).transport@.unflushed == 0
                    && final(self).transport@.sent == old(self).transport@.sent && final(self).table_same(old(self)) && final(fx).log == old(fx).log, // @C10
                r is Pending ==> (final(self).transport@.unflushed == 0 || final(self).transport@.flush_reg), // @C14
                r is Pending ==> final(self).transport@.sent == old(self).transport@.sent && final(self).table_same(old(self)) && final(fx).log == old(fx).log, // @C02,C14
                r is Pending ==> (final(self).in_flight_requests@.dom().len() == 0 || final(self).in_flight_requests.timers_reg()), // @C02,C05
              ''',
              pre='broadcast use lemma_remove_len, lemma_insert_len;'),
            F('shut_down_with_terminal_error', fx=True, tags='C09', attrs='#[verifier::exec_allows_no_decreases_clause]',
              rules=[
                  Rule('R11:complete-all', r'for span in self\s*\.in_flight_requests\s*\.complete_all_requests\(\|\|\s*(?P<expr>Err\(RpcError::(?P<ctor>\w+)(?P<args>\((?:[^()]|\([^()]*\))*\))?\))\s*\)\s*\{\s*\}',
                       _complete_all_repl, 1, where='body', flags=re.M | re.S,
                       why='R17 (consumer side): the `for` over the lazy iterator, whose body is empty once the tracing statements are dropped (R1) and which therefore '
                           'runs it to exhaustion, is the call of `complete_all_requests` as emitted by R17 (proved in this unit from its real body); '
                           'R9: the closure `|| Err(RpcError::V(..))` is bound to a name and annotated with the postcondition that is its own head constructor '
                           '(for `Channel(e.clone())` also: the payload is e)'),
              ],
              requires='''
                old(self).in_flight_requests.wf(), // @core
              ''',
              ensures='''
                // C14/C09: the transport is not touched again after the failure that led here
                final(self).transport == old(self).transport && final(self).canceled_requests == old(self).canceled_requests && final(self).config == old(self).config && final(self).terminal_error == old(self).terminal_error && final(self).in_flight_requests.wf(), // @C09,C14
                // C09: only connection errors are delivered -- no call reports success without a reply
                channel_errors_only(old(fx).log, final(fx).log), // @C09
                // C09: when it completes, the request queue is closed and drained and nothing is in flight: every outstanding call was failed
                r is Ready ==> final(self).pending_requests@.drained && final(self).pending_requests@.closed_by_rx && final(self).in_flight_requests@.dom().len() == 0, // @C09
                r is Pending ==> final(self).pending_requests@.reg && final(self).pending_requests@.closed_by_rx, // @C02
              ''',
              hints=[
                  ('let e__ref = &e;', '''
                      let ghost g_pre = fx.log;
                      let ghost g_view = self.in_flight_requests@;
                  ''', 'before'),
                  ('self.in_flight_requests.complete_all_requests(result__f', '''
                      proof {
                          let order = choose|order: Seq<u64>| delivered_all(g_view, g_pre, fx.log, order, result__f);
                          assert forall|j: int| g_pre.len() <= j < fx.log.len() implies ((#[trigger] fx.log[j]) matches Effect::Deliver { value: Err(RpcError::Channel(_)), .. }) by {
                              let i = j - g_pre.len();
                              assert(fx.log[g_pre.len() + i] == fx.log[j]);
                          }
                          assert(channel_errors_only(old(fx).log, fx.log));
                      }
                      let ghost g_base = fx.log.len();
                      let ghost mut g_open: nat = 0;
                  '''),
                  ('}) => {', '''
                      // ghost bookkeeping tied to the dequeue: one more queued caller whose receiver is still open
                      proof { if !response_completion.seen_closed() { g_open = g_open + 1; } }
                  '''),
              ],
              loops=['''
                invariant
                    self.transport == old(self).transport && self.canceled_requests == old(self).canceled_requests && self.config == old(self).config && self.terminal_error == old(self).terminal_error && self.in_flight_requests.wf(), // @core
                    // C09: every queued caller with an open receiver has been delivered the error (one delivery per such dequeue)
                    fx.log.len() == g_base + g_open, // @C09
                    self.pending_requests@.closed_by_rx, // @C09
                    self.in_flight_requests@.dom().len() == 0, // @C09
                    channel_errors_only(old(fx).log, fx.log), // @C09
              '''], loops_optional=False),
            F('run', fx=True, tags='C09,C10', attrs='#[verifier::exec_allows_no_decreases_clause]',
              requires='old(self).inv(), // @core',
              ensures='''
                final(self).in_flight_requests.wf() && final(self).terminal_error == old(self).terminal_error, // @core
                r matches Poll::Ready(Ok(())) ==> final(self).transport@.read_done
                    || (final(self).pending_requests@.drained && final(self).canceled_requests@.drained && final(self).transport@.closed && final(self).transport@.unflushed == 0 && final(self).in_flight_requests@.dom().len() == 0), // @C10
                r matches Poll::Ready(Err(e)) ==> e is Read || e is Write || (final(self).transport@.failed && (e is Ready || e is Flush || e is Close)), // @C09
                r is Pending ==> final(self).inv(), // @core
                r is Pending ==> (final(self).transport@.unflushed == 0 || final(self).transport@.flush_reg), // @C14
                r is Pending ==> final(self).transport@.read_reg, // @C02
                r is Pending ==> (final(self).in_flight_requests@.dom().len() == 0 || final(self).in_flight_requests.timers_reg() || final(self).transport@.closed), // @C02
                // C10: when the peer has ended the read side the dispatch stops at once -- it never goes back to waiting (for the
                // write side, a flush, a timer) with the read side over
                r is Pending ==> !final(self).transport@.read_done, // @C10
              ''',
              loops=['''
                invariant
                    self.inv(), // @core
                    self.terminal_error == old(self).terminal_error, // @core
              ''']),
            Fn(SRC, r'impl<Req, Resp, C> Future for RequestDispatch<Req, Resp, C> where C: Transport<ClientMessage<Req>, Response<Resp>>,', 'poll', fx=True, tags='C09,C10',
               rules=[
                   Rule('R5:chain-one-line', r'= e\s*(\.clone\(\))?\s*\.downcast\(\)\s*\.expect\(', r'= e\1.downcast().expect(', '*', where='body', flags=re.M | re.S, why='(whitespace only)'),
               ],
               requires='''
                 old(self).terminal_error is None ==> old(self).inv(), // @core
                 old(self).in_flight_requests.wf(), // @core
               ''',
               ensures='''
                 // C09: once a transport failure was recorded the dispatch never goes back to using the transport: it stays in
                 // the shutdown state (the recorded error is kept) until it has failed every outstanding call and returns it
                 r is Pending ==> (final(self).terminal_error is None ==> final(self).inv()) && final(self).in_flight_requests.wf(), // @C09
                 r is Pending && old(self).terminal_error is Some ==> final(self).terminal_error == old(self).terminal_error, // @C09
                 // C09: every outstanding call was failed before the error is returned
                 r matches Poll::Ready(Err(e)) ==> final(self).pending_requests@.drained && final(self).in_flight_requests@.dom().len() == 0, // @C09
                 r matches Poll::Ready(Err(e)) ==> (old(self).terminal_error matches Some(t) && e == t) || e is Read || e is Write || (final(self).transport@.failed && (e is Ready || e is Flush || e is Close)), // @C09
                 r matches Poll::Ready(Ok(())) ==> final(self).transport@.read_done
                     || (final(self).pending_requests@.drained && final(self).canceled_requests@.drained && final(self).transport@.closed && final(self).in_flight_requests@.dom().len() == 0), // @C10
               ''',
               loops=['''
                 invariant
                     self.terminal_error is None ==> self.inv(), // @core
                     self.in_flight_requests.wf(), // @core
                     old(self).terminal_error is Some ==> self.terminal_error == old(self).terminal_error, // @C09
                     old(self).terminal_error is None ==> (self.terminal_error matches Some(t) ==> t is Read || t is Write || (self.transport@.failed && (t is Ready || t is Flush || t is Close))), // @C09
               ''']),
        ]),
    ]



def guard_parts():
    return [
        TypeItem(SRC, 'struct', 'ResponseGuard', rules=[
            Rule('R5:guard-rx', r"&'a mut oneshot::Receiver<Result<Resp, RpcError>>", "&'a mut guard_models::Receiver<Result<Resp, RpcError>>", 1, why='prelude model of the oneshot receiver'),
            Rule('R5:guard-canc', r"&'a RequestCancellation", "&'a guard_models::RequestCancellation", 1, why='prelude model of the cancellation sender'),
        ]),
        Impl("impl<'a, Resp> ResponseGuard<'a, Resp>", fx_type='GFx', qual='ResponseGuard', parts=[
            Fn(SRC, r"impl<Resp> Drop for ResponseGuard<'_, Resp>", 'drop', fx=True, tags='C03',
               ensures='''
                 // C03: the receiver is closed *before* the cancellation is queued (so a dispatch that misses an
                 // early cancellation sees the receiver closed), and a cancellation is queued iff the guard is armed
                 old(self).cancel ==> final(fx).log == old(fx).log.push(GEffect::CloseRx { chan: old(self).response.chan() }).push(GEffect::CancelMsg { id: old(self).request_id }), // @C03
                 !old(self).cancel ==> final(fx).log == old(fx).log.push(GEffect::CloseRx { chan: old(self).response.chan() }), // @C03
               '''),
        ]),
    ]


CALL_IMPL = r'impl<Req, Resp> Channel<Req, Resp> where Req: RequestName,'


def call_parts():
    return [
        TypeItem(SRC, 'struct', 'Channel', rules=[
            Rule('R5:to-dispatch', r'mpsc::Sender<DispatchRequest<Req, Resp>>', 'call_models::ToDispatch<Req, Resp>', 1, why='prelude model of the request queue sender'),
            Rule('R5:canc', r'cancellation: RequestCancellation', 'cancellation: guard_models::RequestCancellation', 1, why='prelude model'),
            Rule('R5:next-id', r'Arc<AtomicUsize>', 'call_models::NextId', 1, why='prelude model of the id counter'),
        ]),
        Impl("impl<'a, Resp> ResponseGuard<'a, Resp>", fx_type='GFx', qual='ResponseGuard', parts=[
            Fn(SRC, r"impl<Resp> ResponseGuard<'_, Resp>", 'response', fx=True, tags='C03',
               rules=[
                   Rule('R5:await-rx', r'\(&mut self\.response\)\.await', 'self.response.recv(Tracked(fx)).await', 1, where='body', why='awaiting the oneshot receiver (model: recv)'),
                   Rule('R5:recv-error', r'oneshot::error::RecvError \{ \.\. \}', 'call_models::RecvError { .. }', 1, where='body', why='prelude model'),
                   Rule('R2b:mut-self-sig', r'\(mut self', '(self', 1, where='sig', why='`mut self` by value is written as a rebinding (Verus: mut self unsupported)'),
                   Rule('R2b:mut-self-body', r'\bself\b', 'this', '+', where='body', why='see R2b:mut-self-sig'),
               ],
               pre='let mut this = self;',
               drops_at_end=['this'],
               ensures='''
                 // C03: once the receiver has produced (a response, or the dispatcher's death), the guard is disarmed:
                 // the call awaits its own channel, closes it, and queues NO cancellation
                 final(fx).log == old(fx).log.push(GEffect::Await { chan: old(self.response).chan() }).push(GEffect::CloseRx { chan: old(self.response).chan() }), // @C03
               '''),
        ]),
        Impl('impl<Req, Resp> Channel<Req, Resp>', fx_type='GFx', qual='Channel', parts=[
            Fn(SRC, r'impl<Req, Resp> Clone for Channel<Req, Resp>', 'clone', tags='C01',
               ensures='''
                 // A-ids reduced: every clone of a client handle allocates request ids from the ONE shared counter and feeds the
                 // same dispatch queues, so ids of calls on different handles cannot collide (what remains assumed: fetch_add is atomic)
                 r.next_request_id.counter() == self.next_request_id.counter(), // @C01
                 r.to_dispatch.queue() == self.to_dispatch.queue() && r.cancellation.queue() == self.cancellation.queue(), // @C01,C03
               '''),
            Fn(SRC, CALL_IMPL, 'call', fx=True, tags='C01,C03,C18',
               rules=[
                   Rule('R1:span-current', r'let span = Span::current\(\);', 'let span = Span::current();', 1, where='body', why='(identity) span is opaque'),
                   Rule('R1:span-record', r'^[ \t]*span\.record\("rpc\.trace_id", tracing::field::display\(ctx\.trace_id\(\)\)\);\n', '', 1, where='body', why='A-tracing: span field'),
                   Rule('R5:oneshot-channel', r'oneshot::channel\(\)', 'call_models::oneshot_channel()', 1, where='body', why='prelude model'),
                   Rule('R5:fetch-add', r'self\.next_request_id\.fetch_add\(1, Ordering::Relaxed\)', 'self.next_request_id.fetch_add(1)', 1, where='body', why='prelude model of the atomic counter'),
                   Rule('R14b:try-drop', r'\.await\n\s*\.map_err\(\|mpsc::error::SendError\(_\)\| RpcError::Shutdown\)\?;',
                        '.await { Ok(()) => {}, Err(_) => { let mut response_guard = response_guard; response_guard.drop(Tracked(fx)); return Err(RpcError::Shutdown); } }', 1, where='body', flags=re.M | re.S,
                        why='`X.map_err(|SendError(_)| Shutdown)?` written out with the implicit drop of the armed guard on the error return'),
                   Rule('R2b:mut-param', r'mut ctx: context::Context', 'ctx0: context::Context', 1, where='sig', why='`mut` parameter of an async fn written as a rebinding (Verus limitation)'),
                   Rule('R14b:try-head', r'self\.to_dispatch\n\s*\.send\(', 'match self.to_dispatch.send(', 1, where='body', why='see R14b:try-drop'),
               ],
               pre='let mut ctx = ctx0;',
               ensures='''
                 // C01 (A-pair as a postcondition): the sender handed to the dispatch under the allocated id is the sender of the very
                 // receiver this call then awaits; C03: the guard exists (armed) before the request is enqueued, and is disarmed after receipt
                 r is Ok ==> exists|id: u64, chan: int, c: context::Context| final(fx).log == old(fx).log.push(GEffect::Enqueue { id, chan, ctx: c }).push(GEffect::Await { chan }).push(GEffect::CloseRx { chan })
                     && c.deadline == ctx0.deadline, // @C01,C03,C07
                 // C03: if the dispatch is gone the call fails fast with Shutdown and cleans up after itself
                 r matches Err(e) ==> exists|id: u64, chan: int, c: context::Context| (final(fx).log == old(fx).log.push(GEffect::Enqueue { id, chan, ctx: c }).push(GEffect::Await { chan }).push(GEffect::CloseRx { chan })
                     || final(fx).log == old(fx).log.push(GEffect::Enqueue { id, chan, ctx: c }).push(GEffect::CloseRx { chan }).push(GEffect::CancelMsg { id })), // @C03,C09
               '''),
        ]),
        TypeItem(SRC, 'struct', 'NewClient'),
        Impl('impl<Req, Resp> NewClient<Channel<Req, Resp>, RequestDispatch<Req, Resp>>', qual='client', parts=[
            Fn(SRC, None, 'new', tags='C01,C11', canary=True,
               rules=[
                   Rule('R5:new-generics', r'pub fn new<Req, Resp, C>\(', 'pub fn new(', 1, where='sig', why='emitted as an associated function of the instantiated NewClient; the transport type parameter is erased (prelude model)'),
                   Rule('R5:new-transport-param', r'transport: C,', 'transport: Transport<ClientMessage<Req>, Response<Resp>>,', 1, where='sig', why='transport type parameter erased (prelude model)'),
                   Rule('R5:new-where', r'\s*where\s+C: Transport<ClientMessage<Req>, Response<Resp>>,', '', 1, where='sig', flags=re.M | re.S, why='bound of the erased type parameter'),
                   Rule('R5:new-mpsc', r'mpsc::channel\(config\.pending_request_buffer\)', 'new_models::mpsc_channel(config.pending_request_buffer)', 1, where='body', why='prelude model of tokio mpsc::channel'),
                   Rule('R5:new-cancellations', r'= cancellations\(\);', '= new_models::cancellations();', 1, where='body', why='prelude model of crate::cancellations::cancellations()'),
                   Rule('R5:new-next-id', r'Arc::new\(AtomicUsize::new\(0\)\)', 'new_models::next_id_new()', 1, where='body', why='prelude model of the shared id counter'),
                   Rule('R5:new-fuse', r'transport\.fuse\(\)', 'fuse_model(transport)', 1, where='body', why='A-sink: the transport model is the fused view'),
               ],
               pre='broadcast use vstd::std_specs::hash::group_hash_axioms;',
               requires='!transport@.failed && !transport@.closed, // @core (a transport that has not failed or been closed yet)',
               ensures='''
                 // the induction base of the dispatch invariant: a new dispatch satisfies it, tracks nothing, has recorded no failure
                 r.dispatch.inv() && r.dispatch.terminal_error is None && r.dispatch.in_flight_requests@ =~= Map::<u64, CEntry>::empty(), // @core:C01,C03,C09,C10,C11,C14
                 r.dispatch.transport@ == transport@ && r.dispatch.config == config, // @C14
                 // C01/C03: the handle feeds exactly the two queues its own dispatch drains
                 r.client.to_dispatch.queue() == r.dispatch.pending_requests.queue() && r.client.cancellation.queue() == r.dispatch.canceled_requests.queue(), // @C01,C03
               '''),
        ]),
    ]

ACCESSOR_GUARDS = [
    # (fn name, regex its body must match) -- R3 is only sound while the accessor is the bare projection
    ('in_flight_requests', r'\{\s*self\.as_mut\(\)\.project\(\)\.in_flight_requests\s*\}'),
    ('transport_pin_mut', r'\{\s*self\.as_mut\(\)\.project\(\)\.transport\s*\}'),
    ('canceled_requests_mut', r'\{\s*self\.as_mut\(\)\.project\(\)\.canceled_requests\s*\}'),
    ('pending_requests_mut', r'\{\s*self\.as_mut\(\)\.project\(\)\.pending_requests\s*\}'),
]


def unit():
    return Unit('client', prelude=['base.rs', 'time.rs', 'delay_queue.rs', 'oneshot_tx.rs', 'hash_iter.rs', 'trace_models.rs', 'transport.rs', 'server_error.rs', 'client_queues.rs', 'cancellations.rs', 'client_guard.rs', 'client_call.rs'],
                parts=client_table.parts() + dispatch_parts() + guard_parts() + call_parts(), rules=RULES,
                fx_fns=client_table.FX_CALLS + [r'\.complete\(', r'self\.pump_read__closure\(', r'\.pump_read\(', r'\.pump_write\(', r'\.poll_write_request\(', r'\.shut_down_with_terminal_error\(', r'self\.run\(', r'\.poll_expired\((?=cx, \|\|)'],
                fx_prims=[r'response_completion\.send\(', r'self\.response\.close\(', r'self\.cancellation\.cancel\(', r'response_guard\.response\(', r'self\.to_dispatch\.send\('], fx_type='Fx<Res>',
                accessor_guards=[(SRC, IMPL, n, rx) for n, rx in ACCESSOR_GUARDS], lemmas=['client_history.rs'])
