"""Unit `util_compact` — util::Compact for HashMap (tarpc/src/util.rs): compaction never changes the
contents of the map.  This reduces assumption A-hashmap ("Compact::compact only changes capacity", the
frame-only model `compact_map` the table units use) to the std fact that HashMap::shrink_to only
changes capacity.  Floating-point operations are replaced by uninterpreted models: their values only
choose the capacity argument, which the contract does not mention."""
from vx.extract import Fn, Impl, Raw, Rule, Unit

SRC = 'tarpc/src/util.rs'
RULES = [
    Rule('R5:f64-cast-div', r'([\w.]+(?:\(\))?) as f64 / (\w+)', r'f64_div(usize_as_f64(\1), \2)',
         why='Verus has no usize->f64 cast and puts a precondition on f64 division; value-free models'),
    Rule('R5:f64-const', r'f64::MIN_POSITIVE', 'f64_min_positive()', why='associated float constant not supported by Verus'),
    Rule('R5:f64-to-usize', r'\((\w+) as usize\)', r'(f64_as_usize(\1))', why='Verus has no f64->usize cast; value-free model'),
]

VOCAB = Raw('''
pub trait Compact {
    fn compact(&mut self, usage_ratio_threshold: f64);
}
// std: shrinking the capacity keeps every entry (assumed; this is what A-hashmap is reduced to)
pub assume_specification<K: Eq + Hash, V, S: BuildHasher, A: core::alloc::Allocator>[ HashMap::<K, V, S, A>::shrink_to ](m: &mut HashMap<K, V, S, A>, min_capacity: usize)
    ensures final(m)@ == old(m)@;
pub assume_specification [f64::clamp] (_0: f64, _1: f64, _2: f64) -> f64;
pub assume_specification [f64::max] (_0: f64, _1: f64) -> f64;
#[verifier::external_body] pub fn f64_min_positive() -> f64 { unimplemented!() }
#[verifier::external_body] pub fn f64_div(a: f64, b: f64) -> f64 { unimplemented!() }
#[verifier::external_body] pub fn usize_as_f64(n: usize) -> f64 { unimplemented!() }
#[verifier::external_body] pub fn f64_as_usize(n: f64) -> usize { unimplemented!() }
''')


def unit():
    return Unit('util_compact', prelude=[], rules=RULES,
                crate_attrs='#![feature(allocator_api)]\n', header='use std::hash::{BuildHasher, Hash};\n', parts=[
        VOCAB,
        Impl('impl<K, V, H> Compact for HashMap<K, V, H> where K: Eq + Hash, H: BuildHasher', qual='<HashMap as Compact>', trait_impl=True, parts=[
            Fn(SRC, r'impl<K, V, H> Compact for HashMap<K, V, H> where K: Eq \+ Hash, H: BuildHasher,', 'compact', tags='C11', canary=False,
               ensures='''
                 // compaction is invisible in the abstract view of every table that calls it
                 final(self)@ == old(self)@, // @C01,C04,C05,C06,C08,C11
               '''),
        ]),
    ])
