"""Unit `trace_ctx` — trace::Context::new_child (tarpc/src/trace.rs): K6 via Verus (Kani cannot
reach rand::thread_rng: thread-local + getrandom)."""
from vx.extract import Fn, Impl, Raw, Rule, TypeItem, Unit

SRC = 'tarpc/src/trace.rs'


def unit():
    return Unit('trace_ctx', prelude=['base.rs', 'rand.rs'], rules=[], parts=[
        TypeItem(SRC, 'struct', 'TraceId', attrs='#[derive(Clone, Copy)]'),
        TypeItem(SRC, 'struct', 'SpanId', attrs='#[derive(Clone, Copy)]'),
        TypeItem(SRC, 'enum', 'SamplingDecision', attrs='#[derive(Clone, Copy)]'),
        TypeItem(SRC, 'struct', 'Context', attrs='#[derive(Clone, Copy)]'),
        Raw('''
impl SpanId {
    /// `SpanId::random(rng)`: a nonzero id drawn from the generator (value unconstrained here)
    #[verifier::external_body]
    pub fn random(rng: &mut rand::ThreadRng) -> (r: SpanId) { unimplemented!() }
}
'''),
        Impl('impl Context', qual='trace::Context', parts=[
            Fn(SRC, r'impl Context', 'new_child', tags='C18',
               ensures='''
                 // C18: a child context keeps the trace id and the sampling decision of its parent; only the span id is fresh
                 r.trace_id == self.trace_id, // @C18
                 r.sampling_decision == self.sampling_decision, // @C18
               '''),
        ]),
    ])
