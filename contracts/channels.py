"""Unit `channels` (U6) — MaxChannelsPerKey (tarpc/src/server/limits/channels_per_key.rs).

Arc/Weak strong counts are modelled by a threaded ghost World (prelude/arc_world.rs): live[t] =
number of live yielded channels holding tracker t. The key type K is instantiated with u64."""
import re
from vx.extract import Fn, Impl, Lift, Raw, Rule, TypeItem, Unit

SRC = 'tarpc/src/server/limits/channels_per_key.rs'
IMPL = r'impl<S, K, F> MaxChannelsPerKey<S, K, F> where S: Stream, K: fmt::Display \+ Eq \+ Hash \+ Clone \+ Unpin, F: Fn\(&S::Item\) -> K,'
STREAM = r'impl<S, K, F> Stream for MaxChannelsPerKey<S, K, F> where S: Stream, K: fmt::Display \+ Eq \+ Hash \+ Clone \+ Unpin, F: Fn\(&S::Item\) -> K,'

TC_STREAM = r'impl<C, K> Stream for TrackedChannel<C, K> where C: Stream,'
TC_SINK = r'impl<C, I, K> Sink<I> for TrackedChannel<C, K> where C: Sink<I>,'
TC_CHANNEL = r'impl<C, K> Channel for TrackedChannel<C, K> where C: Channel,'

RULES = [
    Rule('R2:as-mut', r'self\s*\.as_mut\(\)\s*\.', 'self.', flags=re.M | re.S, why='A-pin'),
    Rule('R2:project-let', r'let self_ = self\.project\(\);', 'let self_ = self;', why='A-pin: projection is field access'),
    Rule('R2:project-ref', r'let dropped_keys = self_\.dropped_keys_tx;', 'let dropped_keys = &self_.dropped_keys_tx;', why='projection yields a reference to the field'),
    Rule('R2:project-deref', r'\*self_\.channels_per_key', 'self_.channels_per_key', why='projection yields a reference to the field'),
    Rule('R3:inner_pin_mut-let', r'let (\w+) = self\.inner_pin_mut\(\);', r'let \1 = &mut self.inner;', why='accessor = projection of field inner, bound to a local'),
    Rule('R3:inner_pin_mut', r'self\.inner_pin_mut\(\)', 'self.inner', why='accessor = projection of field inner'),
    Rule('R5:tc-item', r'Option<Self::Item>', 'Option<ChanItem>', where='sig', why='item type of the wrapped channel is opaque'),
    Rule('R5:tc-error', r'Self::Error', 'ChanErr', where='sig', why='error type of the wrapped channel is opaque'),
    Rule('R5:tc-sink-item', r'item: I\b', 'item: ChanSinkItem', where='sig', why='sink item type of the wrapped channel is opaque'),
    Rule('R3:listener_pin_mut', r'self\.listener_pin_mut\(\)', 'self.listener', why='accessor = projection'),
    Rule('R7:poll_next_unpin', r'\.poll_next_unpin\(cx\)', '.poll_next(cx)', why='StreamExt::poll_next_unpin'),
    Rule('R7:compact', r'self_\.key_counts\.compact\(0\.1\);', 'compact_map(&mut self_.key_counts);', why='frame-only model of util::Compact'),
    Rule('R5:arc-new', r'Arc::new\(Tracker \{', 'TrackerArc::new(Tracker {', why='prelude model of Arc<Tracker<K>>'),
    Rule('R5:arc-downgrade', r'Arc::downgrade\(', 'TrackerArc::downgrade(', why='prelude model of Arc<Tracker<K>>'),
    Rule('R5:arc-type', r'Arc<Tracker<K>>', 'TrackerArc', why='prelude model'),
    Rule('R5:weak-type', r'Weak<Tracker<K>>', 'TrackerWeak', why='prelude model'),
    Rule('R5:tracked-channel', r'TrackedChannel<S::Item, K>', 'TrackedChannel', why='item and key types instantiated'),
    Rule('R5:item', r'S::Item', 'Incoming', why='listener item is opaque'),
    Rule('R5:rx', r'mpsc::UnboundedReceiver<K>', 'DroppedKeysRx', why='prelude model'),
    Rule('R5:tx', r'mpsc::UnboundedSender<K>', 'DroppedKeysTx', why='prelude model'),
    Rule('R5:fuse', r'Fuse<S>', 'Listener', why='prelude model'),
    Rule('R5:keymaker-call', r'\(self\.keymaker\)\(&stream\)', 'self.keymaker.call(&stream)', why='call of the key function'),
    Rule('R5:key-type', r'(?<![\w:])K(?!\w|::)', 'u64', why='key type instantiated with u64'),
    Rule('R5:try-from', r'usize::try_from\(self_\.channels_per_key\)\.unwrap\(\)', '(self_.channels_per_key as usize)', why='u32 -> usize is total on the supported targets (usize >= 32 bits: static assertion in client.rs)'),
]

VOCAB = Raw('''
''')

IMPL_VOCAB = Raw('''
    /// C13 invariant: every tracker with a live channel is the one its key's entry points to
    /// (so the number of live channels of key k is strong_count(key_counts[k]) <= n), and an
    /// entry is absent only if no channel of its key is alive.
    pub open spec fn inv(&self, w: &World) -> bool {
        &&& vstd::std_specs::hash::obeys_key_model::<u64>()
        &&& w.wf()
        &&& self.channels_per_key >= 1
        // every tracker that still has a live channel is the one recorded for its key, and is within the limit
        &&& forall|t: int| #[trigger] w.live.contains_key(t) ==> w.live[t] <= self.channels_per_key
                && (w.live[t] > 0 ==> self.key_counts@.contains_key(w.key_of[t]) && self.key_counts@[w.key_of[t]].tid() == t)
        // an entry points to a tracker that was created for that key
        &&& forall|k: u64| #[trigger] self.key_counts@.contains_key(k) ==> w.key_of.contains_key(self.key_counts@[k].tid()) && w.key_of[self.key_counts@[k].tid()] == k
    }
    /// number of live yielded channels with key k
    pub open spec fn live_for_key(&self, w: &World, k: u64) -> nat {
        if self.key_counts@.contains_key(k) { w.live_on(self.key_counts@[k].tid()) } else { 0 }
    }
''')

LEMMAS = Raw('''
/// The invariant is stable under the environment: a yielded channel being dropped (live count of
/// its tracker decreases) at any time between two calls preserves it.
pub proof fn lemma_inv_stable_under_channel_drop(f: &MaxChannelsPerKey, w: &World, w2: &World, t: int)
    requires f.inv(w), w.live.contains_key(t), w.live[t] > 0, w2.key_of == w.key_of, w2.live == w.live.insert(t, (w.live[t] - 1) as nat),
    ensures f.inv(w2),
{
    assert forall|u: int| #[trigger] w2.live.contains_key(u) implies w2.live[u] <= f.channels_per_key
        && (w2.live[u] > 0 ==> f.key_counts@.contains_key(w2.key_of[u]) && f.key_counts@[w2.key_of[u]].tid() == u) by {
        assert(w.live.contains_key(u));
    }
}
''')


def unit():
    F = lambda impl, name, **kw: Fn(SRC, impl, name, **kw)
    STRUCT_RULES = [Rule('R5:struct-generics', r'pub struct MaxChannelsPerKey<S, u64, F>\nwhere\n\s*u64: Eq \+ Hash,\n\{', 'pub struct MaxChannelsPerKey {', 1, flags=re.M, why='type parameters instantiated by prelude models'),
                    Rule('R5:keymaker', r'keymaker: F,', 'keymaker: Keymaker,', 1, why='key function model')]
    return Unit('channels', prelude=['base.rs', 'arc_world.rs'], rules=RULES, fx_type='World', header='use std::collections::hash_map::Entry;\n',
                accessor_guards=[(SRC, IMPL, 'listener_pin_mut', r'\{\s*self\.as_mut\(\)\.project\(\)\.listener\s*\}'),
                                 (SRC, r'impl<C, K> TrackedChannel<C, K>', 'inner_pin_mut', r'\{\s*self\.as_mut\(\)\.project\(\)\.inner\s*\}')],
                fx_fns=[r'\.increment_channels_for_key\(', r'\.handle_new_channel\(', r'\.poll_listener\(', r'\.poll_closed_channels\('],
                fx_prims=[r'TrackerArc::new\(', r'\.strong_count\(', r'\.upgrade\('],
                parts=[
        TypeItem(SRC, 'struct', 'Tracker', rules=[Rule('R5:tracker-generics', r'struct Tracker<u64>', 'struct Tracker', 1, why='key type instantiated')]),
        TypeItem(SRC, 'struct', 'TrackedChannel', rules=[Rule('R5:tc-generics', r'struct TrackedChannel<C, u64>', 'struct TrackedChannel', 1, why='types instantiated'),
                                                         Rule('R5:tc-inner', r'inner: C,', 'inner: Incoming,', 1, why='listener item is opaque')]),
        TypeItem(SRC, 'struct', 'MaxChannelsPerKey', rules=STRUCT_RULES),
        Impl('impl Tracker', qual='Tracker', parts=[
            Fn(SRC, r'impl<K> Drop for Tracker<K>', 'drop', tags='C13,C16',
               requires='old(self).key is Some, // @C16',
               ensures='final(self).key is None, // @C13'),
        ]),
        Impl('impl TrackedChannel', qual='TrackedChannel', parts=[
            # C13 ("nor over-applied") / C14: a tracked channel *is* the channel it wraps -- every operation is that one operation of the
            # inner channel, answered as the inner channel answered -- and it holds its tracker for as long as it lives
            F(TC_STREAM, 'poll_next', tags='C13',
              ensures='r == old(self).inner.next_answer() && final(self).inner == old(self).inner.after_next() && final(self).tracker == old(self).tracker, // @C13,C14'),
            F(TC_SINK, 'poll_ready', tags='C13',
              ensures='r == old(self).inner.ready_answer() && final(self).inner == old(self).inner.after_ready() && final(self).tracker == old(self).tracker, // @C13,C14'),
            F(TC_SINK, 'start_send', tags='C13',
              ensures='r == old(self).inner.send_answer(item) && final(self).inner == old(self).inner.after_send(item) && final(self).tracker == old(self).tracker, // @C13,C14'),
            F(TC_SINK, 'poll_flush', tags='C13',
              ensures='r == old(self).inner.flush_answer() && final(self).inner == old(self).inner.after_flush() && final(self).tracker == old(self).tracker, // @C13,C14'),
            F(TC_SINK, 'poll_close', tags='C13',
              ensures='r == old(self).inner.close_answer() && final(self).inner == old(self).inner.after_close() && final(self).tracker == old(self).tracker, // @C13,C14'),
            F(TC_CHANNEL, 'in_flight_requests', tags='C13', ret='n',
              ensures='n == self.inner.in_flight(), // @C13,C12'),
        ]),
        Impl('impl MaxChannelsPerKey', qual='MaxChannelsPerKey', parts=[
            IMPL_VOCAB,
            F(r'impl<S, K, F> MaxChannelsPerKey<S, K, F> where K: Eq \+ Hash, S: Stream, F: Fn\(&S::Item\) -> K,', 'new', fx=True, tags='C13',
              rules=[
                  Rule('R5:new-listener-param', r'listener: S,', 'listener: RawListener,', 1, where='sig', why='listener type parameter erased (prelude model)'),
                  Rule('R5:new-keymaker-param', r'keymaker: F\)', 'keymaker: Keymaker)', 1, where='sig', why='key function model'),
                  Rule('R5:new-mpsc', r'mpsc::unbounded_channel\(\)', 'dropped_keys_channel()', 1, where='body', why='prelude model of the close-notification queue'),
                  Rule('R5:new-fuse', r'listener\.fuse\(\)', 'fuse_listener(listener)', 1, where='body', why='prelude model of the fused listener'),
                  Rule('R7:default-map', r'FnvHashMap::default\(\)', 'HashMap::new()', '*', where='body', why='`Default` of (Fnv)HashMap is the empty map (A-hashmap)'),
              ],
              pre='broadcast use vstd::std_specs::hash::group_hash_axioms;',
              requires='''
                channels_per_key >= 1, // @core (with a limit of 0 every channel is shed; outside the invariant)
                old(fx).wf() && forall|t: int| #[trigger] old(fx).live.contains_key(t) ==> old(fx).live[t] == 0, // @core (no tracker of this filter has a live channel yet)
              ''',
              ensures='''
                // the induction base of the C13 invariant: a new filter satisfies it and counts no channel for any key
                r.inv(final(fx)) && final(fx).same(old(fx)), // @core:C13
                r.channels_per_key == channels_per_key && forall|k: u64| r.live_for_key(final(fx), k) == 0, // @C13
              '''),
            F(IMPL, 'increment_channels_for_key', fx=True, tags='C13', unwrap_or_else=['Option'],
              requires='old(self).inv(old(fx)), // @core',
              ensures='''
                final(self).inv(final(fx)), // @core:C13
                final(self).channels_per_key == old(self).channels_per_key, // @core
                // C13: a new channel is shed only if n channels with its key are alive at that moment
                r matches Err(k) ==> k == key && old(self).live_for_key(old(fx), key) >= old(self).channels_per_key && final(fx).same(old(fx)), // @C13
                final(self).listener == old(self).listener && final(self).dropped_keys == old(self).dropped_keys && final(self).keymaker == old(self).keymaker, // @core
                // C13: an admitted channel is counted against its own key
                r matches Ok(a) ==> final(fx).key_of.contains_key(a.tid()) && final(fx).key_of[a.tid()] == key && final(fx).live_on(a.tid()) == old(self).live_for_key(old(fx), key) + 1, // @C13
              ''',
              hints=[              ]),
            F(IMPL, 'handle_new_channel', fx=True, tags='C13',
              requires='old(self).inv(old(fx)), // @core',
              ensures='''
                final(self).inv(final(fx)), // @core:C13
                final(self).channels_per_key == old(self).channels_per_key && final(self).listener == old(self).listener && final(self).dropped_keys == old(self).dropped_keys, // @core
                r matches Err(k) ==> old(self).live_for_key(old(fx), k) >= old(self).channels_per_key && final(fx).same(old(fx)), // @C13
                r matches Ok(c) ==> final(fx).live_on(c.tracker.tid()) >= 1 && final(fx).live_on(c.tracker.tid()) <= final(self).channels_per_key, // @C13
              '''),
            F(IMPL, 'poll_listener', fx=True, tags='C13',
              requires='old(self).inv(old(fx)), // @core',
              ensures='''
                final(self).inv(final(fx)), // @core:C13
                final(self).channels_per_key == old(self).channels_per_key && final(self).dropped_keys == old(self).dropped_keys, // @core
                r matches Poll::Ready(Some(Ok(c))) ==> final(fx).live_on(c.tracker.tid()) >= 1 && final(fx).live_on(c.tracker.tid()) <= final(self).channels_per_key, // @C13
                r matches Poll::Ready(Some(Err(k))) ==> old(self).live_for_key(old(fx), k) >= old(self).channels_per_key, // @C13
                r is Pending ==> final(self).listener.reg() && final(fx).same(old(fx)), // @C02
                r matches Poll::Ready(None) ==> final(self).listener.done() && final(fx).same(old(fx)), // @C10
              '''),
            F(IMPL, 'poll_closed_channels', fx=True, tags='C13',
              requires='old(self).inv(old(fx)), // @core',
              ensures='''
                // C13: processing a (possibly stale) close notification never forgets a key that still has live channels
                final(self).inv(final(fx)), // @core:C13
                final(self).channels_per_key == old(self).channels_per_key && final(fx).same(old(fx)) && final(self).listener == old(self).listener, // @core
                r is Pending ==> final(self).dropped_keys.reg(), // @C02
              '''),
            F(STREAM, 'poll_next', fx=True, tags='C13', attrs='#[verifier::exec_allows_no_decreases_clause]',
              requires='old(self).inv(old(fx)), // @core',
              ensures='''
                final(self).inv(final(fx)), // @core:C13
                r matches Poll::Ready(Some(c)) ==> final(fx).live_on(c.tracker.tid()) >= 1 && final(fx).live_on(c.tracker.tid()) <= final(self).channels_per_key, // @C13
                r is Pending ==> final(self).listener.reg() && final(self).dropped_keys.reg(), // @C02
                r matches Poll::Ready(None) ==> final(self).listener.done(), // @C10
              ''',
              loops=['''
                invariant
                    self.inv(fx), // @core:C13
                    self.channels_per_key == old(self).channels_per_key, // @core
              ''']),
        ]),
        LEMMAS,
    ])
