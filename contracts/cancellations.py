"""Unit `cancellations` — crate::cancellations (tarpc/src/cancellations.rs): the thin wrappers the client and
server units model as RequestCancellation::cancel / CanceledRequests::poll_*: proved to forward faithfully."""
from vx.extract import Fn, Impl, Raw, Rule, TypeItem, Unit

SRC = 'tarpc/src/cancellations.rs'
RULES = [
    Rule('R5:tx', r'mpsc::UnboundedSender<u64>', 'mpsc::UnboundedSender', why='prelude model is monomorphic'),
    Rule('R5:rx', r'mpsc::UnboundedReceiver<u64>', 'mpsc::UnboundedReceiver', why='prelude model is monomorphic'),
]


def unit():
    return Unit('cancellations', prelude=['base.rs', 'mpsc_u64.rs'], rules=RULES, fx_type='QFx',
                fx_fns=[], fx_prims=[r'self\.0\.send\('], parts=[
        TypeItem(SRC, 'struct', 'RequestCancellation'),
        TypeItem(SRC, 'struct', 'CanceledRequests'),
        Fn(SRC, None, 'cancellations', tags='C03,C04',
           ensures='''
             // C03/C04: the handle and the stream returned together are the two ends of ONE queue: what is cancelled through the
             // first is what the second yields
             r.0.0.chan() == r.1.0.chan(), // @C03,C04
           '''),
        Impl('impl RequestCancellation', qual='RequestCancellation', parts=[
            Fn(SRC, r'impl RequestCancellation', 'cancel', fx=True, tags='C03,C04,C11',
               ensures='''
                 // C03/C04/C11: cancelling id queues exactly that id, once
                 final(fx).log == old(fx).log.push(QEffect::Sent { v: request_id }), // @C03,C04,C11
               '''),
        ]),
        Impl('impl CanceledRequests', qual='CanceledRequests', parts=[
            Fn(SRC, r'impl CanceledRequests', 'poll_recv', tags='C03,C04,C11',
               ensures='r == old(self).0.next_answer(), // @C03,C04,C11'),
            Fn(SRC, r'impl Stream for CanceledRequests', 'poll_next', tags='C03,C04,C11',
               ensures='r == old(self).0.next_answer(), // @C03,C04,C11'),
        ]),
    ])
