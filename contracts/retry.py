"""Unit `retry` — client::stub::Retry::call (tarpc/src/client/stub/retry.rs), the retry half of C20, for an
UNBOUNDED number of attempts (the Kani harness k5_retry_* is bounded to 3).

The generic wrapped `Stub` is instantiated with an opaque model that may answer anything and logs every call
(ghost log RFx). Contract: every call made on the wrapped stub carries the caller's context and the caller's
request; attempts are numbered 1, 2, 3, ...; the policy asked for a retry after every attempt but the last and
not after the last; the result returned is the last attempt's result."""
import re
from vx.extract import Fn, Impl, Raw, Rule, TypeItem, Unit

SRC = 'tarpc/src/client/stub/retry.rs'
IMPL = r'impl<Stub, Req, F> stub::Stub for Retry<F, Stub> where .*'

RULES = [
    Rule('R5:assoc-resp', r'Stub::Resp', 'Resp', why='associated type of the wrapped stub written as a type parameter'),
    Rule('R5:assoc-req', r'Self::Req', 'Req', where='sig', why='associated type of the impl (type Req = Req)'),
]

LOOP = '''
    invariant
        forall|x: &Result<Resp, RpcError>, n: u32| call_requires(self.should_retry, (x, n)),
        fx.log.len() >= old(fx).log.len(), *request == request0,
        fx.log.len() - old(fx).log.len() < u32::MAX ==> i__next == fx.log.len() - old(fx).log.len() + 1, // @C20
        forall|j: int| 0 <= j < old(fx).log.len() ==> #[trigger] fx.log[j] == old(fx).log[j], // @C20
        forall|j: int| old(fx).log.len() <= j < fx.log.len() ==> (#[trigger] fx.log[j]).ctx == ctx && fx.log[j].request == request0, // @C20
        forall|j: int| old(fx).log.len() <= j < fx.log.len() && j - old(fx).log.len() < u32::MAX ==>
            call_ensures(self.should_retry, (&(#[trigger] fx.log[j]).result, (j - old(fx).log.len() + 1) as u32), true), // @C20
'''


def _counter_spelling():
    """The attempt counter may be spelled `for i in 1.. {` (rule R18 writes it out) or as an explicit `let mut n = 1; loop {`
    with `n += 1` in the body. The contract is the same; only the name the loop invariant uses for the counter differs."""
    import os
    from vx import extract
    try:
        text = open(os.path.join(extract.REPO, SRC)).read()
    except OSError:
        return 'i__next', True
    m = re.search(r'for (\w+) in \d+\.\. \{', text)
    if m:
        return m.group(1) + '__next', True
    m = re.search(r'let mut (\w+)(?:: u32)? = \d+;\s*\n\s*loop \{', text)
    if m:
        return m.group(1), False
    return 'i__next', True


def unit():
    ctr, for_spelling = _counter_spelling()
    loop_inv = LOOP.replace('i__next', ctr)
    r18 = [Rule('R18:range-from', r'for (\w+) in (\d+)\.\. \{', r'let mut \1__next: u32 = \2;\n        loop {\n            let \1 = \1__next; \1__next = range_from_step(\1__next);', 1, where='body',
                why='definition of `for` over RangeFrom<u32> (the counter type is fixed by the policy closure\'s signature): `next()` yields the counter and advances it by one (prelude model range_from_step)')] if for_spelling else []
    return Unit('retry', prelude=['base.rs', 'time.rs', 'retry_models.rs'], rules=RULES, fx_type='RFx<Req, Resp>',
                fx_fns=[r'self\.stub\.call\('], parts=[
        TypeItem(SRC, 'struct', 'Retry', attrs='#[verifier::reject_recursive_types(Req)] #[verifier::reject_recursive_types(Resp)]', rules=[
            Rule('R5:retry-generics', r'pub struct Retry<F, Stub>', 'pub struct Retry<F, Req, Resp>', 1, why='the wrapped stub type is instantiated with the opaque model'),
            Rule('R5:retry-stub', r'stub: Stub,', 'stub: InnerStub<Req, Resp>,', 1, why='see R5:retry-generics'),
        ]),
        Impl('impl<Req, Resp, F: Fn(&Result<Resp, RpcError>, u32) -> bool> Retry<F, Req, Resp>', qual='Retry', parts=[
            Fn(SRC, IMPL, 'call', fx=True, tags='C20', attrs='#[verifier::exec_allows_no_decreases_clause]',
               rules=r18 + [
                   Rule('R1:unreachable', r'^[ \t]*unreachable!\("[^"]*"\);\n', '', '*', where='body', flags=re.M,
                        why='dead code after a loop without `break`'),
                   Rule('R2b:param-rebind', r'request: Req', 'request0: Req', 1, where='sig',
                        why='the parameter is shadowed by `let request = Arc::new(request)`; it is written as a rebinding so that the contract can name the original'),
               ],
               pre='let request = request0;',
               loops=[loop_inv],
               requires='forall|x: &Result<Resp, RpcError>, n: u32| call_requires(self.should_retry, (x, n)), // @core',
               ensures='''
                 // C20: at least one attempt; nothing else happens to the wrapped stub's history
                 final(fx).log.len() >= old(fx).log.len() + 1, // @C20
                 forall|j: int| 0 <= j < old(fx).log.len() ==> #[trigger] final(fx).log[j] == old(fx).log[j], // @C20
                 // C20: every attempt carries the caller's context (deadline, trace context) and the caller's request
                 forall|j: int| old(fx).log.len() <= j < final(fx).log.len() ==> (#[trigger] final(fx).log[j]).ctx == ctx && final(fx).log[j].request == request0, // @C20,C07,C18
                 // C20: the result is the last attempt's result
                 r == final(fx).log[final(fx).log.len() - 1].result, // @C20
                 // C20: attempts are numbered 1, 2, 3, ...; the policy asked for a retry after every attempt but the last, and not after the last
                 forall|j: int| old(fx).log.len() <= j < final(fx).log.len() - 1 && j - old(fx).log.len() < u32::MAX ==>
                     call_ensures(self.should_retry, (&(#[trigger] final(fx).log[j]).result, (j - old(fx).log.len() + 1) as u32), true), // @C20
                 final(fx).log.len() - old(fx).log.len() <= u32::MAX ==>
                     call_ensures(self.should_retry, (&final(fx).log[final(fx).log.len() - 1].result, (final(fx).log.len() - old(fx).log.len()) as u32), false), // @C20
               '''),
        ]),
    ])
