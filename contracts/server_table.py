"""U2 — the server channel's in-flight request table (tarpc/src/server/in_flight_requests.rs).

View  self@ : Map<u64, SEntry>  (id -> identity of the handler's abort handle);  timers() as in
the client table.  Effects (ghost log SFx): Abort{handle}.
"""
import re
from vx.extract import Fn, Impl, Lift, Raw, Rule, TypeItem

SRC = 'tarpc/src/server/in_flight_requests.rs'
IMPL = r'impl InFlightRequests'

TABLE_RULES = [
    Rule('R7:compact', r'self\.request_data\.compact\(0\.1\);', 'compact_map(&mut self.request_data);',
         why='frame-only model of util::Compact (capacity only)'),
    Rule('R7:compact-lifted', r'(?<![\w.])request_data_map\.compact\(0\.1\);', 'compact_map(request_data_map);',
         why='frame-only model of util::Compact (capacity only)'),
    Rule('R5:delayqueue-type', r'DelayQueue<u64>', 'DelayQueue', where='sig', why='prelude model is monomorphic in the value type u64'),
]

FX_CALLS = [r'abort_handle\.abort\(', r'Self::poll_expired__closure\(', r'\.cancel_request\(', r'in_flight_requests(?:_mut\(\))?\s*\.poll_expired\(']

VOCAB = Raw('''
pub struct SEntry { pub handle: int }
/// C09/C04: the log l1 extends l0 by exactly one Abort per entry of v (in the order `order` of their ids), each on the
/// abort handle of that entry
pub open spec fn aborted_all(v: Map<u64, SEntry>, l0: Seq<SEffect>, l1: Seq<SEffect>, order: Seq<u64>) -> bool {
    &&& forall|i: int, j: int| 0 <= i < j < order.len() ==> order[i] != order[j]
    &&& forall|i: int| 0 <= i < order.len() ==> v.contains_key(#[trigger] order[i])
    &&& forall|k: u64| v.contains_key(k) ==> exists|i: int| 0 <= i < order.len() && #[trigger] order[i] == k
    &&& l1.len() == l0.len() + order.len()
    &&& forall|i: int| 0 <= i < l0.len() ==> #[trigger] l1[i] == l0[i]
    &&& forall|i: int| 0 <= i < order.len() ==> (#[trigger] l1[l0.len() + i]) == (SEffect::Abort { handle: v[order[i]].handle })
}
''')

DROP_LOOP = '''
    invariant
        0 <= it__n <= it__all.len(), values__it@ == it__all.subrange(it__n, it__all.len() as int),
        fx.log.len() == old(fx).log.len() + it__n,
        forall|i: int| 0 <= i < old(fx).log.len() ==> #[trigger] fx.log[i] == old(fx).log[i],
        forall|i: int| 0 <= i < it__n ==> (#[trigger] fx.log[old(fx).log.len() + i]) == (SEffect::Abort { handle: it__all[i].1.abort_handle.id() }), // @C09
    ensures it__n == it__all.len(),
    decreases it__all.len() - it__n
'''
DROP_POST = '''
    proof {
        let order = Seq::new(it__all.len(), |i: int| it__all[i].0);
        assert(aborted_all(old(self)@, old(fx).log, fx.log, order)) by {
            assert forall|k: u64| old(self)@.contains_key(k) implies exists|i: int| 0 <= i < order.len() && #[trigger] order[i] == k by {
                assert(old(self).request_data@.contains_key(k));
                let i = choose|i: int| 0 <= i < it__all.len() && (#[trigger] it__all[i]).0 == k;
                assert(order[i] == k);
            }
        }
    }
'''

IMPL_VOCAB = Raw('''
    /// abstract view: id -> identity of the abort handle of the request's handler
    pub open spec fn view(&self) -> Map<u64, SEntry> {
        Map::new(
            self.request_data@.dom(),
            |id: u64| SEntry { handle: self.request_data@[id].abort_handle.id() },
        )
    }
    /// `#[derive(Default)]`: every field's `Default` -- the empty map and `DelayQueue::new()`. There is no source text to
    /// extract for a derived impl (A-derive); that this state satisfies the table invariant is lemma_default_wf below.
    #[verifier::external_body]
    pub fn default() -> (r: Self)
        ensures r.request_data@ == Map::<u64, RequestData>::empty(), r.deadlines@ == Map::<delay_queue::Key, delay_queue::Entry>::empty(),
    { unimplemented!() }
    /// the induction base of the table invariant
    pub proof fn lemma_default_wf(&self)
        requires self.request_data@ == Map::<u64, RequestData>::empty(), self.deadlines@ == Map::<delay_queue::Key, delay_queue::Entry>::empty(),
        ensures self.wf(), self@ =~= Map::<u64, SEntry>::empty(), self.timers() =~= Map::<delay_queue::Key, delay_queue::Entry>::empty(),
    {
        broadcast use vstd::std_specs::hash::group_hash_axioms;
    }
    pub open spec fn timers(&self) -> Map<delay_queue::Key, delay_queue::Entry> { self.deadlines@ }
    pub open spec fn timers_reg(&self) -> bool { self.deadlines.reg() }
    pub open spec fn key_of(&self, id: u64) -> delay_queue::Key { self.request_data@[id].deadline_key }
    /// representation invariant: timers <-> entries bijection (C11; panic freedom of remove: C16)
    pub open spec fn wf(&self) -> bool {
        &&& vstd::std_specs::hash::obeys_key_model::<u64>()
        &&& forall|id: u64| #[trigger] self.request_data@.contains_key(id) ==>
                self.deadlines@.contains_key(self.request_data@[id].deadline_key)
                && self.deadlines@[self.request_data@[id].deadline_key].value == id
        &&& forall|k: delay_queue::Key| #[trigger] self.deadlines@.contains_key(k) ==>
                self.request_data@.contains_key(self.deadlines@[k].value)
                && self.request_data@[self.deadlines@[k].value].deadline_key == k
    }
''')


def parts():
    return [
        VOCAB,
        TypeItem(SRC, 'struct', 'InFlightRequests'),
        TypeItem(SRC, 'struct', 'RequestData'),
        TypeItem(SRC, 'struct', 'AlreadyExistsError', attrs='#[derive(Debug)]'),
        Impl('impl InFlightRequests', qual='InFlightRequests', parts=[
            IMPL_VOCAB,
            Fn(SRC, IMPL, 'len', tags='C11',
               requires='self.wf(), // @core',
               ensures='n == self@.dom().len(), // @C11',
               ret='n', pre='proof { assert(self@.dom() =~= self.request_data@.dom()); }'),
            Fn(SRC, IMPL, 'start_request', tags='C16',
               requires='old(self).wf(), // @core',
               ensures='''
                   final(self).wf(), // @core:C04,C06,C08,C11,C16
                   old(self)@.contains_key(request_id) ==> r is Err && final(self)@ =~= old(self)@ && final(self).timers() =~= old(self).timers(), // @C08,C11
                   !old(self)@.contains_key(request_id) ==> (r matches Ok(reg) && final(self)@ =~= old(self)@.insert(request_id, SEntry { handle: reg.id() })), // @C08,C04
                   !old(self)@.contains_key(request_id) ==> !old(self).timers().contains_key(final(self).key_of(request_id))
                       && final(self).timers() =~= old(self).timers().insert(final(self).key_of(request_id), delay_queue::Entry { value: request_id, delay: dmin(until(deadline), max_timer_delay()) }), // @C06,C11
                   // the steps of the history lemma (lemmas/server_history.rs)
                   r matches Ok(reg) ==> sstep_start(old(self)@, final(self)@, request_id, reg.id(), true), // @C08
                   r is Err ==> sstep_start(old(self)@, final(self)@, request_id, 0, false), // @C08
               '''),
            Fn(SRC, IMPL, 'cancel_request', fx=True, tags='C16',
               requires='old(self).wf(), // @core',
               ensures='''
                   final(self).wf(), // @core:C04,C11,C16
                   final(self)@ =~= old(self)@.remove(request_id), // @C04,C11
                   r == old(self)@.contains_key(request_id), // @C04
                   old(self)@.contains_key(request_id) ==> final(fx).log == old(fx).log.push(SEffect::Abort { handle: old(self)@[request_id].handle }), // @C04
                   old(self)@.contains_key(request_id) ==> final(self).timers() =~= old(self).timers().remove(old(self).key_of(request_id)), // @C11
                   !old(self)@.contains_key(request_id) ==> final(fx).log == old(fx).log && final(self).timers() =~= old(self).timers(), // @C04,C16
                   sstep_cancel(old(self)@, old(fx).log, final(self)@, final(fx).log, request_id, r), // @C04,C08
               '''),
            Fn(SRC, IMPL, 'remove_request', tags='C16',
               requires='old(self).wf(), // @core',
               ensures='''
                   final(self).wf(), // @core:C08,C11,C16
                   final(self)@ =~= old(self)@.remove(request_id), // @C08,C11
                   r is Some == old(self)@.contains_key(request_id), // @C08
                   old(self)@.contains_key(request_id) ==> final(self).timers() =~= old(self).timers().remove(old(self).key_of(request_id)), // @C11
                   !old(self)@.contains_key(request_id) ==> final(self).timers() =~= old(self).timers(), // @C16
                   sstep_remove(old(self)@, final(self)@, request_id, r is Some), // @C08
               '''),
            Fn(SRC, r'impl Drop for InFlightRequests', 'drop', fx=True, tags='C16', fuse_iter=True,
               loops=[DROP_LOOP], post=DROP_POST,
               requires='old(self).wf(), // @core',
               ensures='''
                   // C09/C04: dropping the table (the channel went away) aborts the handler of every request still in flight, once each, and nothing else
                   exists|order: Seq<u64>| aborted_all(old(self)@, old(fx).log, final(fx).log, order), // @C09,C04
                   final(self)@ =~= old(self)@ && final(self).timers() =~= old(self).timers(), // @core
               '''),
            Fn(SRC, IMPL, 'poll_expired', fx=True, tags='C16',
               hints=[('let lifted__r = Self::poll_expired__closure(', '''
                   proof {
                       if let Some(id) = lifted__r {
                           assert(old(self).request_data@.contains_key(id));
                           assert(old(self)@[id].handle == old(self).request_data@[id].abort_handle.id());
                       }
                   }
               ''')],
               lifts=[Lift(anchor=r'\.map\(\|(?P<arg>expired)\| \{', name='poll_expired__closure',
                           params='request_data_map: &mut FnvHashMap<u64, RequestData>, expired: Option<delay_queue::Expired>',
                           call_args='&mut self.request_data, expired',
                           ret='Option<u64>',
                           renames=[('self.request_data', 'request_data_map')],
                           fx=True,
                           requires='vstd::std_specs::hash::obeys_key_model::<u64>(), // @core',
                           ensures='''
                               expired is None ==> r is None && final(request_data_map)@ == old(request_data_map)@ && final(fx).log == old(fx).log, // @C06
                               expired matches Some(e) ==> r == Some(e.value()) && final(request_data_map)@ == old(request_data_map)@.remove(e.value()), // @C06,C11
                               expired matches Some(e) ==> (old(request_data_map)@.contains_key(e.value()) ==>
                                   final(fx).log == old(fx).log.push(SEffect::Abort { handle: old(request_data_map)@[e.value()].abort_handle.id() })), // @C06
                               expired matches Some(e) ==> (!old(request_data_map)@.contains_key(e.value()) ==> final(fx).log == old(fx).log), // @C06
                           ''')],
               requires='old(self).wf(), // @core',
               ensures='''
                   final(self).wf(), // @core:C06,C11,C16
                   r matches Poll::Ready(Some(id)) ==> old(self)@.contains_key(id) && final(self)@ =~= old(self)@.remove(id)
                       && old(self).timers().contains_key(old(self).key_of(id)) && final(self).timers() =~= old(self).timers().remove(old(self).key_of(id)), // @C06,C11
                   r matches Poll::Ready(Some(id)) ==> final(fx).log == old(fx).log.push(SEffect::Abort { handle: old(self)@[id].handle }), // @C06
                   r matches Poll::Ready(Some(id)) ==> sstep_expire(old(self)@, old(fx).log, final(self)@, final(fx).log, id), // @C06,C08
                   r matches Poll::Ready(None) ==> old(self).timers() =~= Map::<delay_queue::Key, delay_queue::Entry>::empty() && final(self)@ =~= old(self)@ && final(self).timers() =~= old(self).timers() && final(fx).log == old(fx).log, // @C06,C10
                   r is Pending ==> final(self)@ =~= old(self)@ && final(self).timers() =~= old(self).timers() && final(fx).log == old(fx).log && final(self).timers_reg(), // @C02,C06
               '''),
        ]),
    ]


def unit():
    from vx.extract import Unit
    return Unit('server_table', prelude=['base.rs', 'time.rs', 'delay_queue.rs', 'server_models.rs', 'hash_iter.rs'],
                parts=parts(), rules=TABLE_RULES, fx_fns=FX_CALLS, fx_prims=[], fx_type='SFx', lemmas=['server_history.rs'])
