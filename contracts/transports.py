"""Unit `transports` (U8) — the shipped in-memory transports (tarpc/src/transport/channel.rs) and the
serde transport's Stream/Sink layer (tarpc/src/serde_transport.rs): tarpc's own part of C15.

What is proved: every forwarder hands the item it was given to the right queue exactly once and
unchanged (whole-sequence postcondition on `sent()`), never touches the queue otherwise, and
reports exactly what the queue reported (items as `Ok(item)`, end-of-stream as end-of-stream,
Pending as Pending, errors as errors); the two constructors cross-wire the two ends.  Together with
FIFO delivery of the queues (A-mpsc) and the codec (A-codec) this is "complete, unmodified, in
order, then end-of-stream"."""
import re
from vx.extract import Fn, Impl, Raw, Rule, TypeItem, Unit

CH = 'tarpc/src/transport/channel.rs'
ST = 'tarpc/src/serde_transport.rs'

RULES = [
    Rule('R2:project-let', r'let (this|self_|me|projected) = self\s*\.project\(\);', r'let \1 = self;', flags=re.M | re.S, why='A-pin: the projection bound to a local is the (re-borrowed) struct itself; its fields are places'),
    Rule('R2:project-let-deref', r'(?<![\w.])\*(this|self_|me|projected)\.(\w+)', r'\1.\2', why='A-pin: a projected field is a reference to the field; dereferencing it is the field'),
    Rule('R2:project-let-take', r'(?:std::)?mem::(take|replace)\((this|self_|me|projected)\.(\w+)', r'std::mem::\1(&mut \2.\3', why='A-pin: a projected non-pinned field is `&mut field`'),
    Rule('R2:project-binding', r'self\s*\.project\(\)\s*\.(\w+);', r'&mut self.\1;', flags=re.M | re.S, why='A-pin: a projected field bound to a local is a mutable borrow of that field'),
    Rule('R2:project', r'self\s*\.project\(\)\s*\.', 'self.', flags=re.M | re.S, why='A-pin: projection is field access'),
    Rule('R5:boxed-error', r"Box<dyn Error \+ Send \+ Sync \+ 'static>", 'BoxErr', why='opaque boxed error (prelude model)'),
    Rule('R5:box-new', r'Box::new\(e\)', 'BoxErr::new(e)', why='boxing + unsizing coercion to the opaque boxed error'),
    Rule('R5:closed-message', r'CLOSED_MESSAGE\.into\(\)', 'BoxErr::msg()', why='&str -> boxed error conversion; the text is not part of any contract'),
    Rule('R5:unnamed-param', r'\(self: Pin<&mut Self>, _: &mut Context', '(self: Pin<&mut Self>, _cx: &mut Context', where='sig', why='Verus wants named parameters'),
    Rule('R5:unnamed-param2', r'_: &mut TaskCx', '_cx: &mut TaskCx', where='sig', why='Verus wants named parameters'),
    Rule('R9:wildcard-closure-param', r'\.map_err\(\|_\| ', '.map_err(|_e| ', why='Verus wants a variable, not a pattern, as closure parameter'),
    Rule('R5:self-error', r'Self::Error', 'ChannelError', where='sig', why='Sink::Error of the channel impls'),
    # R16: a datatype constructor used as a function value is eta-expanded (Verus has no constructor values)
    Rule('R16:eta-ok', r'\|option\| option\.map\(Ok\)',
         '|option: Option<Item>| -> (o: Option<Result<Item, BoxErr>>) ensures o == (match option { Some(x) => Some(Ok::<Item, BoxErr>(x)), None => None::<Result<Item, BoxErr>> }) '
         '{ option.map(|v__: Item| -> (y: Result<Item, BoxErr>) ensures y == Ok::<Item, BoxErr>(v__) { Ok(v__) }) }',
         why='eta-expansion of the constructor `Ok` + closure annotations (R9)'),
    Rule('R16:eta-receive', r'\.map_err\(ChannelError::Receive\)', '.map_err(|e__: BoxErr| -> (c: ChannelError) ensures c is Receive { ChannelError::Receive(e__) })',
         why='eta-expansion of the constructor + closure annotation (R9)'),
]
SERDE_RULES = [
    Rule('R5:serde-framed', r'SerdeFramed<Framed<S, LengthDelimitedCodec>, Item, SinkItem, Codec>', 'SerdeFramed<Item, SinkItem>', why='prelude model of the framed codec stack'),
    Rule('R5:transport-generics', r'Transport<S, Item, SinkItem, Codec>', 'Transport<Item, SinkItem>', why='byte stream and codec type parameters erased with the model'),
    Rule('R5:struct-generics', r'pub struct Transport<Item, SinkItem>', 'pub struct Transport<Item, SinkItem>', why='(after the rule above)'),
]

ST_STREAM = r'impl<S, Item, SinkItem, Codec, CodecError> Stream for Transport<S, Item, SinkItem, Codec> where .*'
ST_SINK = r'impl<S, Item, SinkItem, Codec, CodecError> Sink<SinkItem> for Transport<S, Item, SinkItem, Codec> where .*'

RECV = '''
            match old(self).rx.next_answer() {
                Poll::Ready(Some(t)) => r == Poll::<Option<Result<Item, ChannelError>>>::Ready(Some(Ok(t))),
                Poll::Ready(None) => r == Poll::<Option<Result<Item, ChannelError>>>::Ready(None),
                Poll::Pending => r is Pending,
            }, // @C15
            final(self).tx.sent() == old(self).tx.sent(), // @C15
'''


def unit():
    return Unit('transports', prelude=['base.rs', 'forward.rs'], rules=RULES, parts=[
        TypeItem(CH, 'enum', 'ChannelError', attrs=''),
        TypeItem(CH, 'struct', 'UnboundedChannel', known_fields=['rx', 'tx'], attrs='#[verifier::reject_recursive_types(Item)] #[verifier::reject_recursive_types(SinkItem)]'),
        TypeItem(CH, 'struct', 'Channel', known_fields=['rx', 'tx'], attrs='#[verifier::reject_recursive_types(Item)] #[verifier::reject_recursive_types(SinkItem)]'),
        Fn(CH, None, 'unbounded', tags='C15',
           ensures='''
             // the two peers are cross-wired: what one sends is what the other receives
             r.0.tx.chan() == r.1.rx.chan() && r.1.tx.chan() == r.0.rx.chan(), // @C15
             r.0.tx.sent().len() == 0 && r.1.tx.sent().len() == 0, // @C15
           '''),
        Fn(CH, None, 'bounded', tags='C15',
           ensures='''
             r.0.tx.chan() == r.1.rx.chan() && r.1.tx.chan() == r.0.rx.chan(), // @C15
             r.0.tx.sent().len() == 0 && r.1.tx.sent().len() == 0, // @C15
           '''),
        Impl('impl<Item, SinkItem> UnboundedChannel<Item, SinkItem>', qual='UnboundedChannel', parts=[
            Fn(CH, r'impl<Item, SinkItem> Stream for UnboundedChannel<Item, SinkItem>', 'poll_next', tags='C15', ensures=RECV),
            Fn(CH, r'impl<Item, SinkItem> Sink<SinkItem> for UnboundedChannel<Item, SinkItem>', 'poll_ready', tags='C15',
               ensures='''
                 r is Ready, // @C14
                 (r matches Poll::Ready(Ok(_))) == !old(self).tx.closed(), // @C15
               '''),
            Fn(CH, r'impl<Item, SinkItem> Sink<SinkItem> for UnboundedChannel<Item, SinkItem>', 'start_send', tags='C15',
               ensures='''
                 // the item is handed to the peer's queue exactly once, unchanged, or not at all (and then an error is reported)
                 r is Ok ==> final(self).tx.sent() == old(self).tx.sent().push(item), // @C15
                 r is Err ==> final(self).tx.sent() == old(self).tx.sent(), // @C15
                 r is Ok == !old(self).tx.closed(), // @C15
                 final(self).tx.chan() == old(self).tx.chan() && final(self).rx.chan() == old(self).rx.chan(), // @C15
               '''),
            Fn(CH, r'impl<Item, SinkItem> Sink<SinkItem> for UnboundedChannel<Item, SinkItem>', 'poll_flush', tags='C15',
               ensures='r matches Poll::Ready(Ok(_)), // @C15'),
            Fn(CH, r'impl<Item, SinkItem> Sink<SinkItem> for UnboundedChannel<Item, SinkItem>', 'poll_close', tags='C15',
               ensures='r matches Poll::Ready(Ok(_)), // @C15'),
        ]),
        Impl('impl<Item, SinkItem> Channel<Item, SinkItem>', qual='Channel', parts=[
            Fn(CH, r'impl<Item, SinkItem> Stream for Channel<Item, SinkItem>', 'poll_next', tags='C15', ensures=RECV),
            Fn(CH, r'impl<Item, SinkItem> Sink<SinkItem> for Channel<Item, SinkItem>', 'poll_ready', tags='C15',
               ensures='''
                 r is Pending == old(self).tx.ready_answer() is Pending, // @C14,C15
                 (r matches Poll::Ready(Ok(_))) == (old(self).tx.ready_answer() matches Poll::Ready(Ok(_))), // @C14,C15
                 final(self).tx.sent() == old(self).tx.sent(), // @C15
               '''),
            Fn(CH, r'impl<Item, SinkItem> Sink<SinkItem> for Channel<Item, SinkItem>', 'start_send', tags='C15',
               ensures='''
                 r is Ok ==> final(self).tx.sent() == old(self).tx.sent().push(item), // @C15
                 r is Err ==> final(self).tx.sent() == old(self).tx.sent(), // @C15
                 r is Ok == old(self).tx.send_answer() is Ok, // @C15
                 final(self).tx.chan() == old(self).tx.chan(), // @C15
               '''),
            Fn(CH, r'impl<Item, SinkItem> Sink<SinkItem> for Channel<Item, SinkItem>', 'poll_flush', tags='C15',
               ensures='''
                 r is Pending == old(self).tx.flush_answer() is Pending, // @C14,C15
                 (r matches Poll::Ready(Ok(_))) == (old(self).tx.flush_answer() matches Poll::Ready(Ok(_))), // @C14,C15
                 final(self).tx.sent() == old(self).tx.sent(), // @C15
               '''),
            Fn(CH, r'impl<Item, SinkItem> Sink<SinkItem> for Channel<Item, SinkItem>', 'poll_close', tags='C15',
               ensures='''
                 r is Pending == old(self).tx.close_answer() is Pending, // @C14,C15
                 (r matches Poll::Ready(Ok(_))) == (old(self).tx.close_answer() matches Poll::Ready(Ok(_))), // @C14,C15
                 final(self).tx.sent() == old(self).tx.sent(), // @C15
               '''),
        ]),
        TypeItem(ST, 'struct', 'Transport', rules=SERDE_RULES, known_fields=['inner'], attrs='#[verifier::reject_recursive_types(Item)] #[verifier::reject_recursive_types(SinkItem)]'),
        Impl('impl<Item, SinkItem> Transport<Item, SinkItem>', qual='serde_transport::Transport', parts=[
            Fn(ST, ST_STREAM, 'poll_next', tags='C15', rules=SERDE_RULES,
               ensures='''
                 // whatever the framed codec yields is yielded: items unchanged, end-of-stream as end-of-stream, errors as errors
                 match old(self).inner.next_answer() {
                     Poll::Ready(Some(Ok(t))) => r matches Poll::Ready(Some(Ok(u))) && u == t,
                     Poll::Ready(Some(Err(_))) => r matches Poll::Ready(Some(Err(_))),
                     Poll::Ready(None) => r matches Poll::Ready(None),
                     Poll::Pending => r is Pending,
                 }, // @C15,C16
                 final(self).inner.sent() == old(self).inner.sent(), // @C15
               '''),
            Fn(ST, ST_SINK, 'poll_ready', tags='C15', rules=SERDE_RULES,
               ensures='''
                 r is Pending == old(self).inner.ready_answer() is Pending, // @C14,C15
                 (r matches Poll::Ready(Ok(_))) == (old(self).inner.ready_answer() matches Poll::Ready(Ok(_))), // @C14,C15
                 final(self).inner.sent() == old(self).inner.sent(), // @C15
               '''),
            Fn(ST, ST_SINK, 'start_send', tags='C15', rules=SERDE_RULES,
               ensures='''
                 r is Ok ==> final(self).inner.sent() == old(self).inner.sent().push(item), // @C15
                 r is Err ==> final(self).inner.sent() == old(self).inner.sent(), // @C15
                 r is Ok == old(self).inner.send_answer() is Ok, // @C15
               '''),
            Fn(ST, ST_SINK, 'poll_flush', tags='C15', rules=SERDE_RULES,
               ensures='''
                 r is Pending == old(self).inner.flush_answer() is Pending, // @C14,C15
                 (r matches Poll::Ready(Ok(_))) == (old(self).inner.flush_answer() matches Poll::Ready(Ok(_))), // @C14,C15
                 final(self).inner.sent() == old(self).inner.sent(), // @C15
               '''),
            Fn(ST, ST_SINK, 'poll_close', tags='C15', rules=SERDE_RULES,
               ensures='''
                 r is Pending == old(self).inner.close_answer() is Pending, // @C14,C15
                 (r matches Poll::Ready(Ok(_))) == (old(self).inner.close_answer() matches Poll::Ready(Ok(_))), // @C14,C15
                 final(self).inner.sent() == old(self).inner.sent(), // @C15
               '''),
        ]),
    ])
