"""Bounded stand-ins: native exhaustive tests (crate /verif/native, built against /repo's current
tree) for real functions outside both verifiers' reach. A pass is reported under
coverage.bounded_parts and NEVER counted as proved; a failure is a concrete failing input on the
real code and is reported as a violation with the test as its replay."""
import fcntl
import hashlib
import json
import os
import re
import subprocess
import time

VERIF = os.path.dirname(os.path.dirname(os.path.abspath(__file__)))
BUILD = os.path.join(VERIF, 'build')

# test id -> (test file, test fn, real functions covered, bound)
TESTS = {
    'client_routing_bounded': dict(file='client_routing_bounded', fn='client_routing_exhaustive_small',
                                   functions=['tarpc/src/client.rs::RequestDispatch (through the public API)', 'tarpc/src/client/in_flight_requests.rs::complete_request (through the public API)'],
                                   bound='3 concurrent calls; all 6 answer orders; one unsolicited id derived from a live id by 6 boundary transformations at every position; optional duplicate (660 runs)',
                                   why='replay search: source of concrete failing inputs when the deductive check of the client table is undecided (e.g. a changed data representation) or fails'),
    'client_wire_bounded': dict(file='client_wire_bounded', fn='client_wire_three_calls',
                                functions=['tarpc/src/client.rs::RequestDispatch, Channel::call, ResponseGuard (through the public API, hand-written gated transport)'],
                                bound='up to 3 calls x 4 fates (answered, abandoned queued, abandoned after transmission, kept) x all fate orders x a dispatch poll or not after each step x capacity 1|2 x readiness gated|not x handles dropped|kept x flush immediate|at the second attempt (401664 scenarios); oracles on the wire log (C01 routing, C03 cancel rules, C07 deadline forwarded, C10 close rules, C11 in-flight maximum, C14 sink contract incl. never idle with unflushed items, C18 per-call trace contexts on requests and cancellations)',
                                why='replay search: source of concrete failing inputs when the deductive check is undecided (code rewritten into a shape the contracts cannot be checked against) or fails'),
    'client_backpressure_bounded': dict(file='client_backpressure_bounded', fn='abandoned_calls_under_back_pressure',
                                        functions=['tarpc/src/client.rs::new, Channel::call, ResponseGuard, RequestDispatch; tarpc/src/cancellations.rs (through the public API, in-memory transport, dispatch spawned on a current-thread runtime)'],
                                        bound='in-flight maximum 1..=2 x request buffer 1..=2 x 0..=3 calls blocked in front of the buffer x every call abandoned, in issue | reverse order x dispatch running | not between abandonments (64 scenarios); oracles: every transmitted request is followed by exactly one cancellation, none for a request never transmitted, a later call is transmitted',
                                        why='replay search: abandonment under back-pressure (calls transmitted, buffered and blocked at once), which the 3-call wire search does not reach; source of concrete failing inputs when the deductive check is undecided or fails'),
    'server_wire_bounded': dict(file='server_wire_bounded', fn='server_wire_scripts',
                                functions=['tarpc/src/server.rs::BaseChannel, Requests, InFlightRequest::execute; tarpc/src/server/limits/requests_per_channel.rs::MaxRequests (through the public API, hand-written buffering transport)'],
                                bound='peer scripts of <= 4 messages over {Req 7, Req 8, Cancel 7, Cancel 8} x a channel poll or not after each x handler release order x handlers finishing before the last message or at the end x sink gated|not x limit none|1 x half-close|not (149760 scenarios); oracles on the wire, handler invocation counts, flush state, in_flight_requests()',
                                why='replay search: source of concrete failing inputs when the deductive check is undecided or fails'),
    'server_context_bounded': dict(file='server_context_bounded', fn='handler_sees_the_context_that_was_sent',
                                   functions=['tarpc/src/server.rs::BaseChannel::start_request, InFlightRequest::execute; tarpc/src/trace.rs::Context::new_child (through the public API, in-memory transport, no tracing subscriber)'],
                                   bound='grid of boundary values: 4 trace ids x 3 span ids x 2 sampling decisions x 8 remaining times (0 s .. 10 y) x channel with/without the request-limit layer (384 requests); oracle = the handler observes the received deadline exactly, the transmitted trace id and sampling decision, and a span id of its own',
                                   why='replay search: source of concrete failing inputs when the deductive check of unit server/trace_ctx is undecided (e.g. a new helper function without a contract) or fails'),
    'deadlines_bounded': dict(file='deadlines_bounded', fn='deadlines_enforced_and_never_early',
                              functions=['tarpc/src/client.rs + client/in_flight_requests.rs (deadline timers, through the public API)', 'tarpc/src/server.rs + server/in_flight_requests.rs (deadline timers, through the public API)'],
                              bound='paused tokio clock; deadlines {1 s, 10 s, 60 s, 1 h} x peer reply at {never, 0.5 D, 1.1 D} (client) and handler finishing at {never, 0.5 D, 2 D} x channel with/without the request-limit layer (server), next to a second request with deadline 10 D (36 scenarios); probes at 0.8 D (nothing timed out early) and 1.2 D + 5 ms (timed out by then); plus a queued-before-transmission scenario (C05/C11) a call abandoned as its reply arrives whose deadline then passes (C11/C16), a handler that finishes after its deadline before the channel is polled again (C06), and 1..=2 calls that expire unanswered followed by 1..=2 further calls and then late (duplicated) replies bearing the expired ids (C01: the later calls are not disturbed)',
                              why='replay search: source of concrete failing inputs when the deductive checks of the deadline clauses are undecided or fail'),
    'client_faults_bounded': dict(file='client_faults_bounded', fn='client_fault_injection',
                                  functions=['tarpc/src/client.rs::RequestDispatch (through the public API, hand-written failing transport)'],
                                  bound='1|2 calls x the k-th (k<3) invocation of read|ready|start_send|flush|close fails (a failed transport stays failed; a failed request write is a one-off) x first call answered|not x abandoned|not x client dropped|kept (one more call issued afterwards) x readiness immediate|pending once first (480 scenarios, 364 reach the fault); oracles: error names the activity, outstanding calls get a connection error, later calls fail fast, no success without a reply, a failed request write fails only that call, nothing written after a failure, no panic',
                                  why='replay search: source of concrete failing inputs when the deductive check of unit client is undecided or fails'),
    'server_faults_bounded': dict(file='server_faults_bounded', fn='server_fault_injection',
                                  functions=['tarpc/src/server.rs::BaseChannel, Requests; requests_per_channel.rs::MaxRequests; server/in_flight_requests.rs::Drop (through the public API, hand-written failing transport)'],
                                  bound='peer scripts <= 3 over {Req 7, Req 8, Cancel 7} x the k-th (k<3) invocation of read|ready|start_send|flush fails and stays failed x handlers finish early|never x with/without the request-limit layer x readiness immediate|pending once first (3744 scenarios, 2992 reach the fault); the driver stops serving at the first error like Requests::execute; oracles: exactly one error naming the activity, no write after a failure, running handlers aborted when the channel is dropped, no panic',
                                  why='replay search: source of concrete failing inputs when the deductive check of unit server is undecided or fails'),
    'transports_bounded': dict(file='transports_bounded', fn='in_memory_transports_scripts',
                               functions=['tarpc/src/transport/channel.rs::unbounded, bounded, UnboundedChannel, Channel (through the public API)'],
                               bound='every script of <= 7 events over {end A|B writes its next message, end A|B polls its stream, end A|B is dropped} for unbounded, bounded(1) and bounded(2) (1007766 runs); oracle = two FIFO queues: every accepted message is read exactly once, unchanged, in order; Pending while the peer is alive; end-of-stream only after the last message once the peer was dropped',
                               why='replay search: source of concrete failing inputs when the deductive check of unit transports is undecided or fails'),
    'client_wakeups_bounded': dict(file='client_wakeups_bounded', fn='wake_driven_equals_eager',
                                   functions=['tarpc/src/client.rs::RequestDispatch, Channel::call (through the public API; tasks polled only when their waker fired)'],
                                   bound='every event sequence <= 6 (thorough: 7) over {call, reply 0|1, abandon 0|1, transport becomes writable, last handle dropped} x in-flight maximum 1|2 x writable from the start|not; each scenario run wake-driven and with unsolicited polls, outcomes (call results, dispatch outcome, wire) must coincide; watchdog on readiness polls within one poll',
                                   why='replay search for the liveness side of C02 (the deductive part is only the safety proxy Pending => wake source armed): a lost wakeup shows as less progress in the wake-driven run'),
    'server_wakeups_bounded': dict(file='server_wakeups_bounded', fn='wake_driven_equals_eager',
                                   functions=['tarpc/src/server.rs::BaseChannel, Requests, InFlightRequest::execute; requests_per_channel.rs::MaxRequests (through the public API; tasks polled only when their waker fired)'],
                                   bound='every event sequence <= 5 (thorough: 6) over {Req 7, Req 8, Cancel 7, handler #0|#1 finishes, sink becomes writable, inbound closes} x request limit none|1 x sink writable from the start|not; each scenario run wake-driven and with unsolicited polls, outcomes (wire, handler states, stream state) must coincide',
                                   why='replay search for the liveness side of C02 on the server channel'),
    'codec_grid_bounded': dict(file='codec_grid_bounded', fn='messages_round_trip_under_both_codecs',
                               functions=['tarpc/src/serde_transport.rs::Transport; tarpc/src/lib.rs message types; tarpc/src/trace.rs, context.rs, util/serde.rs codecs (through the public API, over tokio::io::duplex)'],
                               bound='boundary-value grid: 64 requests (ids {0,1,2^32,u64::MAX} x trace ids {0,1,2^64+5,u128::MAX} x span ids x sampling; remaining time passed|1.25 s|10 s|1 h|400 d; bodies empty|1 B|10 kB) + cancels + 24 responses (Ok, the 18 portable error kinds, 2 others) x JSON|bincode x byte-stream buffer 7|64|4096 bytes (660 messages); oracles: exact round trip in order, portable kinds exact / others degrade to Other, end-of-stream after the writer is dropped, deadline never earlier and later by at most the transit, passed deadline arrives as now',
                               why='replay search: source of concrete failing inputs for the wire format under the real codecs and real fragmentation (the deductive checks cover the tarpc-owned tables, shapes and forwarding; the codecs are assumed)'),
    'server_abandon_bounded': dict(file='server_abandon_bounded', fn='abandoned_requests_are_reclaimed',
                                   functions=['tarpc/src/server.rs::InFlightRequest (drop, execute), ResponseGuard::drop, BaseChannel::poll_next (internal cancellation queue), in_flight_requests (through the public API)'],
                                   bound='a yielded request abandoned at 5 points of its life (never run; execute created but never polled; while the handler runs; after the handler finished while the response waits for room in a one-slot response buffer; run to completion) x with/without the request-limit layer, next to a request that completes (10 scenarios); oracles: in_flight_requests() back to 0 without the clock moving, the stream ends once inbound closes, no response for a request whose handler never finished',
                                   why='replay search: source of concrete failing inputs for the server clauses of C11 (a handler that was never run or was dropped midway)'),
    'cascade_bounded': dict(file='cascade_bounded', fn='cancellation_cascades_down_a_chain',
                            functions=['tarpc/src/server.rs::InFlightRequest::execute, BaseChannel (cancel handling); tarpc/src/client.rs::Channel::call, ResponseGuard (through the public API, real tasks, two hops)'],
                            bound='caller -> service A -> service B over in-memory transports; the caller abandons its call while B runs | before A calls B | never (3 scenarios); oracles: both handlers stop without B being released and without the clock moving; the reply travels back in the control run; both handlers observe the caller\'s trace id and sampling decision, span ids pairwise different',
                            why='replay search for the cascade clause of C04 and the nested-call clause of C18, which span two endpoints and therefore no single function contract'),
    'channels_exec_bounded': dict(file='channels_exec_bounded', fn='served_channels_count_as_channels',
                                  functions=['tarpc/src/server/limits/channels_per_key.rs::TrackedChannel (its Channel impl incl. execute), Tracker, MaxChannelsPerKey (through the public API, channels actually served)'],
                                  bound='n in 1..=3 x 0..=n yielded channels being served through Channel::execute with one handler in flight each x the first one dropped while its handler runs | kept, then one arrival (15 scenarios); oracle: admitted iff fewer than n channels with the key are alive, whatever their handlers do',
                                  why='replay search: the part of C13 that concerns what holds a tracker alive (a served channel, not its handlers), outside the functions under contract in unit channels'),
    'round_robin_bounded': dict(file='round_robin_bounded', fn='round_robin_is_fair_also_through_clones',
                                functions=['tarpc/src/client/stub/load_balance.rs::RoundRobin::{new, call}, Clone, cycle::AtomicCycle (through the public API)'],
                                bound='1..=4 backends x 1..=3 clones of the stub x 0..=13 calls x issued one after the other | concurrently (336 scenarios); oracle: per-backend counts never differ by more than one (after every call when sequential)',
                                why='replay search: source of concrete failing inputs when the Kani harnesses of the cycle are undecided (they are written against its data layout) or fail; covers the sharing of the cursor between clones'),
    'channels_bounded': dict(file='channels_bounded', fn='channels_per_key_scripts',
                             functions=['tarpc/src/server/limits/channels_per_key.rs::MaxChannelsPerKey, TrackedChannel, Tracker (through the public API: Incoming::max_channels_per_key over an mpsc listener of BaseChannels)'],
                             bound='every script of <= 9 events over {arrive key 0, arrive key 1, drop the k-th oldest live yielded channel (k<3), poll once} x n in {1,2} (118516 scripts), plus longer histories in which close notifications pile up: a close-and-reopen churn family (48 scripts) and a fixed pseudo-random sample of 20 000 (thorough: 200 000) scripts of 10..=18 events; oracle = the property (admitted iff fewer than n yielded channels with the key are alive when the filter reaches the arrival)',
                             why='replay search: source of concrete failing inputs when the deductive check of unit channels is undecided (code rewritten into combinator style Verus rejects) or fails'),
    'complete_all_bounded': dict(inrepo=True, file='client_table', fn='verif_native_complete_all_requests_bounded',
                                 functions=['tarpc/src/client/in_flight_requests.rs::complete_all_requests (+ its consuming loop)'],
                                 bound='every table of <= 3 entries over ids {0,1,2,u64::MAX} (15 tables)',
                                 why='concrete-input companion of the Verus proof of complete_all_requests (unit client, rule R17): exercises the real HashMap::drain and DelayQueue, which the proof models (A-hashmap-iter, A-delayqueue)'),
    'drop_aborts_bounded': dict(inrepo=True, file='server_table', fn='verif_native_drop_aborts_all_bounded',
                                functions=['tarpc/src/server/in_flight_requests.rs::<InFlightRequests as Drop>::drop'],
                                bound='every table of <= 3 entries (8 tables)',
                                why='concrete-input companion of the Verus proof of Drop for server::InFlightRequests (unit server, rule R17): exercises the real HashMap::values and AbortHandle, which the proof models (A-hashmap-iter, A-abortable)'),
    'retry_bounded': dict(file='retry_bounded', fn='retry_exhaustive_up_to_max_attempts',
                          functions=['tarpc/src/client/stub/retry.rs::Retry::call'],
                          bound='exhaustive over all policy-decision and ok/err result sequences of up to 5 attempts, each under a live and under an elapsed caller deadline; oracles: attempt numbers, same request, policy sees each result, last result returned, every attempt made under the caller\'s own context (deadline and trace context unchanged)',
                          why='concrete-input companion of the Verus proof of Retry::call (unit retry): runs the real async trait call and the real clock, which the proof models'),
}


class NativeUndecided(Exception):
    pass


def attribute(txt, test_file):
    """Which properties a failing stand-in speaks about: the oracle messages are prefixed with the
    ids of the properties they state (`C04/C08: ...`); a panic raised outside the test file is the
    endpoint itself panicking (C16).  An empty answer means `not attributable` (the failure then
    counts for every property the test is registered for)."""
    props = set()
    m = re.search(r"panicked at ([^\n]*?):\d+:\d+:\n([^\n]*)", txt)
    if m:
        where, msg = m.group(1), m.group(2)
        if ('tests/%s.rs' % test_file) not in where and ('native_inrepo' not in where):
            props.add('C16')
        else:
            pm = re.match(r'\s*((?:C\d\d)(?:/C\d\d)*)\b', msg)
            if pm:
                props.update(pm.group(1).split('/'))
    for fm in re.finditer(r'^VERIF-FAIL\s+((?:C\d\d)(?:/C\d\d)*)\b', txt, re.M):
        props.update(fm.group(1).split('/'))
    return sorted(props)


def run_tests(ids, timeout=3000, tier='quick'):
    out = []
    lock = open(os.path.join(BUILD, '.lock-native'), 'w')
    fcntl.flock(lock, fcntl.LOCK_EX)
    try:
        from . import kani_run
        th = kani_run._tree_hash()
        for tid in ids:
            t = TESTS[tid]
            src = open(os.path.join(VERIF, 'native_inrepo' if t.get('inrepo') else os.path.join('native', 'tests'), t['file'] + '.rs')).read()
            cpath = os.path.join(BUILD, 'cache', 'native-%s-%s.json' % (tid, hashlib.sha256(('v3' + tier + th + src).encode()).hexdigest()[:24]))
            os.makedirs(os.path.dirname(cpath), exist_ok=True)
            if os.path.exists(cpath):
                rec = json.load(open(cpath))
                rec['cache_hit'] = True
                out.append(rec)
                continue
            if t.get('inrepo'):
                cmd = ['cargo', 'test', '--offline', '--features', 'full', '--lib', '--target-dir', os.path.join(BUILD, 'inrepo-target'), t['fn'], '--', '--nocapture']
                env = dict(os.environ, CARGO_NET_OFFLINE='true', RUSTFLAGS='--cfg tarpc_verif', VERIF_TIER=tier)
                cwd = '/repo/tarpc'
            else:
                cmd = ['cargo', 'test', '--offline', '--target-dir', os.path.join(BUILD, 'native-target'), '--test', t['file'], t['fn'], '--', '--nocapture', '--exact']
                env = dict(os.environ, CARGO_NET_OFFLINE='true', VERIF_TIER=tier)
                cwd = os.path.join(VERIF, 'native')
            # keep the lock file in sync with /repo's so that resolution stays offline
            try:
                lk = open('/repo/Cargo.lock').read()
                open(os.path.join(VERIF, 'native', 'Cargo.lock'), 'w').write(lk)
            except OSError:
                pass
            t0 = time.time()
            try:
                p = subprocess.run(cmd, cwd=cwd, capture_output=True, text=True, timeout=timeout, env=env)
            except subprocess.TimeoutExpired:
                raise NativeUndecided('native stand-in %s timed out' % tid)
            txt = p.stdout + p.stderr
            m = re.search(r'VERIF-BOUNDED \w+ evaluations=(\d+)', txt)
            mb = re.search(r'VERIF-BOUNDED .*? bound=(.*)$', txt, re.M)
            passed = bool(re.search(r'test result: ok\. 1 passed', txt))
            failed = bool(re.search(r'test result: FAILED', txt))
            if not passed and not failed:
                raise NativeUndecided('native stand-in %s did not build or run: %s' % (tid, txt[-600:].replace('\n', ' | ')))
            attributed = attribute(txt, t['file']) if failed else []
            fail_lines = [l[:1200] for l in re.findall(r'^VERIF-FAIL .*$', txt, re.M)][:12]
            rec = dict(id=tid, attributed=attributed, fail_lines=fail_lines, cmd='(cd %s && %s%s)' % (cwd, 'RUSTFLAGS="--cfg tarpc_verif" ' if t.get('inrepo') else '', ' '.join(cmd)), passed=passed, evaluations=int(m.group(1)) if m else 0,
                       functions=t['functions'], bound=t['bound'] + ((' [this run: ' + mb.group(1).strip()[:200] + ']') if mb and tier == 'thorough' else ''), why=t['why'], wall_s=time.time() - t0, output_tail=txt[-2500:])
            json.dump(rec, open(cpath, 'w'))
            out.append(rec)
        return out
    finally:
        fcntl.flock(lock, fcntl.LOCK_UN)
        lock.close()
