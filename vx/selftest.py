"""Self-test of the extraction + contracts ("deliberately broken body" test of the generator).

Each mutant is a small textual edit of tarpc's source that breaks a property. It is applied to a
scratch copy of tarpc/src (the Verus route only reads source text), the unit is re-extracted and
re-verified, and the mutant counts as detected iff an obligation tagged with the property fails
in a contracted function. Stored seeded changes (/verif/seeded/*/patch.diff) whose files belong to
a Verus unit are replayed the same way.

Used by the thorough tier (results go into the evidence file; they never change the verdict on
/repo) and by `python3 -m vx.selftest` for development.
"""
import importlib
import json
import os
import re
import shutil
import subprocess
import sys
import tempfile

VERIF = os.path.dirname(os.path.dirname(os.path.abspath(__file__)))
sys.path.insert(0, VERIF)
from vx import extract, verus_run, props  # noqa: E402

# (id, property, unit, file, python-regex, replacement)
MUTANTS = [
    ('m01-is-closed-skip-removed', 'C03', 'client', 'tarpc/src/client.rs', r'if request\.response_completion\.is_closed\(\) \{', 'if false {'),
    ('m02-flush-before-idle-dropped', 'C14', 'client', 'tarpc/src/client.rs', r'ready!\(self\.poll_flush\(cx\)\?\);\n\n\s*// Even if we fully-flush', '// Even if we fully-flush'),
    ('m03-capacity-off-by-one', 'C11', 'client', 'tarpc/src/client.rs', r'self\.in_flight_requests\(\)\.len\(\) >= self\.config\.max_in_flight_requests', 'self.in_flight_requests().len() > self.config.max_in_flight_requests'),
    ('m04-response-completes-wrong-id', 'C01', 'client', 'tarpc/src/client.rs', r'response\.request_id,\n', 'response.request_id ^ 1,\n'),
    ('m05-run-exits-with-requests-in-flight', 'C10', 'client', 'tarpc/src/client.rs', r'if self\.in_flight_requests\.is_empty\(\) \{', 'if true {'),
    ('m06-client-timer-leak-on-complete', 'C11', 'client', 'tarpc/src/client/in_flight_requests.rs', r'(pub fn complete_request.*?)self\.deadlines\.remove\(&request_data\.deadline_key\);\n', r'\1'),
    ('m07-cancel-carries-fresh-trace-context', 'C18', 'client', 'tarpc/src/client.rs', r'trace_context: context\.trace_context,\n(\s*)request_id,', r'trace_context: context.trace_context.new_child(),\n\1request_id,'),
    ('m08-request-deadline-not-forwarded', 'C07', 'client', 'tarpc/src/client.rs', r'deadline: ctx\.deadline,', 'deadline: Instant { t: 0 },'),
    ('m09-cancel-write-failure-mistagged', 'C09', 'client', 'tarpc/src/client.rs', r'\.map_err\(\|e\| ChannelError::Write\(Arc::new\(e\)\)\)\?;', '.map_err(|e| ChannelError::Read(Arc::new(e)))?;'),
    ('m10-entry-leaked-on-send-failure', 'C09', 'client', 'tarpc/src/client.rs', r'Err\(e\) => \{\n\s*self\.in_flight_requests\(\)\n\s*\.complete_request\(request_id, Err\(RpcError::Send\(Box::new\(e\)\)\)\);\n\s*\}', 'Err(_e) => {}'),
    ('m11-guard-cancel-before-close', 'C03', 'client', 'tarpc/src/client.rs', r'self\.response\.close\(\);\n\s*if self\.cancel \{\n\s*self\.cancellation\.cancel\(self\.request_id\);\n\s*\}', 'if self.cancel {\n            self.cancellation.cancel(self.request_id);\n        }\n        self.response.close();'),
    ('m12-drain-skips-queued-callers', 'C09', 'client', 'tarpc/src/client.rs', r'let _ = response_completion\.send\(Err\(RpcError::Channel\(e\.clone\(\)\)\)\);', 'let _ = response_completion;'),
    ('m13-expiry-does-not-deliver', 'C05', 'client', 'tarpc/src/client/in_flight_requests.rs', r'let _ = request_data\.response_completion\.send\(expired_error\(\)\);', 'let _ = &request_data;'),
    ('m14-close-before-cancel-queue-drained', 'C10', 'client', 'tarpc/src/client.rs', r'\(ReceiverStatus::Closed, ReceiverStatus::Closed\) => \{', '(ReceiverStatus::Closed, _) => {'),
    ('m20-server-cancel-does-not-abort', 'C04', 'server', 'tarpc/src/server/in_flight_requests.rs', r'self\.request_data\.compact\(0\.1\);\n\s*abort_handle\.abort\(\);\n\s*self\.deadlines\.remove', 'self.request_data.compact(0.1);\n            self.deadlines.remove'),
    ('m21-server-guard-never-armed', 'C11', 'server', 'tarpc/src/server.rs', r'response_guard\.cancel = true;', 'response_guard.cancel = false;'),
    ('m22-throttle-limit-off-by-one', 'C12', 'server', 'tarpc/src/server/limits/requests_per_channel.rs', r'in_flight_requests\(\) >= \*self', 'in_flight_requests() > *self'),
    ('m23-stream-ends-with-requests-in-flight', 'C10', 'server', 'tarpc/src/server.rs', r'if read_half_closed && self\.channel\.in_flight_requests\(\) == 0 \{', 'if read_half_closed {'),
    ('m24-duplicate-request-returns-pending', 'C02', 'server', 'tarpc/src/server.rs', r'Err\(AlreadyExistsError\) => \{\n\s*// Instead of closing', 'Err(AlreadyExistsError) => {\n return Poll::Pending;\n // Instead of closing'),
    ('m25-response-written-for-untracked-id', 'C08', 'server', 'tarpc/src/server.rs', r'if let Some\(span\) = self\n\s*\.in_flight_requests_mut\(\)\n\s*\.remove_request\(response\.request_id\)\n\s*\{', 'if let Some(span) = Some(self.in_flight_requests_mut().remove_request(response.request_id).unwrap_or_else(Span::none)) {'),
    ('m26-server-expiry-does-not-abort', 'C06', 'server', 'tarpc/src/server/in_flight_requests.rs', r'(fn poll_expired.*?)abort_handle\.abort\(\);\n', r'\1'),
    ('m27-throttle-reply-not-an-error', 'C12', 'server', 'tarpc/src/server/limits/requests_per_channel.rs', r'kind: io::ErrorKind::WouldBlock,', 'kind: io::ErrorKind::Other,'),
    ('m28-server-response-without-readiness', 'C14', 'server', 'tarpc/src/server.rs', r'(fn poll_next_response.*?)ready!\(self\.ensure_writeable\(cx\)\?\);\n', r'\1'),
    ('m29-execute-guard-left-armed', 'C11', 'server', 'tarpc/src/server.rs', r'response_guard\.cancel = false;\n(\s*\}\n\}\n\nfn print_err)', r'let _ = &mut response_guard;\n\1'),
    ('m30-stale-close-erases-live-count', 'C13', 'channels', 'tarpc/src/server/limits/channels_per_key.rs', r'if o\.get\(\)\.strong_count\(\) == 0 \{\n\s*o\.remove\(\);\n\s*\}', 'o.remove();'),
    ('m31-admit-at-limit', 'C13', 'channels', 'tarpc/src/server/limits/channels_per_key.rs', r'if count >= usize::try_from', 'if count > usize::try_from'),
    ('m33-compact-clears-small-maps', 'C11', 'util_compact', 'tarpc/src/util.rs', r'self\.shrink_to\(cap as usize\);', 'if self.len() < 8 { self.clear(); }\n        self.shrink_to(cap as usize);'),
    ('m34-server-clamps-handler-deadline', 'C07', 'server', 'tarpc/src/server.rs', r'(mut request: Request<Req>,\n\s*\) -> Result<TrackedRequest<Req>, AlreadyExistsError> \{\n)', r'\1        request.context.deadline = request.context.deadline.min(Instant::now() + MAX_TIMER_DELAY);\n'),
    ('m35-unbounded-send-to-closed-peer-reports-ok', 'C15', 'transports', 'tarpc/src/transport/channel.rs', r'(fn start_send\(self: Pin<&mut Self>, item: SinkItem\) -> Result<\(\), Self::Error> \{\n)(\s*self\.tx\n\s*\.send\(item\))', r'\1        if self.tx.is_closed() {\n            return Ok(());\n        }\n\2'),
    ('m36-bounded-flush-not-forwarded', 'C15', 'transports', 'tarpc/src/transport/channel.rs', r'self\.project\(\)\n\s*\.tx\n\s*\.poll_flush\(cx\)\n\s*\.map_err\(\|e\| ChannelError::Send\(Box::new\(e\)\)\)', 'Poll::Ready(Ok(()))'),
    ('m37-serde-end-of-stream-reported-as-pending', 'C15', 'transports', 'tarpc/src/serde_transport.rs', r'(fn poll_next\(self: Pin<&mut Self>, cx: &mut Context<\'_>\) -> Poll<Option<io::Result<Item>>> \{\n)(\s*)self\.project\(\)\n\s*\.inner\n\s*\.poll_next\(cx\)\n\s*\.map_err\(\|e\| io::Error::new\(io::ErrorKind::Other, e\)\)', r'\1\2match self.project().inner.poll_next(cx).map_err(|e| io::Error::new(io::ErrorKind::Other, e)) {\n\2    Poll::Ready(None) => Poll::Pending,\n\2    other => other,\n\2}'),
    ('m40-complete-all-keeps-timers', 'C11', 'client', 'tarpc/src/client/in_flight_requests.rs', r'self\.deadlines\.clear\(\);', ''),
    ('m41-complete-all-skips-closed-receivers', 'C09', 'client', 'tarpc/src/client/in_flight_requests.rs', r'let _ = request_data\.response_completion\.send\(result\(\)\);', 'if !request_data.response_completion.is_closed() { let _ = request_data.response_completion.send(result()); }'),
    ('m42-shutdown-delivers-another-error', 'C09', 'client', 'tarpc/src/client.rs', r'complete_all_requests\(\|\| Err\(RpcError::Channel\(e\.clone\(\)\)\)\)', 'complete_all_requests(|| Err(RpcError::Shutdown))'),
    ('m43-table-drop-aborts-nothing', 'C09', 'server', 'tarpc/src/server/in_flight_requests.rs', r'\.values\(\)\n\s*\.for_each\(\|request_data\| request_data\.abort_handle\.abort\(\)\)', '.values().for_each(|request_data| drop(request_data))'),
    ('m44-tracked-channel-flush-polls-ready', 'C13', 'channels', 'tarpc/src/server/limits/channels_per_key.rs', r'self\.inner_pin_mut\(\)\.poll_flush\(cx\)', 'self.inner_pin_mut().poll_ready(cx)'),
    ('m45-tracked-channel-reports-nothing-in-flight', 'C13', 'channels', 'tarpc/src/server/limits/channels_per_key.rs', r'self\.inner\.in_flight_requests\(\)', '0'),
    ('m46-retry-attempts-numbered-from-zero', 'C20', 'retry', 'tarpc/src/client/stub/retry.rs', r'for i in 1\.\.', 'for i in 0..'),
    ('m47-retry-policy-inverted', 'C20', 'retry', 'tarpc/src/client/stub/retry.rs', r'if \(self\.should_retry\)\(&result, i\)', 'if !(self.should_retry)(&result, i)'),
    ('m48-cycle-off-by-one', 'C20', 'lb_fairness', 'tarpc/src/client/stub/load_balance.rs', r'&self\.elements\[next % self\.elements\.len\(\)\]', '&self.elements[(next + 1) % self.elements.len()]'),
    ('m49-consistent-hash-uses-high-bits', 'C20', 'lb_fairness', 'tarpc/src/client/stub/load_balance.rs', r'self\.hash_request\(&request\) % self\.stubs_len', '(self.hash_request(&request) >> 32) % self.stubs_len'),
    ('m50-round-robin-skips-a-backend', 'C20', 'lb_fairness', 'tarpc/src/client/stub/load_balance.rs', r'let next = self\.stubs\.next\(\);', 'let _skip = self.stubs.next(); let next = self.stubs.next();'),
    ('m32-new-child-loses-sampling', 'C18', 'trace_ctx', 'tarpc/src/trace.rs', r'sampling_decision: self\.sampling_decision,\n(\s*)\}\n(\s*)\}\n\}\n\nimpl TraceId', r'sampling_decision: SamplingDecision::Unsampled,\n\1}\n\2}\n}\n\nimpl TraceId'),
]


def _scratch_copy(repo):
    d = tempfile.mkdtemp(prefix='selftest-', dir='/scratch' if os.path.isdir('/scratch') else None)
    os.makedirs(os.path.join(d, 'tarpc'))
    shutil.copytree(os.path.join(repo, 'tarpc', 'src'), os.path.join(d, 'tarpc', 'src'))
    return d


def _run_unit(unit_name, repo, outdir):
    mod = importlib.import_module(props.VERUS_UNITS[unit_name])
    old_repo = extract.REPO
    extract.REPO = repo   # a unit may look at the source when it is built (e.g. which spelling of a loop is present)
    try:
        prov = extract.build_unit(mod.unit(), outdir, repo)
    except extract.ExtractError as e:
        return dict(undecided='extraction: %s' % e, failures=[])
    finally:
        extract.REPO = old_repo
    res = verus_run.run_verus(prov['generated'], timeout=900)
    cl = verus_run.classify(res, prov)
    if cl['fatal']:
        return dict(undecided='verus rejected: %s' % cl['fatal'][0]['message'][:200], failures=[])
    return dict(undecided=None, failures=[f for f in cl['failures'] if not f['canary']])


def _tags_include(tagstr, pid):
    t = tagstr[5:] if tagstr.startswith('core:') else tagstr
    s = set(x.strip() for x in t.split(','))
    return pid in s or 'core' in s


def run(pid=None, repo='/repo', include_seeds=True, verbose=False):
    """Run the mutants of property `pid` (all if None). Returns list of result dicts."""
    # known findings are ignored when judging detection (they fail on the unchanged tree too)
    known = json.load(open(os.path.join(VERIF, 'known_findings.json'))).get('findings', [])
    out = []
    todo = [m for m in MUTANTS if pid is None or m[1] == pid]
    seeds = []
    if include_seeds and os.path.isdir(os.path.join(VERIF, 'seeded')):
        for name in sorted(os.listdir(os.path.join(VERIF, 'seeded'))):
            mp = os.path.join(VERIF, 'seeded', name, 'meta.json')
            if not os.path.exists(mp):
                continue
            meta = json.load(open(mp))
            if pid is not None and meta.get('breaks') != pid:
                continue
            seeds.append((name, meta))
    for mid, mpid, unit, path, pat, rep in todo:
        d = _scratch_copy(repo)
        try:
            fp = os.path.join(d, path)
            s = open(fp).read()
            n = len(re.findall(pat, s, flags=re.M | re.S))
            if n != 1:
                out.append(dict(mutant=mid, property=mpid, detected=None, note='pattern matched %d times (source changed; mutant skipped)' % n))
                continue
            open(fp, 'w').write(re.sub(pat, rep, s, flags=re.M | re.S))
            r = _run_unit(unit, d, os.path.join(d, 'build'))
            hits = [f for f in r['failures'] if _tags_include(f['tags'], mpid) and not any(k['function'] == f['function'] and k.get('clause_contains', '') in (f.get('clause_text') or '') for k in known)]
            out.append(dict(mutant=mid, property=mpid, unit=unit, detected=bool(hits), undecided=r['undecided'],
                            failing=['%s: %s [%s]' % (f['function'], f['kind'], f['tags']) for f in hits][:3]))
            if verbose:
                print(mid, 'DETECTED' if hits else ('UNDECIDED ' + r['undecided'] if r['undecided'] else 'MISSED'), [h['function'] for h in hits][:2])
        finally:
            shutil.rmtree(d, ignore_errors=True)
    for name, meta in seeds:
        # seeded patches: replay only through the Verus units of the property they break
        units = props.PROPS.get(meta['breaks'], {}).get('verus', [])
        patch = os.path.join(VERIF, 'seeded', name, 'patch.diff')
        if not units or not os.path.exists(patch):
            continue
        d = _scratch_copy(repo)
        try:
            p = subprocess.run(['patch', '-p1', '-s', '-i', patch], cwd=d, capture_output=True, text=True)
            if p.returncode != 0:
                out.append(dict(mutant='seed:' + name, property=meta['breaks'], detected=None, note='patch does not apply to the current source'))
                continue
            hits, und = [], None
            for u in units:
                r = _run_unit(u, d, os.path.join(d, 'build'))
                und = und or r['undecided']
                hits += [f for f in r['failures'] if _tags_include(f['tags'], meta['breaks']) and not any(k['function'] == f['function'] and k.get('clause_contains', '') in (f.get('clause_text') or '') for k in known)]
            out.append(dict(mutant='seed:' + name, property=meta['breaks'], detected=bool(hits), undecided=und,
                            failing=['%s: %s [%s]' % (f['function'], f['kind'], f['tags']) for f in hits][:3]))
            if verbose:
                print('seed:' + name, 'DETECTED' if hits else ('UNDECIDED ' + str(und) if und else 'MISSED'))
        finally:
            shutil.rmtree(d, ignore_errors=True)
    return out


if __name__ == '__main__':
    pid = sys.argv[1] if len(sys.argv) > 1 else None
    res = run(pid, verbose=True)
    det = sum(1 for r in res if r['detected'])
    print('selftest: %d of %d mutants detected; missed: %s' % (det, len(res), [r['mutant'] for r in res if not r['detected']]))
