"""Run Kani harnesses (mounted into the real tarpc crate under cfg(kani)) and parse results."""
import fcntl
import hashlib
import json
import os
import re
import subprocess
import time

VERIF = os.path.dirname(os.path.dirname(os.path.abspath(__file__)))
REPO = os.environ.get('VERIF_REPO', '/repo')
BUILD = os.path.join(VERIF, 'build')
TARGET = os.path.join(BUILD, 'kani-target')
CACHE = os.path.join(BUILD, 'cache')


class KaniUndecided(Exception):
    pass


# name -> description.  `functions` are the real functions of /repo the harness puts under contract.
HARNESSES = {}


def H(name, unit, functions, doc, args=(), tier='quick', bounded=None, stubs=(), timeout=900):
    HARNESSES[name] = dict(name=name, unit=unit, functions=list(functions), doc=doc, args=list(args), tier=tier,
                           bounded=bounded, stubs=list(stubs), timeout=timeout)


# ---- K1 wire tables (C15)
H('k1_errorkind_written_as_u32_code', 'wire_tables', ['tarpc/src/util/serde.rs::serialize_io_error_kind_as_u32'],
  'for every io::ErrorKind the serializer is invoked as serialize_u32(code(kind)), code = 18-entry table, 16 otherwise (loop-free, full domain)')
H('k1_errorkind_read_total_and_table', 'wire_tables', ['tarpc/src/util/serde.rs::deserialize_io_error_kind_from_u32'],
  'every u32 decodes without error; 0..=17 to the table kind, all others to Other (loop-free, full u32 domain)')
H('k1_errorkind_round_trip', 'wire_tables', ['tarpc/src/util/serde.rs::serialize_io_error_kind_as_u32', 'tarpc/src/util/serde.rs::deserialize_io_error_kind_from_u32'],
  'deserialize(serialize(k)) == k on the 18 portable kinds and Other elsewhere')

H('k1_u128_round_trip_le_bytes', 'trace', ['tarpc/src/trace.rs::u128_serde::serialize', 'tarpc/src/trace.rs::u128_serde::deserialize'],
  '128-bit ids are written as their 16 little-endian bytes and read back exactly, for every u128')
H('k6_otel_id_conversions_round_trip', 'trace', ['tarpc/src/trace.rs::From<TraceId> for opentelemetry TraceId (and back)', 'tarpc/src/trace.rs::From<SpanId> for opentelemetry SpanId (and back)', 'tarpc/src/trace.rs::From<SamplingDecision> for TraceFlags'],
  'trace/span ids survive the OpenTelemetry conversions both ways; sampling decision maps to the sampled flag')
H('k1_cancel_shape_is_value_independent', 'schema', ['tarpc/src/lib.rs::ClientMessage (derived Serialize)', 'tarpc/src/trace.rs::Context (derived Serialize)'],
  'the serde call sequence of a Cancel message does not depend on the values carried (no field skipped for some values); both fields declared and written')
H('k1_request_shape_is_value_independent', 'schema', ['tarpc/src/lib.rs::ClientMessage/Request (derived Serialize)', 'tarpc/src/context.rs::Context (derived Serialize + absolute_to_relative_time)'],
  'the serde call sequence of a Request message does not depend on the values carried', tier='thorough', stubs=['std::time::Instant::now -> symbolic clock (verif_kani_support::fake_now)'], timeout=1500)

# ---- K3 time arithmetic (C05, C06, C07, C16)
CLK = ['std::time::Instant::now -> symbolic clock (verif_kani_support::fake_now)']
H('k3_time_until_is_saturating_difference', 'time_until', ['tarpc/src/util.rs::<Instant as TimeUntil>::time_until'],
  'time_until(d) == saturating (d - now), total for all instants (loop-free, full domain under A-clock)', stubs=CLK)
H('k3_max_timer_delay_value', 'time_until', ['tarpc/src/util.rs::MAX_TIMER_DELAY'],
  'the real clamp constant equals the value assumed by the Verus model and lies within the DelayQueue range; Duration::min clamps')
H('k3_deadline_field_always_renderable', 'time_until', ['tarpc/src/util.rs::deadline_rfc3339'],
  'the rpc.deadline span field helper never overflows and never hands humantime an unrenderable timestamp (R12)',
  stubs=CLK + ['std::time::SystemTime::now -> symbolic wall clock'])
# ---- K2 deadline codec (C07, C16)
H('k2_deadline_written_as_remaining_time', 'deadline_codec', ['tarpc/src/context.rs::absolute_to_relative_time::serialize'],
  'written Duration == saturating (deadline - now)', stubs=CLK)
H('k2_deadline_decode_total_and_shifted', 'deadline_codec', ['tarpc/src/context.rs::absolute_to_relative_time::deserialize'],
  'decoding any (secs, nanos) never panics; result >= now; == now + duration when representable', stubs=CLK)
H('k2_deadline_shift_law', 'deadline_codec', ['tarpc/src/context.rs::absolute_to_relative_time::serialize', 'tarpc/src/context.rs::absolute_to_relative_time::deserialize'],
  "D' >= D; D' - D == transit when D >= now1; D' == now2 when D already passed", stubs=CLK)
H('k2_default_deadline_ten_seconds', 'deadline_codec', ['tarpc/src/context.rs::ten_seconds_from_now'],
  'default deadline == now + 10 s', stubs=CLK)


# ---- K4 request hooks (C19)
H('k4_hook_then_serve', 'hooks', ['tarpc/src/server/request_hook/before.rs::HookThenServe::serve', 'tarpc/src/server/request_hook.rs::RequestHook::before'],
  'handler runs iff the before-hook passed, with the hook-produced context; result unchanged; hook error is the response (nondeterministic hook and handler)')
H('k4_serve_then_hook', 'hooks', ['tarpc/src/server/request_hook/after.rs::ServeThenHook::serve', 'tarpc/src/server/request_hook.rs::RequestHook::after'],
  'after-hook runs exactly once after the wrapped serve (also on error) and what it leaves in the result is returned')
H('k4_before_and_after', 'hooks', ['tarpc/src/server/request_hook/before_and_after.rs::HookThenServeThenHook::serve', 'tarpc/src/server/request_hook.rs::RequestHook::before_and_after'],
  'combined hook: after part skipped when before part fails; else sees the context its before part produced')
H('k4_chain_api_order_and_short_circuit', 'hooks', ['tarpc/src/server/request_hook/before.rs::BeforeRequestCons::before', 'tarpc/src/server/request_hook/before.rs::BeforeRequestCons::then', 'tarpc/src/server/request_hook/before.rs::BeforeRequestNil::then', 'tarpc/src/server/request_hook/before.rs::BeforeRequestCons::serving'],
  'before().then(h1).then(h2).serving(s): h1 then h2 then handler, context threaded, first failure stops the chain')
H('k4_then_fn_chains_closures_like_then', 'hooks', ['tarpc/src/server/request_hook/before.rs::BeforeRequestList::then_fn', 'tarpc/src/server/request_hook/before.rs::<F as BeforeRequest>::before'],
  'closure hooks chained with then_fn: order, context threading, short-circuit, handler sees the final context (symbolic pass/fail and markers)')
H('k4_empty_chain_is_identity', 'hooks', ['tarpc/src/server/request_hook/before.rs::BeforeRequestNil::before', 'tarpc/src/server/request_hook/before.rs::BeforeRequestNil::serving', 'tarpc/src/server/request_hook/before.rs::before'],
  'chain length 0: before().serving(s) behaves as s; the empty list passes and changes nothing')
H('k4_after_wraps_inner_before_error', 'hooks', ['tarpc/src/server/request_hook/after.rs::ServeThenHook::serve', 'tarpc/src/server/request_hook/before.rs::HookThenServe::serve'],
  'nesting after(before(s)): the after-hook runs exactly once also on an inner before-hook error')
H('k4_cons_first_then_rest_any_rest', 'hooks_before', ['tarpc/src/server/request_hook/before.rs::BeforeRequestCons::before'],
  'induction step: Cons(first, rest) for an arbitrary rest: first then (only if Ok) rest, rest sees first\'s context, first error returned')
H('k4_cons_then_appends_at_end_any_rest', 'hooks_before', ['tarpc/src/server/request_hook/before.rs::BeforeRequestCons::then'],
  'induction step for then: Cons(first, rest).then(next) runs first, rest, next for an arbitrary list rest (whose own then appends at its end)')
H('k4_chain_of_three_order', 'hooks', ['tarpc/src/server/request_hook/before.rs::BeforeRequestCons::then', 'tarpc/src/server/request_hook/before.rs::BeforeRequestNil::then', 'tarpc/src/server/request_hook/before.rs::BeforeRequestCons::before'],
  'before().then(a).then(b).then(c) runs a, b, c with context threading and short-circuit')
# ---- K5 stubs (C20)
H('k5_cycle_next_is_counter_mod_len', 'cycle', ['tarpc/src/client/stub/load_balance.rs::round_robin::cycle::State::next'],
  'next() returns element counter % len and advances the counter by one (wrapping); full domain in the counter',
  bounded='backend count enumerated 1..=4 (the index arithmetic itself is width-independent)')
H('k5_cycle_next_upto8', 'cycle', ['tarpc/src/client/stub/load_balance.rs::round_robin::cycle::State::next'],
  'same contract, backend count enumerated 1..=8', bounded='backend count enumerated 1..=8', tier='thorough', timeout=1500)
H('k5_round_robin_call_uses_next', 'round_robin', ['tarpc/src/client/stub/load_balance.rs::RoundRobin::call', 'tarpc/src/client/stub/load_balance.rs::RoundRobin::new'],
  'successive calls go to backends 0,1,2,0; request and result pass through', bounded='3 backends, 4 calls')
H('k5_consistent_hash_valid_and_stable', 'consistent_hash', ['tarpc/src/client/stub/load_balance.rs::ConsistentHash::with_hasher', 'tarpc/src/client/stub/load_balance.rs::ConsistentHash::call', 'tarpc/src/client/stub/load_balance.rs::ConsistentHash::hash_request'],
  'picks only a valid backend (no panic), backend == hash(request) % len, equal requests -> same backend; symbolic hash function',
  bounded='backend count enumerated 1..=3', timeout=1200)
H('k5_retry_attempts_numbered_and_last_result', 'retry', ['tarpc/src/client/stub/retry.rs::Retry::call', 'tarpc/src/client/stub/retry.rs::Retry::new'],
  'one backend call and one policy consultation per attempt until the policy declines; attempt numbers 1,2,3; identical Arc each time; each result shown to the policy; last result returned unchanged; symbolic results, decisions, deadline and clock',
  bounded='the policy declines by the third attempt (unwind 5, unwinding assertions on)', stubs=CLK + ['tracing dispatcher entry points -> no subscriber interested'], timeout=1200)
H('k5_serve_as_stub_passes_through', 'stub_serve', ['tarpc/src/client/stub.rs::<S as Stub>::call'],
  'a Serve used as a Stub is served exactly once with the same context and request; ServerError becomes RpcError::Server')


def _tree_hash():
    h = hashlib.sha256()
    roots = [os.path.join(REPO, 'tarpc', 'src'), os.path.join(REPO, 'plugins', 'src'), os.path.join(VERIF, 'kani')]
    files = [os.path.join(REPO, 'Cargo.lock'), os.path.join(REPO, 'Cargo.toml'), os.path.join(REPO, 'tarpc', 'Cargo.toml'),
             os.path.join(REPO, 'plugins', 'Cargo.toml')]
    for r in roots:
        for d, _, fs in sorted(os.walk(r)):
            for f in sorted(fs):
                files.append(os.path.join(d, f))
    for f in files:
        if os.path.exists(f):
            h.update(f.encode())
            h.update(open(f, 'rb').read())
    return h.hexdigest()


def kani_version():
    try:
        return subprocess.run(['cargo', 'kani', '--version'], capture_output=True, text=True, timeout=120).stdout.strip()
    except Exception as e:
        raise KaniUndecided('cargo kani not runnable: %s' % e)


def _parse_block(name_full, b):
    m = re.search(r'\*\* (\d+) of (\d+) failed', b)
    failed, total = (int(m.group(1)), int(m.group(2))) if m else (None, 0)
    cov = re.search(r'\*\* (\d+) of (\d+) cover properties satisfied', b)
    status = 'UNKNOWN'
    if 'VERIFICATION:- SUCCESSFUL' in b:
        status = 'SUCCESS'
    elif 'VERIFICATION:- FAILED' in b:
        status = 'FAILURE'
    fc = re.findall(r'Failed Checks: (.*)', b)
    unwind_fail = any('unwinding assertion' in x for x in fc)
    tm = re.search(r'Verification Time: ([\d.]+)s', b)
    return dict(full=name_full, status=status, checks=total, failed=failed, failed_checks=fc,
                cover=(int(cov.group(1)), int(cov.group(2))) if cov else None,
                cover_unsat=bool(cov and int(cov.group(1)) < int(cov.group(2))),
                unwind_fail=unwind_fail, time_s=float(tm.group(1)) if tm else None,
                output_tail=b[-3000:])


def parse_output(out):
    """Split cargo-kani terse output into per-harness records (sequential or -j output)."""
    res = {}
    if re.search(r'(?m)^Thread \d+: Checking harness ', out):
        # -j: each thread announces `Thread N: Checking harness X...` and later prints one
        # result block introduced by a line `Thread N:`; per thread the order is preserved.
        queues, blocks = {}, {}
        cur = None
        for line in out.split('\n'):
            m = re.match(r'Thread (\d+): Checking harness (.*?)\.\.\.', line)
            if m:
                queues.setdefault(m.group(1), []).append(m.group(2).strip())
                cur = None
                continue
            m = re.match(r'Thread (\d+):\s*$', line)
            if m:
                cur = m.group(1)
                blocks.setdefault(cur, []).append([])
                continue
            if line.startswith('Manual Harness Summary') or line.startswith('Complete - '):
                cur = None
            if cur is not None:
                blocks[cur][-1].append(line)
        for t, names in queues.items():
            for name_full, b in zip(names, blocks.get(t, [])):
                res[name_full.split('::')[-1]] = _parse_block(name_full, '\n'.join(b))
        return res
    for b in re.split(r'(?m)^Checking harness ', out)[1:]:
        name_full = b.split('...', 1)[0].strip()
        res[name_full.split('::')[-1]] = _parse_block(name_full, b)
    return res


def _cargo_kani(harness_names, extra_args, timeout):
    cmd = ['cargo', 'kani', '--features', 'full', '--target-dir', TARGET, '--output-format', 'terse',
           '-Z', 'function-contracts', '-Z', 'stubbing']
    for h in harness_names:
        cmd += ['--harness', h]
    cmd += ['-j', str(min(8, max(1, len(harness_names))))] if len(harness_names) > 1 else []
    cmd += list(extra_args)
    env = dict(os.environ, CARGO_NET_OFFLINE='true')
    t0 = time.time()
    try:
        p = subprocess.run(cmd, cwd=os.path.join(REPO, 'tarpc'), capture_output=True, text=True, timeout=timeout, env=env)
    except subprocess.TimeoutExpired:
        raise KaniUndecided('cargo kani timed out after %ds on %s' % (timeout, ','.join(harness_names)))
    return ' '.join(cmd), p.stdout + '\n' + p.stderr, p.returncode, time.time() - t0


PLAYBACK_MARK = '\n// ---- concrete playback (temporary, removed after the run) ----\n'


def _strip_leftover_playback():
    d = os.path.join(VERIF, 'kani')
    for f in os.listdir(d):
        p = os.path.join(d, f)
        t = open(p).read()
        if PLAYBACK_MARK in t:
            open(p, 'w').write(t[:t.index(PLAYBACK_MARK)])


def playback(hname, timeout=900):
    """Re-run a failing harness with concrete playback and execute the generated test natively
    against the real function (the replay of the verifier's counterexample)."""
    cmd, out, rc, wall = _cargo_kani([hname], ['-Z', 'concrete-playback', '--concrete-playback=print'], timeout)
    blocks = re.findall(r'```\s*\n(.*?)```', out, re.S)
    pref = [b for b in blocks if 'Check for `cover`' not in b] or blocks
    test_src = pref[0] if pref else None
    vals = re.findall(r'//\s*(.*)\n\s*vec!\[([^\]]*)\]', test_src or '')
    rec = dict(cmd=cmd, unit_test=test_src, concrete_values=[dict(value=v[0], bytes=v[1]) for v in vals], reproduced=False)
    if not test_src:
        rec['note'] = 'kani produced no concrete playback test'
        return rec
    # native replay: append the generated #[test] to the harness module of a scratch copy? The
    # generated test calls kani::concrete_playback_run on the real harness fn, which calls the
    # real function: run it with `cargo kani playback`.
    unit = HARNESSES[hname]['unit']
    hfile = os.path.join(VERIF, 'kani', unit + '.rs')
    orig = open(hfile).read()
    try:
        open(hfile, 'w').write(orig + PLAYBACK_MARK + test_src + '\n')
        tname = re.search(r'fn (kani_concrete_playback_\w+)', test_src).group(1)
        pcmd = ['cargo', 'kani', 'playback', '-Z', 'concrete-playback', '--features', 'full', '--', tname]
        env = dict(os.environ, CARGO_NET_OFFLINE='true', CARGO_TARGET_DIR=TARGET + '-playback')
        try:
            p = subprocess.run(pcmd, cwd=os.path.join(REPO, 'tarpc'), capture_output=True, text=True, timeout=timeout, env=env)
            pout = p.stdout + p.stderr
            rec['native_cmd'] = ' '.join(pcmd)
            rec['native_output_tail'] = pout[-2500:]
            rec['reproduced'] = bool(re.search(r'test result: FAILED|panicked at', pout)) and tname in pout
        except subprocess.TimeoutExpired:
            rec['note'] = 'native playback timed out'
    finally:
        open(hfile, 'w').write(orig)
    return rec


def run_harnesses(names, tier='quick', seed=0):
    os.makedirs(CACHE, exist_ok=True)
    os.makedirs(BUILD, exist_ok=True)
    todo = [n for n in names if HARNESSES[n]['tier'] == 'quick' or tier == 'thorough']
    lock = open(os.path.join(BUILD, '.lock-kani'), 'w')
    fcntl.flock(lock, fcntl.LOCK_EX)
    try:
        _strip_leftover_playback()
        th = _tree_hash()
        kv = kani_version()
        results, need = {}, []
        for n in todo:
            cp = os.path.join(CACHE, 'kani-%s-%s.json' % (n, hashlib.sha256((th + kv + n).encode()).hexdigest()[:24]))
            if os.path.exists(cp):
                results[n] = json.load(open(cp))
                results[n]['cache_hit'] = True
            else:
                need.append((n, cp))
        cmds, wall_total = [], 0.0
        # group by identical extra args
        groups = {}
        for n, cp in need:
            groups.setdefault(tuple(HARNESSES[n]['args']), []).append((n, cp))
        for args, items in groups.items():
            hn = [n for n, _ in items]
            to = max(HARNESSES[n]['timeout'] for n in hn)
            cmd, out, rc, wall = _cargo_kani(hn, args, to)
            cmds.append(cmd)
            wall_total += wall
            parsed = parse_output(out)
            if not parsed:
                raise KaniUndecided('cargo kani produced no harness results (build failure or tool error): ' + out[-1500:].replace('\n', ' | '))
            for n, cp in items:
                if n not in parsed:
                    raise KaniUndecided('harness %s not found in kani output (harness no longer compiles or was renamed)' % n)
                r = parsed[n]
                r['cache_hit'] = False
                r['wall_s'] = wall / len(items)
                if r['status'] == 'FAILURE' and not r['unwind_fail']:
                    r['playback'] = playback(n)
                if r['status'] == 'FAILURE' and r['unwind_fail'] and all('unwinding assertion' in x for x in r['failed_checks']):
                    r['status'] = 'UNDECIDED: unwinding bound too small'
                results[n] = r
                json.dump(r, open(cp + '.tmp', 'w'))
                os.replace(cp + '.tmp', cp)
        hs = []
        trusted = []
        for n in todo:
            r = results[n]
            d = HARNESSES[n]
            hs.append(dict(name=n, unit=d['unit'], functions=d['functions'], doc=d['doc'], status=r['status'], checks=r['checks'],
                           failed_checks=r.get('failed_checks', []), cover_unsat=r.get('cover_unsat', False), output_tail=r.get('output_tail', '')[-1500:],
                           playback=r.get('playback'), time_s=r.get('time_s'), bounded=d['bounded'], cache_hit=r.get('cache_hit', False)))
            for s in d['stubs']:
                trusted.append('kani stub: ' + s)
            if d['bounded']:
                trusted.append('BOUNDED (not counted as proved): %s: %s' % (n, d['bounded']))
        cmd = cmds[0] if cmds else ('(cached) cargo kani --features full --harness ' + ' --harness '.join(todo))
        return dict(cmd='(cd /repo/tarpc && CARGO_NET_OFFLINE=true %s)' % cmd, wall_s=sum((r.get('time_s') or 0) for r in results.values()),
                    harnesses=hs, trusted=trusted)
    finally:
        fcntl.flock(lock, fcntl.LOCK_UN)
        lock.close()
