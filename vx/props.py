"""Registry: which units / harnesses decide which property, and the text that goes into evidence."""

# Assumption register (DESIGN §8) -- cited by id in every evidence file.
ASSUMPTIONS = {
    'A-extraction': 'extraction rules R0-R12 preserve the semantics of the extracted functions; every application is logged in build/<unit>.provenance.json',
    'A-tracing': 'dropped tracing statements and span guards do not affect control or data flow',
    'A-pin': "pin-project's project() is field access; Pin<&mut Self> methods are &mut self methods",
    'A-core': 'vstd specifications of core/std (Option, Result, HashMap incl. Entry API) and the assume_specifications in prelude/base.rs for Poll and the ? operator',
    'A-hashmap': 'FnvHashMap behaves as std HashMap (vstd spec); Compact::compact only changes capacity',
    'A-delayqueue': 'tokio-util DelayQueue: fresh key on insert; remove panics on an absent key; insert panics for timeout > 2^36-1 ms (and the wheel is polled often enough that its elapsed time is current); poll_expired never yields before the delay elapsed, each armed key at most once, Pending registers the waker, Ready(None) iff empty',
    'A-oneshot': 'tokio oneshot: send consumes the sender and hands the value to the paired receiver or returns it; close() happens-before a later is_closed()',
    'A-mpsc': 'tokio mpsc: poll_recv is FIFO, None is stable, Pending registers the waker',
    'A-sink': 'the transport obeys the futures Sink/Stream contract (Fuse included)',
    'A-abortable': 'futures Abortable/AbortHandle semantics; Rust drop order',
    'A-ids': 'request ids reaching the dispatch are pairwise distinct (AtomicUsize::fetch_add, fewer than 2^64 calls per channel)',
    'A-pair': 'Channel::call enqueues the sender of the receiver it then awaits, with the id it allocated',
    'A-codec': 'tokio-util length-delimited framing, tokio-serde JSON/bincode and serde_derive output are correct',
    'A-otel': 'tracing-opentelemetry bridge functions used for trace-context extraction',
    'A-verifiers': 'soundness of Verus/Z3 and Kani/CBMC; Verus exec arithmetic is machine arithmetic with overflow obligations, spec arithmetic is mathematical',
    'A-clock': 'Instant is monotone',
}

# Verus units: name -> python module providing unit()
VERUS_UNITS = {
    'client_table': 'contracts.client_table',
    'client': 'contracts.client',
}

PROPS = {}

NOT_APPLICABLE = {
    'C17': 'quantifies over programs (every service definition the proc-macro accepts); the carrier is a syn/quote token-stream generator whose input and output are opaque TokenStreams -- no Verus/Kani contract can state that the generated match pairs variant m with method m, and a proc-macro crate cannot host Kani harnesses; checking sample expansions would be testing, not this technique (DESIGN §6)',
}


def prop(pid, **kw):
    PROPS[pid] = dict(id=pid, verus=[], kani=[], assumptions=[], bounded=[], not_covered='') | kw


prop('C11', title='Tracked request state is bounded and fully reclaimed',
     verus=['client_table'],
     technique='Verus: representation invariant (timers<->entries bijection) + whole-view postconditions on the real table functions, extracted from /repo each run',
     level_text='Deductive proof, for all table states and all ids, that every public operation of the real in-flight tables preserves the timers<->entries bijection and changes the abstract view exactly as specified; the history quantifier is discharged by the invariant (every call sequence is a sequence of contracted calls).',
     level_note='Proof is about the extracted text (rules logged per run) against trusted models of HashMap/DelayQueue/oneshot.',
     assumptions=['A-extraction', 'A-tracing', 'A-pin', 'A-core', 'A-hashmap', 'A-delayqueue', 'A-oneshot', 'A-verifiers'])

prop('C15', title='Shipped transports deliver messages intact and in order',
     technique='Kani: loop-free full-domain harnesses on the real error-kind table and 128-bit id codec functions (complete proofs, not bounded)',
     level_text='Proof by CBMC over the full input domain of tarpc\'s own wire tables (error kinds both directions incl. the primitive type written); the framing/codec layers are dependency code and enter as assumptions.',
     level_note='Only tarpc-owned encoding functions are under contract.',
     kani=['k1_errorkind_written_as_u32_code', 'k1_errorkind_read_total_and_table', 'k1_errorkind_round_trip'],
     assumptions=['A-codec', 'A-verifiers'],
     not_covered='length-delimited framing under fragmentation, serde-derived schemas, FIFO of the tokio/futures queues and end-of-stream signalling are dependency code (A-codec, A-mpsc): not claimed')
