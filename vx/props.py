"""Registry: which units / harnesses decide which property, and the text that goes into evidence."""

# Assumption register (DESIGN §8) -- cited by id in every evidence file.
ASSUMPTIONS = {
    'A-extraction': 'extraction rules R0-R12 preserve the semantics of the extracted functions; every application is logged in build/<unit>.provenance.json',
    'A-tracing': 'dropped tracing statements and span guards do not affect control or data flow',
    'A-pin': "pin-project's project() is field access; Pin<&mut Self> methods are &mut self methods",
    'A-core': 'vstd specifications of core/std (Option, Result, HashMap incl. Entry API) and the assume_specifications in prelude/base.rs for Poll and the ? operator',
    'A-hashmap-iter': 'std HashMap::drain yields every entry exactly once (some order) and leaves the map empty; HashMap::values yields the value of every entry exactly once (prelude/hash_iter.rs); rule R17 writes `for`/`Iterator::map`/`Iterator::for_each` out by their definitions in core',
    'A-hashmap': 'FnvHashMap behaves as std HashMap (vstd spec); HashMap::shrink_to only changes capacity (Compact::compact itself is under contract in unit util_compact: contents unchanged; the table units call it through the frame-only model compact_map, which states exactly that contract)',
    'A-delayqueue': 'tokio-util DelayQueue: fresh key on insert; remove panics on an absent key; insert panics for timeout > 2^36-1 ms (and the wheel is polled often enough that its elapsed time is current); poll_expired never yields before the delay elapsed, each armed key at most once, Pending registers the waker, Ready(None) iff empty',
    'A-oneshot': 'tokio oneshot: send consumes the sender and hands the value to the paired receiver or returns it; close() happens-before a later is_closed()',
    'A-mpsc': 'tokio mpsc: poll_recv is FIFO, None is stable, Pending registers the waker',
    'A-sink': 'the transport obeys the futures Sink/Stream contract (Fuse included)',
    'A-atomic': 'AtomicUsize::fetch_add returns the previous value and adds atomically, wrapping (prelude/atomic_counter.rs); the memory ordering argument only concerns other memory',
    'A-hash': 'hash_request (BuildHasher::build_hasher, Hash::hash, Hasher::finish) is a function of the hasher and the request (prelude/lb_models.rs); the struct invariant stubs_len == stubs.len() is established by ConsistentHash::new / with_hasher (two-line constructors, not under contract; exercised by the Kani harness)',
    'A-stub': 'the stub wrapped by Retry is an arbitrary implementation of Stub<Req = Arc<Req>>: it may answer anything; each call is one entry of the ghost log (prelude/retry_models.rs); Arc::new / Arc::clone preserve the value (vstd)',
    'A-range-from': 'RangeFrom<u32>::next yields the counter and advances it by one below u32::MAX (rule R18)',
    'A-derive': '#[derive(Default)] on server::InFlightRequests builds every field with its own Default (no source text to extract); that this state satisfies the table invariant is the checked lemma lemma_default_wf',
    'A-abortable': 'futures Abortable/AbortHandle semantics; Rust drop order',
    'A-ids': 'request ids reaching the dispatch are pairwise distinct: AtomicUsize::fetch_add is atomic and a channel sees fewer than 2^64 calls (that every clone of a client handle shares the ONE counter and the same dispatch queues is proved: `Clone for Channel` is under contract in unit client)',
    'A-pair': 'Channel::call enqueues the sender of the receiver it then awaits, with the id it allocated',
    'A-codec': 'tokio-util length-delimited framing, tokio-serde JSON/bincode and serde_derive output are correct',
    'A-otel': 'tracing-opentelemetry bridge functions used for trace-context extraction',
    'A-verifiers': 'soundness of Verus/Z3 and Kani/CBMC; Verus exec arithmetic is machine arithmetic with overflow obligations, spec arithmetic is mathematical',
    'A-clock': 'Instant is monotone',
    'A-arc': 'Arc/Weak: strong_count is the number of live holders; upgrade succeeds iff one is alive; a fresh Arc has count 1 (prelude/arc_world.rs)',
    'A-rand': 'rand::thread_rng / SpanId::random return an arbitrary value (no property of the value is used)',
}

# Verus units: name -> python module providing unit()
VERUS_UNITS = {
    'client_table': 'contracts.client_table',
    'client': 'contracts.client',
    'server_table': 'contracts.server_table',
    'server': 'contracts.server',
    'trace_ctx': 'contracts.trace_ctx',
    'channels': 'contracts.channels',
    'cancellations': 'contracts.cancellations',
    'util_compact': 'contracts.util_compact',
    'transports': 'contracts.transports',
    'lb_fairness': 'contracts.lb_fairness',
    'retry': 'contracts.retry',
}

PROPS = {}

NOT_APPLICABLE = {
    'C17': 'quantifies over programs (every service definition the proc-macro accepts); the carrier is a syn/quote token-stream generator whose input and output are opaque TokenStreams -- no Verus/Kani contract can state that the generated match pairs variant m with method m, and a proc-macro crate cannot host Kani harnesses; checking sample expansions would be testing, not this technique (DESIGN §6)',
}


SERVER_TOO = 'server-too'
NATIVE_SERVER = 'native-server'


def prop(pid, *flags, **kw):
    PROPS[pid] = dict(id=pid, verus=[], kani=[], native=[], assumptions=[], bounded=[], not_covered='') | kw
    if NATIVE_SERVER in flags:
        PROPS[pid]['native'] = list(PROPS[pid]['native']) + ['server_wire_bounded']
    if SERVER_TOO in flags:
        PROPS[pid]['verus'] = list(PROPS[pid]['verus']) + ['server']
        for a in ['A-abortable', 'A-sink', 'A-mpsc', 'A-delayqueue']:
            if a not in PROPS[pid]['assumptions']:
                PROPS[pid]['assumptions'] = list(PROPS[pid]['assumptions']) + [a]


COMMON_V = ['A-extraction', 'A-tracing', 'A-pin', 'A-core', 'A-hashmap', 'A-verifiers']
TECH_V = 'Verus: contracts (requires/ensures/loop invariants, ghost effect log and wire log) on the real functions, extracted mechanically from /repo on every run'
TECH_K = 'Kani/CBMC: assume(requires); one call of the real function; assert(ensures) over full-domain symbolic inputs, harness mounted in the real crate under cfg(kani)'

prop('C01', title='Responses reach exactly the call that asked',
     verus=['client'], native=['client_routing_bounded', 'client_wire_bounded', 'deadlines_bounded'], technique=TECH_V + '; plus a bounded replay search through the public API as a source of concrete failing inputs (never counted as proved)',
     assumptions=COMMON_V + ['A-oneshot', 'A-mpsc', 'A-ids', 'A-pair', 'A-delayqueue', 'A-sink'],
     level_text='Deductive proof over all table states, ids and responses: complete_request/complete/pump_read deliver a response body only to the oneshot channel stored under the response\'s own id, remove exactly that entry, and leave view, timers and effect log untouched for an unknown id; the write pump only ever delivers errors; insert stores exactly the given sender under the id written to the wire. Every history is a sequence of these contracted calls (single-owner dispatch); that step is itself machine-checked: each table function carries the step relation of lemmas/client_history.rs as a postcondition, and lemma_history proves by induction over every sequence of such steps that a delivery stemming from a response went to the channel of the call owning the response\'s id, with a value received for that id, at most once per call.',
     level_note='Channel::call is under contract too: the sender it enqueues under the allocated id is the sender of the very receiver it then awaits (A-pair reduced to the model of oneshot::channel()). tokio\'s oneshot delivery is assumed (A-oneshot).',
     not_covered='that tokio delivers the value sent on a oneshot to the paired receiver')
prop('C02', SERVER_TOO, title='Every call terminates; no wakeup is lost',
     verus=['client'], native=['client_wakeups_bounded', 'server_wakeups_bounded'], technique=TECH_V + ' (safety proxy: Pending => wake source armed); plus bounded wake-driven replay searches (tasks polled only when woken, compared with eager polling) as a source of concrete lost-wakeup scenarios (never counted as proved)',
     assumptions=COMMON_V + ['A-oneshot', 'A-mpsc', 'A-delayqueue', 'A-sink'],
     level_text='Only the safety proxy is proved: every poll function of the client dispatch that returns Pending has, at that return, registered the waker with its own event source or is blocked behind a transport registration (flush/ready) or the in-flight capacity, and the run loop returns Pending only with the read side registered and timers registered when anything is in flight. Liveness proper (fair executor, wake => re-poll) is argued on paper and listed as unchecked.',
     level_note='Liveness is not decidable by this technique; dependency models are assumed to register the waker whenever they answer Pending.',
     not_covered='liveness proper; caller-side oneshot wake; server handler wake-ups; executor fairness; a transport registration superseded within the same poll (argued on paper: the superseding Ready implies a wake was issued during this poll)')
prop('C03', title='Abandoned calls are cancelled on the wire, exactly when needed',
     verus=['client', 'cancellations'], native=['client_wire_bounded', 'client_backpressure_bounded'], technique=TECH_V + '; plus bounded replay searches on the wire (incl. abandonment under back-pressure) as a source of concrete failing inputs (never counted as proved)',
     assumptions=COMMON_V + ['A-oneshot', 'A-mpsc', 'A-ids', 'A-sink', 'A-delayqueue'],
     level_text='Proof that a request is yielded for writing only if its receiver was not seen closed; that a Cancel is written only for an id that is in flight (hence after its Request: dispatch invariant has_req) and removes it from the table (hence at most once); that a request whose write failed is removed (no later cancel).',
     level_note='Also proved: ResponseGuard::drop closes the receiver before queueing the cancellation and queues one iff armed; ResponseGuard::response disarms the guard once the receiver produced; Channel::call creates the armed guard before enqueueing the request.',
     not_covered='data races inside tokio close/send')
prop('C05', title='Client enforces request deadlines, never early',
     verus=['client'], native=['deadlines_bounded'], kani=['k3_time_until_is_saturating_difference', 'k3_max_timer_delay_value'], technique=TECH_V + '; ' + TECH_K,
     assumptions=COMMON_V + ['A-delayqueue', 'A-oneshot', 'A-clock'],
     level_text='Proof that insert_request arms exactly one timer for this id with delay min(deadline - now, MAX_TIMER_DELAY); that an expiry removes exactly the entry of the id its timer carried and delivers DeadlineExceeded to that entry\'s channel only; that a processed reply removes the timer (no later expiry); that pump_write polls expirations on every pass. Kani proves on the real code that time_until is the saturating difference for all instants.',
     level_note='Timer accuracy (never early, eventually fires) is tokio-util\'s (A-delayqueue).')
prop('C07', SERVER_TOO, title='Deadlines propagate across hops without stretching',
     verus=['client', 'retry', 'lb_fairness'], native=['server_context_bounded', 'client_wire_bounded', 'codec_grid_bounded', 'retry_bounded'], kani=['k2_deadline_written_as_remaining_time', 'k2_deadline_decode_total_and_shifted', 'k2_deadline_shift_law', 'k2_default_deadline_ten_seconds', 'k3_time_until_is_saturating_difference'],
     technique=TECH_K + '; ' + TECH_V + '; plus bounded replay searches (what the handler observes; what the client writes) as a source of concrete failing inputs (never counted as proved)',
     assumptions=['A-codec', 'A-clock', 'A-verifiers', 'A-extraction'],
     level_text='The stubs that sit between a caller and its channel (Retry, RoundRobin, ConsistentHash) hand every attempt / the one forwarded call the caller\'s context unchanged (Verus, units retry and lb_fairness). CBMC proof over all instants now1 <= now2 and all deadlines of the real serialize/deserialize: written duration = saturating D - now1; decoded D\' = now2 + duration; D\' >= D, D\' - D = transit, passed deadline arrives as now; default = now + 10 s. Verus proves the request written to the wire carries the caller\'s context (deadline forwarded unchanged).',
     level_note='Codecs carrying a Duration faithfully and serde_derive\'s default handling are assumed (A-codec).',
     not_covered='context::current() inside a handler without an OpenTelemetry layer; the derived Context::deserialize with the field omitted')
prop('C09', SERVER_TOO, title='Transport failures are contained and reported',
     verus=['client'], native=['complete_all_bounded', 'drop_aborts_bounded', 'server_wire_bounded', 'client_faults_bounded', 'server_faults_bounded'], technique=TECH_V + ' (complete_all_requests and Drop for the server table included: their iterator chains are written out as the loops they denote, rule R17, and proved with loop invariants); fault-injection replay searches on both ends and two small table enumerations as a source of concrete failing inputs (never counted as proved)',
     assumptions=COMMON_V + ['A-sink', 'A-oneshot', 'A-mpsc', 'A-delayqueue', 'A-hashmap-iter', 'A-abortable'],
     level_text='Proof that each transport wrapper tags a failure with its activity and that the tag survives `?` up to run(); that a failed request write removes and fails only that call and is not fatal; that start_send is never reached after a reported failure (its precondition); panic freedom of every extracted function (expect/unwrap/DelayQueue preconditions discharged).',
     level_note='shut_down_with_terminal_error is under contract (every queued caller with an open receiver is delivered the channel error; only channel errors are delivered; the transport is not touched again) and calls complete_all_requests, which is proved in the same unit from its real body (R17: `drain().map(closure)` consumed by an empty-bodied `for` = a loop over the drained entries; loop invariant: one delivery of a value of the closure per drained entry; the FnMut bound is narrowed to Fn, which covers the only call site). Drop for server::InFlightRequests is proved likewise (one abort per tracked handle, nothing else). Server: BaseChannel/Requests error tagging and containment are proved in unit server.',
     not_covered='the dyn-Any downcast of the stored terminal error in RequestDispatch::poll (A-downcast); that Rust runs Drop for server::InFlightRequests when the channel is dropped (language semantics); HashMap::drain / values yield every entry exactly once (A-hashmap-iter)')
prop('C10', SERVER_TOO, NATIVE_SERVER, title='Shutdown is orderly: queued work is drained first',
     verus=['client'], native=['client_wire_bounded'], technique=TECH_V,
     assumptions=COMMON_V + ['A-sink', 'A-mpsc', 'A-oneshot', 'A-delayqueue'],
     level_text='Proof that pump_write returns Ready(None) only when both queues are drained, the transport is closed and nothing is unflushed (invariant: closed => both queues drained); that run() returns Ok only if the read side ended or the write side closed with an empty table.',
     level_note='That dropping the dispatch future fails the remaining callers is Rust drop glue + A-oneshot.',
     not_covered='server side (unit server)')
prop('C11', SERVER_TOO, NATIVE_SERVER, title='Tracked request state is bounded and fully reclaimed',
     verus=['client', 'cancellations', 'util_compact'], native=['client_wire_bounded', 'client_backpressure_bounded', 'deadlines_bounded', 'server_abandon_bounded'],
     technique='Verus: representation invariant (timers<->entries bijection) + whole-view postconditions on the real table functions, extracted from /repo each run',
     level_text='Deductive proof, for all table states and all ids, that every public operation of the real in-flight tables preserves the timers<->entries bijection and changes the abstract view exactly as specified; the history quantifier is discharged by the invariant (every call sequence is a sequence of contracted calls).',
     level_note='Proof is about the extracted text (rules logged per run) against trusted models of HashMap/DelayQueue/oneshot.',
     assumptions=['A-extraction', 'A-tracing', 'A-pin', 'A-core', 'A-hashmap', 'A-delayqueue', 'A-oneshot', 'A-verifiers'])

prop('C15', title='Shipped transports deliver messages intact and in order',
     verus=['transports'], native=['transports_bounded', 'codec_grid_bounded'],
     technique='Kani: loop-free full-domain harnesses on the real error-kind table and 128-bit id codec functions (complete proofs, not bounded); ' + TECH_V + ' (the forwarding layer of the in-memory and serde transports)',
     level_text='Proof by CBMC over the full input domain of tarpc\'s own wire tables (error kinds both directions incl. the primitive type written). Verus proof that every Stream/Sink function of the shipped transports (UnboundedChannel, bounded Channel, serde_transport::Transport) forwards: start_send hands the very item to the underlying queue/codec exactly once (whole-sequence postcondition on the accepted sequence) or reports an error and hands over nothing; poll_next yields exactly what the queue/codec yields (items unchanged, end-of-stream as end-of-stream, Pending as Pending, errors as errors) and never writes; readiness/flush/close answers are the underlying ones; the constructors cross-wire the two ends. The framing/codec layers and the queues are dependency code and enter as assumptions.',
     level_note='Only tarpc-owned encoding and forwarding functions are under contract; FIFO and end-of-stream behaviour of tokio/futures queues and of the length-delimited serde codec are assumed (A-mpsc, A-codec).',
     kani=['k1_errorkind_written_as_u32_code', 'k1_errorkind_read_total_and_table', 'k1_errorkind_round_trip', 'k1_u128_round_trip_le_bytes', 'k1_cancel_shape_is_value_independent', 'k1_request_shape_is_value_independent'],
     assumptions=['A-codec', 'A-mpsc', 'A-verifiers', 'A-extraction', 'A-pin', 'A-core'],
     not_covered='length-delimited framing under fragmentation, serde-derived schemas beyond their shape, FIFO of the tokio/futures queues and their end-of-stream signalling are dependency code (A-codec, A-mpsc): not claimed; serde_transport::new / tcp / unix constructors (plain construction of dependency objects)')

prop('C14', SERVER_TOO, NATIVE_SERVER, title="tarpc honours the pluggable transport's contract",
     verus=['client'], native=['client_wire_bounded'], technique=TECH_V + '; the transport model\'s start_send preconditions are the property\'s write conditions',
     assumptions=COMMON_V + ['A-sink', 'A-mpsc'],
     level_text='Proof that every start_send call site of the client dispatch establishes ready && !failed && !closed; that pump_write/run go idle only with unflushed == 0 or the flush waker registered; and the bounded-retry clause: ensure_writeable polls readiness at most twice per call (ghost counter np) and returns Pending with a transport waker registered.',
     level_note='Server channel and throttler call sites are in unit server when registered.',
     not_covered='server-side call sites until unit server is registered')
prop('C16', SERVER_TOO, title='No peer-supplied input can crash an endpoint',
     verus=['client'], native=['server_wire_bounded', 'client_routing_bounded', 'deadlines_bounded'], kani=['k2_deadline_decode_total_and_shifted', 'k3_time_until_is_saturating_difference', 'k3_max_timer_delay_value', 'k3_deadline_field_always_renderable', 'k1_errorkind_read_total_and_table'],
     technique=TECH_V + '; ' + TECH_K,
     assumptions=COMMON_V + ['A-delayqueue', 'A-clock', 'A-codec'],
     level_text='Panic freedom as proof obligations: DelayQueue::insert/remove preconditions (range, key present) discharged at every call site from the table invariant and the clamp; unknown ids change nothing; decoding any deadline duration or error code is total (CBMC, full domain).',
     level_note='Malformed frames are the codec\'s (dependency). humantime renders every timestamp before year 10000 (its documented contract) is assumed.',
     not_covered='malformed frames (codec)')
prop('C18', SERVER_TOO, title='Trace context follows the request, and only that request',
     verus=['client', 'trace_ctx', 'retry', 'lb_fairness'], native=['server_context_bounded', 'client_wire_bounded', 'cascade_bounded'], kani=['k6_otel_id_conversions_round_trip'], technique=TECH_V + '; plus a bounded replay search (boundary-value grid through the public API) as a source of concrete failing inputs (never counted as proved)',
     assumptions=COMMON_V + ['A-otel', 'A-sink', 'A-rand'],
     level_text='Proof that the Request written carries exactly the context stored in the table under its id, and that the Cancel for an id carries the trace context stored for that id (same trace id, sampling and span id); contexts live in the entry of their own id (frame clauses), so concurrent requests cannot exchange them.',
     level_note='Child-context derivation (new_child, server start_request) is in K6/unit server when registered.',
     not_covered='OpenTelemetry bridge')

prop('C04', NATIVE_SERVER, title='Servers stop cancelled work and cancellation cascades',
     verus=['server', 'cancellations'], native=['cascade_bounded'], technique=TECH_V + '; plus bounded replay searches (server wire; a two-hop chain for the cascade clause) as a source of concrete failing inputs (never counted as proved)',
     assumptions=COMMON_V + ['A-abortable', 'A-delayqueue', 'A-sink', 'A-mpsc'],
     level_text='Proof that a Cancel message aborts exactly the handle stored for that id, untracks it and removes its timer, and changes nothing for an unknown id; that BaseChannel::start_send drops a response whose id is no longer tracked (nothing is transmitted after a cancel); that reading never produces effects other than aborts; that every poll of a channel polls its inbound side (control traffic is processed). The cascade step (an aborted handler drops its nested calls, whose guards cancel downstream) rests on A-abortable + the client guard contract.',
     level_note='Known finding F8 (throttler at its limit with the sink not ready does not poll the inner channel) is reported as KNOWN-FINDING.',
     not_covered='multi-hop cascade is an argument over contracts (abort => handler future dropped => nested call guards fire), not a checked lemma; partial execution of an aborted handler is abstracted by the two-outcome Abortable model (R15)')
prop('C06', title='Server enforces request deadlines, never early',
     verus=['server'], native=['deadlines_bounded'], kani=['k3_time_until_is_saturating_difference', 'k3_max_timer_delay_value'], technique=TECH_V + '; ' + TECH_K,
     assumptions=COMMON_V + ['A-abortable', 'A-delayqueue', 'A-clock', 'A-sink'],
     level_text='Proof that start_request arms exactly one timer for the id with delay min(deadline - now, MAX_TIMER_DELAY); that an expiry aborts exactly the handle of the id its timer carried, removes that entry only; that a response for an expired id is dropped by start_send. Kani proves the arithmetic of time_until on the real code.',
     level_note='Known finding F8 is shared with C04. Timer accuracy is tokio-util\'s.')
prop('C08', NATIVE_SERVER, title='One handler and at most one response per request',
     verus=['server'], technique=TECH_V,
     assumptions=COMMON_V + ['A-abortable', 'A-delayqueue', 'A-sink', 'A-mpsc'],
     level_text='Proof that BaseChannel::poll_next yields a TrackedRequest only for an id that was not tracked at that moment and tracks it (a duplicate id yields nothing and changes nothing); that start_send writes a response iff its id is tracked and untracks it (so between two transmissions of an id there is a fresh read of it on this channel, and every transmitted response answers a request read here); that Requests forwards at most one response per pass through that start_send and wraps each TrackedRequest into exactly one InFlightRequest.',
     level_note='The history step is machine-checked: the table functions carry the step relations of lemmas/server_history.rs as postconditions, and lemma_server_history proves over every sequence of table operations that accepted(id) = answered(id) + cancelled-or-expired(id) + [id still tracked], i.e. every accepted request ends by exactly one route (at most one response each, none after cancellation/expiry; aborted handles are exactly those of the requests ended that way). Generic over the Channel contract: holds for BaseChannel and for MaxRequests<C> stacked on any quiet channel. InFlightRequest::execute is under contract: one handler invocation, one response bearing the request id, guard disarmed on every completion path.',
     not_covered='id reuse after cancellation while the old handler\'s response is still queued')
prop('C12', NATIVE_SERVER, title='Per-channel request limit throttles exactly the excess',
     verus=['server'], technique=TECH_V + '; the inner channel is an arbitrary implementation of the proved Channel contract',
     assumptions=COMMON_V + ['A-sink'],
     level_text='Proof, for an arbitrary inner channel satisfying the Channel contract (which BaseChannel is proved to satisfy), that MaxRequests hands out a request only while fewer than L others are in flight; that everything it writes while reading is a WouldBlock error reply for a request it just read, sent through start_send (which untracks it, so it is never executed); and the clause "refused only if L others really were in flight when it was read".',
     level_note='Known finding F7: the last clause fails on the real code (limit tested before the inner read).')

prop('C19', title='Request hooks run in order and short-circuit correctly',
     kani=['k4_hook_then_serve', 'k4_serve_then_hook', 'k4_before_and_after', 'k4_chain_api_order_and_short_circuit', 'k4_then_fn_chains_closures_like_then', 'k4_empty_chain_is_identity', 'k4_after_wraps_inner_before_error', 'k4_cons_first_then_rest_any_rest', 'k4_cons_then_appends_at_end_any_rest', 'k4_chain_of_three_order'],
     technique=TECH_K + '; generic code instantiated with nondeterministic hooks/handlers (symbolic pass/fail, context and result mutation, event recorder); list length by structural induction (Cons with arbitrary Rest)',
     assumptions=['A-verifiers'],
     level_text='CBMC proof on the real generic combinators with fully nondeterministic hook and handler behaviour: order, context threading, short-circuit, exactly-once after-hook (also on inner errors), result pass-through and rewrite; BeforeRequestCons is proved against an arbitrary rest (induction step) and Nil as base, so every chain length is covered.',
     level_note='The one-poll executor makes a suspending hook out of scope (hooks whose futures return Pending are resumed by the same state machine; not modelled). Unwinding assertions are on.',
     not_covered='hooks that suspend')
prop('C20', title='Load-balancing and retry stubs keep their dispatch promises',
     verus=['lb_fairness', 'retry'],
     kani=['k5_cycle_next_is_counter_mod_len', 'k5_cycle_next_upto8', 'k5_round_robin_call_uses_next', 'k5_consistent_hash_valid_and_stable', 'k5_serve_as_stub_passes_through', 'k5_retry_attempts_numbered_and_last_result'],
     native=['retry_bounded', 'round_robin_bounded'],
     technique=TECH_V + ' (unit lb_fairness: cycle::State::next, AtomicCycle::next, RoundRobin::call, ConsistentHash::call for every number of backends; unit retry: Retry::call for every number of attempts; the generic backing stub is instantiated with an opaque logging model); ' + TECH_K + ' as the second opinion on the same functions with the real atomics and hasher (backend counts enumerated, 3 attempts) and as the source of concrete failing inputs, next to two native enumerations',
     assumptions=['A-verifiers', 'A-ids', 'A-extraction', 'A-tracing', 'A-stub', 'A-range-from', 'A-atomic', 'A-hash'],
     level_text='Verus proof on the real functions, for every number n of backends: State::next / AtomicCycle::next return element (counter % n) and advance the shared counter by exactly one (wrapping); RoundRobin::call makes exactly one call, on that backend, with the caller\'s context and request, and passes its answer through; ConsistentHash::call makes exactly one call, on backend hash(request) % n (a function of hasher and request only), never panics on the index conversion, and passes the answer through. CBMC proof that State::next returns element (counter % len) and advances the atomic counter by exactly one for every counter value including the wrap (so concurrent calls get consecutive distinct counters); that ConsistentHash picks hash % len < len, never panics and is a function of the request hash only (symbolic hasher); that a Serve used as a Stub passes context, request and result through. Backend counts are enumerated (1..=4 / 1..=3): labelled bounded in that dimension.',
     level_note='Retry::call is under a Verus contract (unit retry) for every number of attempts below 2^32: every call on the wrapped stub carries the caller\'s context and request, attempts are numbered 1, 2, 3, ..., the policy asked for a retry after every attempt but the last and not after the last, the last attempt\'s result is returned, and nothing else is done to the wrapped stub. The wrapped generic Stub is instantiated with an opaque model (async trait fns are outside Verus); `for i in 1..` is written out as the counter loop it denotes (R18). It is also checked by a Kani harness on the real function with symbolic results, policy decisions, deadline and clock, bounded to 3 attempts (unwinding assertions on), and by a native enumeration (5 attempts): those two are labelled bounded. The fairness corollary (per-backend counts differ by at most one over any m consecutive counter values, for every start value, m and backend count) is a Verus lemma over that contract (lemmas/round_robin_fair.rs); it assumes no wrap of the 64-bit counter (fewer than 2^64 calls).',
     bounded=['Kani harnesses of the balancers: backend count enumerated (cycle 1..=4, consistent hash 1..=3, round robin 3) -- the Verus contracts of unit lb_fairness hold for every backend count', 'Retry::call under Kani: at most 3 attempts; native enumeration: 5 -- the Verus contract of unit retry holds for every number of attempts below 2^32'],
     not_covered='an empty backend list (both balancers divide by the length: a configuration error, stated as precondition); ConsistentHash::new / with_hasher; Retry beyond 2^32 - 1 attempts (the u32 attempt counter: std may panic, wrap or saturate); termination of Retry::call (depends on the policy); round-robin fairness across a wrap of the 64-bit call counter')

prop('C13', title='Per-key channel limit is never exceeded nor over-applied',
     verus=['channels'], native=['channels_bounded', 'channels_exec_bounded'], technique=TECH_V + '; Arc/Weak strong counts modelled by a threaded ghost world; plus a bounded replay search through the public API as a source of concrete failing inputs (never counted as proved)',
     assumptions=COMMON_V + ['A-arc', 'A-mpsc'],
     level_text='Proof of a data-structure invariant over (key_counts, ghost world of live trackers): every tracker that still has a live yielded channel is the one recorded for its key and holds at most n channels; an entry is forgotten only when its tracker is dead. Every function of the filter (admission, close-notification processing incl. stale ones, the poll loop) preserves it; a lemma shows it is stable under channels being dropped by the environment at any time; admission is refused only if n channels of that key are alive at that moment.',
     level_note='Function-level atomicity w.r.t. channel drops inside increment_channels_for_key (between strong_count and upgrade) is assumed; key type instantiated with u64. The forwarders of TrackedChannel (poll_next, poll_ready, start_send, poll_flush, poll_close, in_flight_requests) are under contract too: each performs exactly the one operation of the wrapped channel, returns its answer unchanged and keeps its tracker (the limit is not over-applied to an admitted channel: it behaves as the channel it wraps).',
     not_covered='a drop racing inside increment_channels_for_key; what else may hold a tracker alive (e.g. an overridden Channel::execute handing it to handlers: only the replay search channels_exec_bounded sees that); TrackedChannel::config/transport/get_ref (plain projections)')
