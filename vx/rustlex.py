"""Minimal Rust lexical helpers: comment/string-aware bracket matching and item location.

These work on rustfmt-formatted source text.  They never *interpret* Rust; they only find
the extent of items so that the extractor can copy real text out of /repo.
"""
import re


class LexError(Exception):
    pass


def mask(text):
    """Return a same-length copy of `text` in which the contents of comments, string
    literals and char literals are replaced by spaces (newlines kept), so that bracket
    matching and regex searches on the mask only see code."""
    out = list(text)
    i, n = 0, len(text)
    while i < n:
        c = text[i]
        two = text[i:i + 2]
        if two == '//':
            j = text.find('\n', i)
            j = n if j < 0 else j
            for k in range(i, j):
                out[k] = ' '
            i = j
        elif two == '/*':
            depth, j = 1, i + 2
            while j < n and depth:
                if text[j:j + 2] == '/*':
                    depth += 1
                    j += 2
                elif text[j:j + 2] == '*/':
                    depth -= 1
                    j += 2
                else:
                    j += 1
            for k in range(i, j):
                if out[k] != '\n':
                    out[k] = ' '
            i = j
        elif c == '"' or (c == 'r' and re.match(r'r#*"', text[i:i + 8]) and (i == 0 or not (text[i - 1].isalnum() or text[i - 1] == '_'))) \
                or (c == 'b' and text[i + 1:i + 2] == '"'):
            # string literal (plain, raw, byte)
            m = re.match(r'b?r(#*)"', text[i:i + 10])
            if m:
                hashes = m.group(1)
                start = i + m.end()
                end = text.find('"' + hashes, start)
                if end < 0:
                    raise LexError('unterminated raw string')
                j = end + 1 + len(hashes)
            else:
                j = i + (2 if c == 'b' else 1)
                while j < n and text[j] != '"':
                    j += 2 if text[j] == '\\' else 1
                j += 1
            for k in range(i + 1, j - 1):
                if out[k] != '\n':
                    out[k] = ' '
            i = j
        elif c == "'":
            # char literal or lifetime
            m = re.match(r"'(\\.[^']*|[^\\'])'", text[i:i + 12])
            if m:
                for k in range(i + 1, i + m.end() - 1):
                    out[k] = ' '
                i += m.end()
            else:
                i += 1
        else:
            i += 1
    return ''.join(out)


OPEN = {'(': ')', '[': ']', '{': '}'}
CLOSE = {')', ']', '}'}


def match_bracket(masked, pos):
    """`masked[pos]` is an opening bracket; return the index of its partner."""
    stack = []
    i, n = pos, len(masked)
    while i < n:
        c = masked[i]
        if c in OPEN:
            stack.append(OPEN[c])
        elif c in CLOSE:
            if not stack or stack[-1] != c:
                raise LexError('unbalanced bracket at %d' % i)
            stack.pop()
            if not stack:
                return i
        i += 1
    raise LexError('no partner for bracket at %d' % pos)


def find_block_open(masked, pos):
    """From `pos`, find the first '{' that is not nested in (), [] or <..> generics of a
    signature.  Used to find where a fn / impl / struct body starts."""
    depth = 0
    i, n = pos, len(masked)
    while i < n:
        c = masked[i]
        if c in '([':
            depth += 1
        elif c in ')]':
            depth -= 1
        elif c == '{' and depth == 0:
            return i
        elif c == ';' and depth == 0:
            return -1
        i += 1
    return -1


def line_of(text, pos):
    return text.count('\n', 0, pos) + 1


def find_impl(text, masked, header_re):
    """Locate `impl ...` whose header (text between 'impl' and '{', whitespace-normalised)
    matches header_re. Returns (start, body_open, body_close)."""
    hits = []
    for m in re.finditer(r'(?m)^[ \t]*(?:unsafe )?(?:impl|(?:pub(?:\([a-z]+\))? )?trait)\b', masked):
        bo = find_block_open(masked, m.start())
        if bo < 0:
            continue
        header = ' '.join(text[m.start():bo].split())
        if re.fullmatch(header_re, header):
            hits.append((m.start(), bo, match_bracket(masked, bo)))
    if len(hits) != 1:
        raise LexError('impl header /%s/ matched %d times' % (header_re, len(hits)))
    return hits[0]


FN_RE = r'(?m)^(?P<indent>[ \t]*)(?P<quals>(?:pub(?:\([a-z]+\))? )?(?:const )?(?:async )?(?:unsafe )?)fn (?P<name>%s)\b'


def find_fn(text, masked, name, lo=0, hi=None, indent=None):
    """Locate `fn name` between lo and hi. Returns dict with positions:
    start (of the `pub`/`fn` keyword line incl. attributes), sig_start, body_open, body_close."""
    hi = len(text) if hi is None else hi
    hits = []
    for m in re.finditer(FN_RE % re.escape(name), masked[lo:hi]):
        if indent is not None and len(m.group('indent')) != indent:
            continue
        s = lo + m.start()
        bo = find_block_open(masked, s)
        if bo < 0 or bo >= hi:
            continue
        hits.append(dict(sig_start=s + len(m.group('indent')), body_open=bo,
                         body_close=match_bracket(masked, bo), indent=len(m.group('indent'))))
    if len(hits) != 1:
        raise LexError('fn %s matched %d times' % (name, len(hits)))
    h = hits[0]
    # attributes / doc comments directly above
    ls = text.rfind('\n', 0, h['sig_start']) + 1
    attr_start = ls
    while True:
        prev_end = attr_start - 1
        if prev_end <= 0:
            break
        prev_start = text.rfind('\n', 0, prev_end) + 1
        line = text[prev_start:prev_end].strip()
        if line.startswith('#[') or line.startswith('///') or line.startswith('//'):
            attr_start = prev_start
        elif line.endswith(')]') or line.endswith(')') and False:
            break
        else:
            break
    h['attr_start'] = attr_start
    return h


def find_type_item(text, masked, kind, name):
    """Locate top-level or nested `struct|enum Name ... { }` (or tuple struct `(...);`).
    Returns (start, end) excluding attributes and docs."""
    hits = []
    for m in re.finditer(r'(?m)^[ \t]*(?:pub(?:\([a-z]+\))? )?%s %s\b' % (kind, re.escape(name)), masked):
        s = m.start() + (len(m.group(0)) - len(m.group(0).lstrip()))
        # tuple struct / unit struct?
        rest = masked[m.end():]
        k = 0
        # skip generics
        while k < len(rest) and rest[k] in ' \t\n':
            k += 1
        if k < len(rest) and rest[k] == '<':
            depth = 0
            while k < len(rest):
                if rest[k] == '<':
                    depth += 1
                elif rest[k] == '>':
                    depth -= 1
                    if depth == 0:
                        k += 1
                        break
                k += 1
            while k < len(rest) and rest[k] in ' \t\n':
                k += 1
        if k < len(rest) and rest[k] == '(':
            e = match_bracket(masked, m.end() + k)
            semi = masked.find(';', e)
            hits.append((s, semi + 1))
        elif k < len(rest) and rest[k] == ';':
            hits.append((s, m.end() + k + 1))
        else:
            bo = find_block_open(masked, m.end())
            if bo < 0:
                continue
            hits.append((s, match_bracket(masked, bo) + 1))
    if len(hits) != 1:
        raise LexError('%s %s matched %d times' % (kind, name, len(hits)))
    return hits[0]


def split_sig(sig_text):
    """Split a fn signature `... fn name<..>(params) -> Ret where ...` (text up to but not
    including the body '{') into (head_through_params, ret_type_or_None, where_or_'')."""
    m = mask(sig_text)
    # find the parameter list: first '(' after 'fn name' at angle depth 0
    k = re.search(r'\bfn\s+\w+', m).end()
    depth = 0
    while k < len(m):
        c = m[k]
        if c == '<':
            depth += 1
        elif c == '>' and m[k - 1] != '-':
            depth -= 1
        elif c == '(' and depth == 0:
            break
        k += 1
    pc = match_bracket(m, k)
    head = sig_text[:pc + 1]
    tail = sig_text[pc + 1:]
    mt = m[pc + 1:]
    w = re.search(r'\bwhere\b', mt)
    where = ''
    if w:
        where = tail[w.start():].strip()
        tail = tail[:w.start()]
    tail = tail.strip()
    ret = None
    if tail.startswith('->'):
        ret = tail[2:].strip()
    elif tail:
        raise LexError('cannot parse signature tail %r' % tail)
    return head, ret, where, (k, pc)
