"""Run Verus on a generated unit file and map every diagnostic to a contracted function and clause."""
import json
import os
import re
import subprocess
import time

VERIFICATION_FAILURE_MESSAGES = [
    'postcondition not satisfied',
    'precondition not satisfied',
    'assertion failed',
    'invariant not satisfied',
    'loop invariant not preserved',
    'possible arithmetic underflow/overflow',
    'possible division by zero',
    'decreases not satisfied',
    'possible bit shift underflow/overflow',
    'cannot show invariant',
    'unable to prove',
    'recommendation not met',
    'constructed value may fail to meet its declared type invariant',
    'cannot prove termination',
    'could not prove termination',
]
UNDECIDED_MESSAGES = ['Resource limit (rlimit) exceeded', 'rlimit', 'timed out', 'The verifier does not yet support']


def run_verus(rs_path, seed=None, rlimit=None, extra=None, timeout=600, threads=None):
    cmd = ['verus', os.path.basename(rs_path), '--triggers-mode', 'silent', '--multiple-errors', '25',
           '--output-json', '--time-expanded', '--error-format=json', '--no-report-long-running']
    if seed is not None:
        cmd += ['--smt-option', 'smt.random_seed=%d' % seed, '--smt-option', 'sat.random_seed=%d' % seed]
    if rlimit:
        cmd += ['--rlimit', str(rlimit)]
    if threads:
        cmd += ['--num-threads', str(threads)]
    if extra:
        cmd += extra
    t0 = time.time()
    try:
        p = subprocess.run(cmd, cwd=os.path.dirname(rs_path), capture_output=True, text=True, timeout=timeout)
        out, err, rc = p.stdout, p.stderr, p.returncode
    except subprocess.TimeoutExpired as e:
        return dict(cmd=' '.join(cmd), rc=None, wall_s=time.time() - t0, timeout=True, diagnostics=[], json=None,
                    stderr=(e.stderr or b'').decode(errors='replace') if isinstance(e.stderr, bytes) else (e.stderr or ''))
    wall = time.time() - t0
    vj = None
    try:
        vj = json.loads(out)
    except Exception:
        # stdout may contain other noise; find the outermost JSON object
        m = re.search(r'\{.*\}', out, re.S)
        if m:
            try:
                vj = json.loads(m.group(0))
            except Exception:
                vj = None
    diags = []
    for line in err.split('\n'):
        line = line.strip()
        if not line.startswith('{'):
            continue
        try:
            d = json.loads(line)
        except Exception:
            continue
        if d.get('$message_type') != 'diagnostic':
            continue
        diags.append(d)
    return dict(cmd=' '.join(cmd), rc=rc, wall_s=wall, timeout=False, diagnostics=diags, json=vj, stderr=err)


def classify(result, prov):
    """Return dict(failures=[...], undecided=[...], fatal=[...]) from a run_verus result.

    failure: dict(function, canary(bool), kind, message, tags, clause_line, clause_text, site_line, rendered)
    """
    fns = prov['functions']
    tagmap = {int(k): v for k, v in prov['tagmap'].items()}
    try:
        gen_lines = open(prov['generated']).read().split('\n')
    except (OSError, KeyError):
        gen_lines = []

    def enclosing_chain(line, depth=4):
        """headers of the blocks that enclose generated line `line` (innermost first), found by indentation:
        identifies *where* an exit is (e.g. `match self.inner.poll_ready(cx) { <- while ... {`)."""
        if not (1 <= line <= len(gen_lines)):
            return ''
        def indent(t):
            return len(t) - len(t.lstrip())
        cur = indent(gen_lines[line - 1])
        out = []
        for ln in range(line - 2, -1, -1):
            t = gen_lines[ln]
            if not t.strip() or t.strip().startswith('//'):
                continue
            if indent(t) < cur:
                head = t.strip()
                if head == '{':
                    # a block whose brace stands alone (loop with invariants, fn with contract): its statement is the
                    # nearest earlier line at the same indentation
                    for l2 in range(ln - 1, -1, -1):
                        t2 = gen_lines[l2]
                        if t2.strip() and not t2.strip().startswith('//') and indent(t2) <= indent(t):
                            head = t2.strip()
                            break
                out.append(head[:90])
                cur = indent(t)
                if len(out) >= depth or cur == 0:
                    break
        return ' <- '.join(out)

    def fn_at(line):
        for e in fns:
            a, b = e['gen_lines']
            if a <= line <= b:
                return e, False
            if e.get('canary_lines'):
                a, b = e['canary_lines']
                if a <= line <= b:
                    return e, True
        return None, False

    def region_at(line):
        for p in prov.get('prelude', []):
            if p['gen_lines'][0] <= line <= p['gen_lines'][1]:
                return p['file']
        for p in prov.get('lemmas', []):
            if p['gen_lines'][0] <= line <= p['gen_lines'][1]:
                return p['file']
        return None

    failures, undecided, fatal = [], [], []
    for d in result['diagnostics']:
        if d.get('level') != 'error':
            continue
        msg = d.get('message', '')
        if msg.startswith('aborting due to'):
            continue
        spans = d.get('spans', [])
        primary = [s for s in spans if s.get('is_primary')]
        labelled = [s for s in spans if 'failed' in (s.get('label') or '')]
        is_vfail = any(msg.startswith(m) or m in msg for m in VERIFICATION_FAILURE_MESSAGES)
        is_undec = any(m in msg for m in UNDECIDED_MESSAGES)
        rendered = d.get('rendered', '')
        if is_undec and not is_vfail:
            ln = primary[0]['line_start'] if primary else 0
            e, can = fn_at(ln)
            undecided.append(dict(function=e['name'] if e else None, canary=can, message=msg, rendered=rendered))
            continue
        if not is_vfail:
            fatal.append(dict(message=msg, rendered=rendered))
            continue
        # locate function: any span inside a contracted function
        func, canary = None, False
        site_line = None
        for s in primary + [s for s in spans if not s.get('is_primary')]:
            e, can = fn_at(s['line_start'])
            if e:
                func, canary = e, can
                break
        for s in spans:
            if not labelled or s not in labelled:
                e, can = fn_at(s['line_start'])
                if e:
                    site_line = s['line_start']
        site_text = ' '.join(t['text'].strip() for sp in primary for t in sp.get('text', []))[:300]
        exit_text = ' '.join(t['text'].strip() for sp in spans if not sp.get('is_primary') and ('exit' in (sp.get('label') or '') or 'end of the function' in (sp.get('label') or '')) for t in sp.get('text', [])[:3])[:300]
        exit_spans = [sp for sp in spans if not sp.get('is_primary') and ('exit' in (sp.get('label') or '') or 'end of the function' in (sp.get('label') or ''))]
        exit_line = exit_spans[0]['line_start'] if exit_spans else None
        exit_context = enclosing_chain(exit_line) if exit_line else ''
        clause_line, clause_text, tags = None, None, None
        if labelled:
            s = labelled[0]
            clause_line = s['line_end']
            clause_text = ' '.join(t['text'].strip() for t in s.get('text', []))
            # the tag comment is at the end of the clause's last line (or a later line of a multi-line clause)
            for ln in range(s['line_end'], s['line_end'] + 1):
                if ln in tagmap:
                    tags = tagmap[ln]
        if tags is None:
            # e.g. `invariant not satisfied`: the primary span is the clause itself
            for sp in primary:
                if sp['line_end'] in tagmap:
                    tags = tagmap[sp['line_end']]
                    clause_text = clause_text or ' '.join(t['text'].strip() for t in sp.get('text', []))
                    break
        where = None
        if func is None:
            ln = primary[0]['line_start'] if primary else 0
            where = region_at(ln)
        if tags is None and func is not None:
            tags = func['tags']
        failures.append(dict(function=func['name'] if func else None, emit_name=func['emit_name'] if func else None,
                             canary=canary, kind=msg, tags=tags or '', clause_line=clause_line, clause_text=clause_text,
                             site_line=site_line, site_text=site_text, exit_text=exit_text, exit_line=exit_line, exit_context=exit_context, region=where, rendered=rendered,
                             src=func['src'] if func else None, src_lines=func['src_lines'] if func else None))
    return dict(failures=failures, undecided=undecided, fatal=fatal)


def smt_times(result):
    vj = result.get('json') or {}
    t = vj.get('times-ms', {})
    out = dict(total_ms=t.get('total'), verify_ms=t.get('total-verify'), smt_ms=(t.get('smt') or {}).get('total'),
               verified=(vj.get('verification-results') or {}).get('verified'),
               errors=(vj.get('verification-results') or {}).get('errors'))
    per_fn = {}
    for mod in ((t.get('smt') or {}).get('smt-run-module-times') or []):
        for f in mod.get('function-breakdown', []):
            per_fn[f['function']] = dict(time_us=f.get('time-micros'), rlimit=f.get('rlimit'), success=f.get('success'))
    out['per_function'] = per_fn
    return out
