"""Mechanical extraction of real tarpc functions into a single Verus file.

A *unit* (contracts/<unit>.py) lists the items to take from /repo, the rewrite rules that
may touch their text, and the contract to splice onto each function.  Everything this
module does to the source text is logged in the provenance record, so that "what the
extraction dropped" is measured on every run.

Nothing here hand-writes a look-alike: function bodies are the text found in /repo at the
time of the run, modified only by the logged rule applications.
"""
import hashlib
import json
import os
import re
from dataclasses import dataclass, field
from typing import List, Optional, Tuple

from . import rustlex as rl

REPO = os.environ.get('VERIF_REPO', '/repo')
VERIF = os.path.dirname(os.path.dirname(os.path.abspath(__file__)))


class ExtractError(Exception):
    """Extraction could not be performed faithfully => the check is UNDECIDED (exit 2)."""


# --------------------------------------------------------------------------- rules

@dataclass
class Rule:
    id: str                      # e.g. 'R3:transport_pin_mut'
    pattern: str                 # regex (re.M | re.S as given in flags)
    repl: str
    expect: object = '*'         # '*' any, '+' at least one, int exact
    flags: int = re.M
    where: str = 'both'          # 'sig' | 'body' | 'both'
    why: str = ''


def _apply_rule(rule, text, log, part):
    try:
        new, n = re.subn(rule.pattern, rule.repl, text, flags=rule.flags)
    except re.error as e:
        raise ExtractError('bad rule %s: %s' % (rule.id, e))
    if n:
        samples = [m.group(0)[:160] for m in list(re.finditer(rule.pattern, text, flags=rule.flags))[:3]]
        log.append(dict(rule=rule.id, part=part, count=n, matched=samples, replaced_by=(rule.repl[:160] if isinstance(rule.repl, str) else '<computed from the match: see the rule>'), why=rule.why))
    return new, n


def _replace_span_macros(text, log):
    """R1: span *creation* is substituted, not dropped: `info_span!(..)` -> `Span::model_new()`."""
    count = 0
    while True:
        m = rl.mask(text)
        hit = re.search(r'(?<![\w:])(?:tracing::)?info_span!\s*\(', m)
        if not hit:
            break
        cl = rl.match_bracket(m, hit.end() - 1)
        text = text[:hit.start()] + 'Span::model_new()' + text[cl + 1:]
        count += 1
    if count:
        log.append(dict(rule='R1:span-creation', part='body', count=count, matched=['info_span!(..)'], replaced_by='Span::model_new()',
                        why='A-tracing: span is an opaque carrier; its field expressions are checked separately (R12)'))
    return text


def _rewrite_unwrap_or_else(text, kinds, log):
    """R8b: `RECV.unwrap_or_else(|..| BODY)` written out as its definition
    `match RECV { Some(v)/Ok(v) => v, None/Err(_) => { BODY } }`. A closure taking no argument belongs to
    an Option, one taking `|_|`/`|e|` to a Result. Applied to every occurrence (`kinds` is kept for
    documentation of the expected occurrences only)."""
    n = 0
    while True:
        m = rl.mask(text)
        hit = re.search(r'\.unwrap_or_else\(\s*\|(?P<p>[^|]*)\|\s*', m)
        if not hit:
            break
        po = m.index('(', hit.start())
        pc = rl.match_bracket(m, po)
        cbody = text[hit.end():pc].strip().rstrip(',').strip()
        if not cbody.startswith('{'):
            cbody = '{ ' + cbody + ' }'
        kind = 'Option' if hit.group('p').strip() == '' else 'Result'
        # receiver: walk back over a method chain
        i = hit.start()
        while i > 0:
            c = m[i - 1]
            if c in ')]':
                depth, j = 0, i - 1
                while j >= 0:
                    if m[j] in ')]':
                        depth += 1
                    elif m[j] in '([':
                        depth -= 1
                        if depth == 0:
                            break
                    j -= 1
                i = j
            elif c.isalnum() or c in '_.:&':
                i -= 1
            elif c in ' \n\t' and text[:i].rstrip().endswith(')') and text[i:hit.start()].strip() == '':
                i = len(text[:i].rstrip())
            else:
                break
        recv = text[i:hit.start()].strip()
        arms = ('Some(v) => v, None =>' if kind == 'Option' else 'Ok(v) => v, Err(_) =>')
        new = 'match %s { %s %s }' % (recv, arms, cbody)
        text = text[:i] + new + text[pc + 1:]
        n += 1
        log.append(dict(rule='R8b:unwrap_or_else', part='body', count=1, matched=[recv + '.unwrap_or_else(..)'], replaced_by='match on the receiver (definition of unwrap_or_else)',
                        why='closure may capture mutable state; Verus has no spec for it'))
    return text


def _rewrite_abortable(text, spec, log):
    """R15: `Abortable::new(async move { BODY }, REG).instrument(SPAN).await` becomes the two-outcome
    model of futures::future::Abortable (A-abortable): either the registration fires (Err(Aborted),
    BODY not run to completion) or BODY -- moved unchanged into a named async fn -- runs to completion.
    Returns (text, body_text)."""
    m = rl.mask(text)
    hit = re.search(r'Abortable::new\(\s*async move \{', m)
    if not hit:
        raise ExtractError('R15: no `Abortable::new(async move {` found')
    bo = hit.end() - 1
    bc = rl.match_bracket(m, bo)
    po = m.index('(', hit.start())
    pc = rl.match_bracket(m, po)
    reg = text[bc + 1:pc].strip().strip(',').strip()
    body = text[bo:bc + 1]
    new = 'if %s.aborted() { Err(Aborted) } else { Ok(Self::%s(%s).await) }' % (reg, spec['name'], spec['call_args'])
    tail = re.match(r'\s*\.instrument\((\w+)\)\s*\.await', m[pc + 1:])
    if tail:
        end = pc + 1 + tail.end()
        text = text[:hit.start()] + new + text[end:]
    else:
        # shape 2: `let NAME = Abortable::new(..);` ... `NAME.instrument(span).await`
        ls = text.rfind('\n', 0, hit.start()) + 1
        lm = re.match(r'\s*let (\w+) = $', text[ls:hit.start()])
        semi = re.match(r'\s*;[ \t]*\n?', text[pc + 1:])
        if not lm or not semi:
            raise ExtractError('R15: expected `.instrument(span).await` after Abortable::new(..) or `let x = Abortable::new(..);`')
        name = lm.group(1)
        rest = text[pc + 1 + semi.end():]
        use = re.search(r'\b%s\s*\.instrument\((\w+)\)\s*\.await' % re.escape(name), rl.mask(rest))
        if not use or len(re.findall(r'\b%s\b' % re.escape(name), rl.mask(rest))) != 1:
            raise ExtractError('R15: the Abortable value `%s` must be used exactly once, as `%s.instrument(span).await`' % (name, name))
        rest = rest[:use.start()] + new + rest[use.end():]
        text = text[:ls] + rest
    log.append(dict(rule='R15:abortable', part='body', count=1, matched=['Abortable::new(async move {..}, %s).instrument(..).await' % reg],
                    replaced_by=new, why='A-abortable: two-outcome model (aborted | ran to completion); the async block becomes a named async fn with its body unchanged; .instrument(span) only attaches the span (A-tracing)'))
    return text, body


def _fuse_iter(text, log, sig_has_iter_ret):
    """R17 iterator fusion. Two shapes, both written out by the *definitions* of `for`, `Iterator::map`
    and `Iterator::for_each` in core:

      lazy   (tail expression of a fn returning `impl Iterator`):   RECV.drain().map(move |PAT| { STMTS; TAIL })
      eager  (a statement):                                         RECV.values().for_each(|PAT| EXPR)

    become

      let mut SRC__it = hash_map_SRC(&[mut] RECV);
      loop { match SRC__it.next() { None => break, Some(PAT) => { STMTS; let yielded__item = TAIL; } } }

    plus two ghost variables for the loop invariants (`it__all` = the items the iterator will yield, `it__n` = how
    many it has yielded; ghost code only, erased from the executable).

    For the lazy shape the function is emitted *run to exhaustion*: `for x in it.map(f) { B }` is
    `loop { match it.next() { None => break, Some(p) => { let x = f(p); B } } }`, and the emitted loop is that
    loop with B empty. That the only consumer does run it to exhaustion with an empty B is checked where the
    consumer is extracted (rule R11 only matches an empty-bodied `for` over the call)."""
    # the same chains in two other spellings, brought to the canonical one first: the iterator bound to a local that is
    # used exactly once as the receiver of the adaptor; a `for PAT in RECV.values() { BODY }` statement
    lm = re.search(r'let (\w+)(?:: [^=;]+)? = (self(?:\s*\.\s*\w+)+?\s*\.\s*(?:drain|values)\(\));\s*\1\s*\.\s*(map|for_each)\(', rl.mask(text))
    if lm and len(re.findall(r'\b%s\b' % re.escape(lm.group(1)), rl.mask(text))) == 2:
        text = text[:lm.start()] + text[lm.start(2):lm.end(2)] + '.' + lm.group(3) + '(' + text[lm.end():]
        log.append(dict(rule='R17:inline-iterator-binding', part='body', count=1, matched=[lm.group(1)], replaced_by='(receiver written in place)', why='a local used once as the receiver of the adaptor'))
    fm = re.search(r'for (?P<pat>[^{};]+?) in (?P<recv>self(?:\s*\.\s*\w+)+?\s*\.\s*(?:drain|values)\(\))\s*\{', rl.mask(text))
    if fm:
        mt = rl.mask(text)
        bo = fm.end() - 1
        bc = rl.match_bracket(mt, bo)
        if re.search(r'\b(return|break|continue)\b', mt[bo:bc]):
            raise ExtractError('R17: the `for` body has a control transfer')
        text = text[:fm.start()] + text[fm.start('recv'):fm.end('recv')] + '.for_each(|' + text[fm.start('pat'):fm.end('pat')].strip() + '| ' + text[bo:bc + 1] + ')' + text[bc + 1:]
        log.append(dict(rule='R17:for-as-for_each', part='body', count=1, matched=['for .. in ..values()/drain()'], replaced_by='.for_each(|..| {..})', why='definition of Iterator::for_each (a `for` body without break/continue/return)'))
    m = rl.mask(text)
    hit = re.search(r'(?P<recv>self(?:\s*\.\s*\w+)+?)\s*\.\s*(?P<src>drain|values)\(\)\s*\.\s*(?P<ad>map|for_each)\(\s*(?P<mv>move\s+)?\|', m)
    if not hit:
        raise ExtractError('R17: no `RECV.drain().map(|..| ..)` / `RECV.values().for_each(|..| ..)` found (source shape changed)')
    if re.search(r'\.\s*(drain|values)\(\)', m[hit.end():]):
        raise ExtractError('R17: more than one iterator chain')
    src, ad = hit.group('src'), hit.group('ad')
    if (src, ad) not in (('drain', 'map'), ('values', 'for_each')):
        raise ExtractError('R17: unsupported chain .%s().%s(..)' % (src, ad))
    call_open = m.rindex('(', hit.start('ad'), hit.end())
    call_close = rl.match_bracket(m, call_open)
    bar2 = m.index('|', hit.end())
    pat = text[hit.end():bar2].strip()
    cl = text[bar2 + 1:call_close].strip()
    mcl = rl.mask(cl)
    if mcl.startswith('{'):
        if rl.match_bracket(mcl, 0) != len(mcl) - 1:
            raise ExtractError('R17: closure body is not a single block')
        inner, minner = cl[1:-1], mcl[1:-1]
    else:
        inner, minner = cl, mcl
    if re.search(r'\b(return|break|continue)\b', minner):
        raise ExtractError('R17: closure body has a control transfer')
    # split STMTS; TAIL after the last statement end of nesting depth 0: a `;`, or a `}` that closes a block
    # statement (followed by a line break and something that cannot continue the expression)
    depth, last = 0, -1
    for i, ch in enumerate(minner):
        if ch in '([{':
            depth += 1
        elif ch in ')]}':
            depth -= 1
            if ch == '}' and depth == 0:
                nxt = re.match(r'[ \t]*\n\s*(\S+)', minner[i + 1:])
                if nxt and not re.match(r'(\.|\?|else\b|as\b|[-+*/%&|^=<>])', nxt.group(1)):
                    last = i
        elif ch == ';' and depth == 0:
            last = i
    stmts, tail = inner[:last + 1].strip(), inner[last + 1:].strip()
    recv = re.sub(r'\s+', '', text[hit.start('recv'):hit.end('recv')])
    rest = text[call_close + 1:]
    lazy = ad == 'map'
    if lazy:
        if not sig_has_iter_ret or rest.strip() != '}':
            raise ExtractError('R17: the lazy chain is not the tail expression of a fn returning impl Iterator')
    else:
        if not re.match(r'\s*;?\s*\}\s*$', rest):
            raise ExtractError('R17: statements after the eager chain')
    line_start = text.rfind('\n', 0, hit.start()) + 1
    ind = re.match(r'[ \t]*', text[line_start:]).group(0)
    it = src + '__it'
    lines = ['let mut %s = hash_map_%s(&%s%s);' % (it, src, 'mut ' if src == 'drain' else '', recv),
             'let ghost it__all = %s@;   // ghost: the items the iteration will yield' % it,
             'let ghost mut it__n: int = 0;   // ghost: how many were yielded so far',
             'loop {',
             '    match %s.next() {' % it,
             '        None => break,',
             '        Some(%s) => {' % pat]
    for l in stmts.split('\n'):
        if l.strip():
            lines.append('            ' + l.strip())
    if tail:
        lines.append('            ' + ('let yielded__item = %s;' % tail if lazy else tail + ';'))
    lines += ['            proof { it__n = it__n + 1; }', '        }', '    }', '}']
    new = text[:line_start] + '\n'.join(ind + l for l in lines) + '\n' + ind[:-4] + '}'
    log.append(dict(rule='R17:iter-fusion', part='body', count=1, matched=[' '.join(text[hit.start():call_close + 1].split())[:200]],
                    replaced_by='let mut %s = hash_map_%s(..); loop { match %s.next() { None => break, Some(%s) => { .. } } }' % (it, src, it, pat),
                    why=('definition of `for` over `Iterator::map`: the returned lazy iterator is emitted run to exhaustion (its only consumer is an empty-bodied `for`, checked by R11)'
                         if lazy else 'definition of `Iterator::for_each`') + '; hash_map_%s is the prelude model of HashMap::%s (A-hashmap-iter)' % (src, src)))
    return new


def _expand_ready(text, log):
    """R13: `ready!(E)` (futures::ready) written out as its definition, so that ghost arguments
    inside E are seen by the Verus syntax macro."""
    count = 0
    pos = 0
    while True:
        m = rl.mask(text)
        hit = re.compile(r'(?<![\w:!])ready!\(').search(m, pos)
        if not hit:
            break
        cl = rl.match_bracket(m, hit.end() - 1)
        inner = text[hit.end():cl]
        new = '(match ' + inner + ' { Poll::Ready(ready__t) => ready__t, Poll::Pending => return Poll::Pending })'
        text = text[:hit.start()] + new + text[cl + 1:]
        pos = hit.start() + 7
        count += 1
    if count:
        log.append(dict(rule='R13:ready-expansion', part='body', count=count, matched=['ready!(E)'],
                        replaced_by='(match E { Poll::Ready(t) => t, Poll::Pending => return Poll::Pending })', why='definition of futures::ready!'))
    return text


def _drop_macro_calls(text, log):
    """R1: remove tracing macro invocations (statement or expression position)."""
    text = _replace_span_macros(text, log)
    names = r'(?:tracing::)?(?:trace|debug|info|warn|error)!'
    count, samples = 0, []
    while True:
        m = rl.mask(text)
        hit = re.search(r'(?<![\w:])' + names + r'\s*\(', m)
        if not hit:
            break
        op = hit.end() - 1
        cl = rl.match_bracket(m, op)
        end = cl + 1
        samples.append(' '.join(text[hit.start():end].split())[:120])
        count += 1
        if text[end:end + 1] == ';':
            # statement: remove it, and the whole line if it stands alone
            ls = text.rfind('\n', 0, hit.start()) + 1
            le = text.find('\n', end)
            if text[ls:hit.start()].strip() == '' and text[end + 1:le].strip() == '':
                text = text[:ls] + text[le + 1:]
            else:
                text = text[:hit.start()] + text[end + 1:]
        else:
            text = text[:hit.start()] + '()' + text[end:]
    if count:
        log.append(dict(rule='R1:tracing-macro', part='body', count=count, matched=samples[:6],
                        replaced_by='(removed; `()` in expression position)',
                        why='A-tracing: events only read state and write to the subscriber'))
    return text


GLOBAL_BODY_RULES = [
    Rule('R1:span-enter', r'^[ \t]*let _?entered = [\w\.]+\.enter\(\);\n', '', why='A-tracing: span guard'),
    Rule('R1:drop-entered', r'^[ \t]*drop\(_?entered\);\n', '', why='A-tracing: span guard'),
    # R19: type annotations on `let` bindings. They cannot change what the code does (inference either agrees or the text no
    # longer type-checks => undecided); they often name type parameters the extraction erases. A `Default::default()` whose
    # type is only known from the annotation is written as the constructor it denotes first.
    Rule('R19:let-default-map', r'\blet (mut )?(\w+): (?:Fnv)?HashMap<[^=;]*> = (?:Default|FnvHashMap|HashMap)::default\(\);', r'let \1\2 = HashMap::new();',
         why='`Default` of (Fnv)HashMap is the empty map (A-hashmap)'),
    Rule('R19:let-default-delayqueue', r'\blet (mut )?(\w+): DelayQueue<[^=;]*> = (?:Default|DelayQueue)::default\(\);', r'let \1\2 = DelayQueue::new();',
         why='`Default` of DelayQueue is `DelayQueue::new()` (tokio-util)'),
    Rule('R19:let-annotation', r'\blet (mut )?(\w+): (?![^=;]*\bdyn\b)[^=;{}]+? = ', r'let \1\2 = ', why='type annotation of a local (inferred)'),
]

GLOBAL_SIG_RULES = [
    Rule('R2:pin-self', r"(?:mut )?self: (?:&(?:'a )?mut )?Pin<&mut Self>", '&mut self', where='sig', why='A-pin'),
    Rule('R2:lifetime-a', r"<'a>", '', where='sig', why="lifetime parameter only used by the pinned self"),
    Rule('R5:task-cx', r"&mut Context(?:<'_>)?", '&mut TaskCx', where='sig', why='task context is opaque (only forwarded to poll fns)'),
]


# --------------------------------------------------------------------------- unit DSL

@dataclass
class Raw:
    text: str
    label: str = 'contract-vocabulary'


@dataclass
class TypeItem:
    src: str
    kind: str                   # 'struct' | 'enum'
    name: str
    rules: List[Rule] = field(default_factory=list)
    attrs: str = ''
    drop_fields: List[str] = field(default_factory=list)
    known_fields: Optional[List[str]] = None   # frame guard: the state the contracts of this type talk about; any other field => undecided


@dataclass
class Lift:
    """R8 lambda lifting: `RECV.<adaptor>(|ARG| { BODY })` where the closure captures `&mut self`
    becomes `match RECV {..}` calling a named function whose body is BODY unchanged except
    for the declared renames of captured paths."""
    anchor: str                 # regex matching `.map(|arg| {` ; group 'arg' names the closure parameter
    name: str                   # name of the lifted function
    params: str                 # parameter list of the lifted function
    ret: str                    # its return type
    call_args: str              # arguments at the call site (captured paths)
    renames: List[Tuple[str, str]] = field(default_factory=list)
    adaptor: str = 'poll_map'   # how the call is re-expressed: 'poll_map' | 'poll_map_ok_opt'
    call_self: bool = False     # call as self.NAME(..) instead of Self::NAME(..)
    requires: str = ''
    ensures: str = ''
    fx: bool = False
    generics: str = ''
    tags: str = 'core'
    pre: str = ''
    ret_name: str = 'r'


@dataclass
class Fn:
    src: str
    impl: Optional[str]         # regex for the impl header, None for a free fn
    name: str
    requires: str = ''
    ensures: str = ''
    attrs: str = ''
    ret: str = 'r'
    loops: List[str] = field(default_factory=list)
    hints: List[Tuple[str, str]] = field(default_factory=list)
    rules: List[Rule] = field(default_factory=list)
    pre: str = ''               # first statements of the body (broadcast use ...)
    post: str = ''              # proof block placed before the closing brace of a body that ends without a value
    fx: bool = False            # R6: gets the ghost effect-log parameter
    tags: str = 'core'          # default tags for body-safety obligations (panic freedom, callee preconditions)
    emit_name: Optional[str] = None
    canary: bool = True
    sig_override: Optional[str] = None   # only generics/where rewrite; must be logged
    extra_params: str = ''
    lifts: List[Lift] = field(default_factory=list)
    hoist: List[Tuple[str, str]] = field(default_factory=list)   # R4: (kind, name) of items declared inside the body
    loops_optional: bool = False   # the invariants are used only if the body (still) has loops
    hoist_contracts: Optional[dict] = None   # contracts for fns of hoisted impls: name -> 'ensures ...' text
    inherited_ensures: str = ''   # ensures clauses inherited from the trait declaration (counted as obligations of this fn)
    unwrap_or_else: List[str] = field(default_factory=list)   # R8b: 'Option'/'Result' per occurrence
    abortable: Optional[dict] = None   # R15: dict(name, params, call_args, ret, requires, ensures, fx, tags)
    fuse_iter: bool = False   # R17: `RECV.drain().map(..)` / `RECV.values().for_each(..)` written out as the loop it denotes
    drops_at_end: List[str] = field(default_factory=list)   # R14: locals with a contracted Drop, dropped explicitly at the end of the body


@dataclass
class Impl:
    header: str                 # emitted header, e.g. 'impl<Res> InFlightRequests<Res>'
    parts: list = field(default_factory=list)
    fx_type: Optional[str] = None
    qual: Optional[str] = None          # prefix for function names in reports, e.g. 'MaxRequests'
    trait_impl: bool = False            # methods inherit `requires` from the trait declaration
    canary_header: Optional[str] = None  # inherent impl block that receives the vacuity canaries


@dataclass
class Unit:
    name: str
    prelude: List[str]
    parts: list
    rules: List[Rule] = field(default_factory=list)
    fx_fns: List[str] = field(default_factory=list)      # regexes (ending in '\\(') of calls to contracted fns that take Tracked(fx)
    fx_prims: List[str] = field(default_factory=list)    # regexes of primitive calls `.send(` that take Tracked(fx)
    lemmas: List[str] = field(default_factory=list)
    fx_type: str = 'Fx'
    header: str = ''
    crate_attrs: str = ''   # inner attributes (#![feature(..)]) the unit needs
    accessor_guards: list = field(default_factory=list)   # (src, impl_re, fn, body_regex): R3 soundness guard


HEADER = '''// GENERATED on every run by /verif/vx/extract.py from the current /repo working tree.
// Function bodies below are the text found in /repo, changed only by the rule
// applications listed in the provenance file next to this one.  Do not edit.
#![allow(unused_imports, unused_variables, dead_code, unused_mut, unreachable_code, unused_braces, unused_parens)]
use vstd::prelude::*;
use std::task::Poll;
use std::sync::Arc;
use std::ops::ControlFlow;
use std::convert::Infallible;
use std::collections::HashMap;
use std::collections::hash_map;

macro_rules! ready {
    ($e:expr $(,)?) => {
        match $e {
            Poll::Ready(t) => t,
            Poll::Pending => return Poll::Pending,
        }
    };
}

verus! {
'''

FOOTER = '''
} // verus!
fn main() {}
'''


def _read(path):
    with open(path) as f:
        return f.read()


def _sha(s):
    return hashlib.sha256(s.encode()).hexdigest()


def _add_call_arg(text, call_re, arg, log, rid):
    """Append `arg` to the argument list of every call matching call_re (regex ending in '\\(')."""
    count = 0
    pos = 0
    while True:
        m = rl.mask(text)
        hit = re.compile(call_re).search(m, pos)
        if not hit:
            break
        op = hit.end() - 1
        cl = rl.match_bracket(m, op)
        inner = text[op + 1:cl]
        if inner.strip() == '':
            new_inner = arg
        elif inner.rstrip().endswith(','):
            # multi-line argument list with trailing comma
            indent = re.search(r'\n([ \t]*)\S[^\n]*\n?[ \t]*$', inner)
            ind = indent.group(1) if indent else ' '
            new_inner = inner.rstrip() + '\n' + ind + arg + ',' + inner[len(inner.rstrip()):]
        else:
            new_inner = inner + ', ' + arg
        text = text[:op + 1] + new_inner + text[cl:]
        pos = op + 1 + len(new_inner)
        count += 1
    if count:
        log.append(dict(rule=rid, part='body', count=count, matched=[call_re], replaced_by='+ ' + arg,
                        why='R6: ghost effect log threaded to the callee (erased at compile time)'))
    return text, count


def _do_lift(body, lift, log, fname):
    m = rl.mask(body)
    hits = list(re.finditer(lift.anchor, m))
    if len(hits) != 1:
        raise ExtractError('%s: R8 anchor /%s/ matched %d times' % (fname, lift.anchor, len(hits)))
    hit = hits[0]
    arg = hit.group('arg')
    bo = hit.end() - 1
    if m[bo] != '{':
        raise ExtractError('%s: R8 anchor must end at the closure body brace' % fname)
    bc = rl.match_bracket(m, bo)
    po = m.find('(', hit.start())
    pc = rl.match_bracket(m, po)
    if m[bc + 1:pc].strip() not in ('', ','):
        raise ExtractError('%s: R8 closure is not the only argument' % fname)
    closure_body = body[bo:bc + 1]
    # receiver: start of the method chain (rustfmt: continuation lines start with '.')
    ls = body.rfind('\n', 0, hit.start()) + 1
    while body[ls:].lstrip().startswith('.'):
        ls = body.rfind('\n', 0, ls - 1) + 1
    rs = ls + (len(body[ls:]) - len(body[ls:].lstrip()))
    # the chain may follow `return ` / `let x = `
    lead = re.match(r'(return |let \w+ = )', body[rs:])
    if lead:
        rs += lead.end()
    recv = body[rs:hit.start()]
    call = '%s(%s)' % (lift.name if '::' in lift.name or '.' in lift.name else 'Self::' + lift.name, lift.call_args)
    if lift.call_self:
        call = 'self.%s(%s)' % (lift.name, lift.call_args)
    if lift.adaptor == 'poll_map':
        new = ('match %s {\n            Poll::Ready(%s) => {\n                let lifted__r = %s;\n                Poll::Ready(lifted__r)\n            }\n            Poll::Pending => Poll::Pending,\n        }' % (recv.strip(), arg, call))
    elif lift.adaptor == 'poll_map_ok_opt':
        new = ('match %s {\n            Poll::Ready(Some(Ok(%s))) => {\n                let lifted__r = %s;\n                Poll::Ready(Some(Ok(lifted__r)))\n            }\n            Poll::Ready(Some(Err(e))) => Poll::Ready(Some(Err(e))),\n            Poll::Ready(None) => Poll::Ready(None),\n            Poll::Pending => Poll::Pending,\n        }' % (recv.strip(), arg, call))
    else:
        raise ExtractError('unknown adaptor ' + lift.adaptor)
    log.append(dict(rule='R8:lambda-lift', part='body', count=1, matched=[' '.join(body[hit.start():hit.end()].split())],
                    replaced_by='match on the receiver + call of %s (closure body moved there unchanged; Poll::%s written out as its definition)' % (lift.name, 'map' if lift.adaptor == 'poll_map' else 'map_ok'),
                    why='Verus does not support closures capturing &mut'))
    body = body[:rs] + new + body[pc + 1:]
    for a, b in lift.renames:
        # a captured path may be split over lines by rustfmt (`self\n    .request_data`): match it up to whitespace
        rx = r'\s*'.join(re.escape(tok) for tok in re.split(r'(\.)', a) if tok)
        closure_body, n = re.subn(r'(?<![\w.])' + rx + r'\b', b, closure_body)
        log.append(dict(rule='R8:captured-path', part='lifted', count=n, matched=[a], replaced_by=b, why='captured path becomes a parameter'))
    return body, closure_body


TAG_RE = re.compile(r'//\s*@([\w,:\-]+)\s*$')


class Generated:
    def __init__(self):
        self.lines = []

    def add(self, text):
        start = len(self.lines) + 1
        t = text.rstrip('\n').split('\n')
        self.lines.extend(t)
        return start, len(self.lines)

    def text(self):
        return '\n'.join(self.lines) + '\n'


def _insert_loop_invariants(body, invs, fname, optional=False):
    """Insert invariant text before the '{' of the i-th loop (`loop`/`while`/`for`) of body."""
    if optional and not re.search(r'(?<![\w])(loop|while|for)\b', rl.mask(body)):
        return body
    if not invs and not re.search(r'(?<![\w])(loop|while|for)\b', rl.mask(body)):
        return body
    out = body
    offset = 0
    m = rl.mask(body)
    loops = []
    for hit in re.finditer(r'(?<![\w])(loop|while|for)\b', m):
        bo = rl.find_block_open(m, hit.end())
        if bo < 0:
            continue
        loops.append((hit.start(), bo))
    if len(loops) != len(invs):
        # The body's loop structure differs from the one the contract was written for (a loop was added,
        # removed, or turned into a conditional). No invariant is guessed: the loops are emitted without
        # one, so that whatever the function's contract still demands must be provable without help.
        return body
    for (ls, bo), inv in zip(loops, invs):
        if inv is None:
            continue
        line_start = body.rfind('\n', 0, ls) + 1
        indent = re.match(r'[ \t]*', body[line_start:]).group(0)
        inv_text = '\n' + '\n'.join(indent + '    ' + l.strip() if l.strip() else '' for l in inv.strip('\n').split('\n')) + '\n' + indent
        p = bo + offset
        # strip the single space before '{'
        q = p
        while out[q - 1] == ' ':
            q -= 1
        out = out[:q] + inv_text + out[p:]
        offset += len(inv_text) - (p - q)
    return out


def _insert_hints(body, hints, fname, log):
    """hints: (anchor, proof_text) inserted after the line containing anchor, or
    (anchor, proof_text, 'before') inserted before that line."""
    lost = []
    for h in hints:
        anchor, proof = h[0], h[1]
        where = h[2] if len(h) > 2 else 'after'
        idx = body.find(anchor)
        if idx < 0 or body.find(anchor, idx + 1) >= 0:
            lost.append(anchor)
            log.append(dict(rule='R10b:hint-lost', part='body', count=0, matched=[anchor], replaced_by='', why='anchor statement not found uniquely'))
            continue
        le = body.find('\n', idx + len(anchor))
        line_start = body.rfind('\n', 0, idx) + 1
        indent = re.match(r'[ \t]*', body[line_start:]).group(0)
        block = '\n'.join(indent + l.strip() if l.strip() else '' for l in proof.strip('\n').split('\n'))
        if where == 'before':
            body = body[:line_start] + block + '\n' + body[line_start:]
        else:
            body = body[:le + 1] + block + '\n' + body[le + 1:]
    return body, lost


def _clauses(text):
    """Count tagged clauses in a contract text (lines ending with // @tags)."""
    return [m.group(1) for l in text.split('\n') for m in [TAG_RE.search(l)] if m]


def build_unit(unit: Unit, outdir, repo=None):
    repo = repo or REPO
    os.makedirs(outdir, exist_ok=True)
    gen = Generated()
    prov = dict(unit=unit.name, repo=repo, items=[], prelude=[], lemmas=[], rules_global=[])
    fn_table = []     # dicts: name, emit_name, impl, lines (gen), src, src_lines, tags, n_ensures, ...
    src_cache = {}
    hints_lost = []

    def src(path):
        if path not in src_cache:
            full = os.path.join(repo, path)
            if not os.path.exists(full):
                raise ExtractError('source file missing: %s' % path)
            t = _read(full)
            try:
                src_cache[path] = (t, rl.mask(t))
            except rl.LexError as e:
                raise ExtractError('%s: %s' % (path, e))
        return src_cache[path]

    gen.add(HEADER.replace('use vstd::prelude::*;', unit.crate_attrs + 'use vstd::prelude::*;', 1) + unit.header)
    for p in unit.prelude:
        full = os.path.join(VERIF, 'prelude', p)
        t = _read(full)
        a, b = gen.add('// ======== trusted prelude: %s ========\n' % p + t)
        prov['prelude'].append(dict(file='prelude/' + p, sha256=_sha(t), gen_lines=[a, b]))

    def emit_type(item: TypeItem, indent=''):
        text, masked = src(item.src)
        try:
            s, e = rl.find_type_item(text, masked, item.kind, item.name)
        except rl.LexError as ex:
            raise ExtractError('%s: %s' % (item.src, ex))
        orig = text[s:e]
        log = []
        t = orig
        # drop doc comments / attributes on fields
        t2 = re.sub(r'(?m)^[ \t]*(///|//)[^\n]*\n', '', t)
        while True:
            mt = rl.mask(t2)
            am = re.search(r'(?m)^[ \t]*#\[', mt)
            if not am:
                break
            ae = rl.match_bracket(mt, mt.index('[', am.start()))
            le2 = t2.find('\n', ae)
            t2 = t2[:am.start()] + t2[le2 + 1:]
        t2 = re.sub(r'#\[(?:source|from|pin)\] ?', '', t2)
        if t2 != t:
            log.append(dict(rule='R5:field-docs-attrs', part='type', count=1, matched=['doc comments / #[pin] attributes'], replaced_by='', why='A-pin; comments'))
        t = t2
        for f in item.drop_fields:
            t, n = re.subn(r'(?m)^[ \t]*(?:pub(?:\([a-z]+\))? )?%s:[^\n]*\n' % re.escape(f), '', t)
            if n != 1:
                raise ExtractError('%s %s: field %s to drop matched %d times' % (item.kind, item.name, f, n))
            log.append(dict(rule='R5:drop-field', part='type', count=1, matched=[f], replaced_by='', why='field not used by any extracted function'))
        for r in list(unit.rules) + list(item.rules):
            if r.where == 'body':
                continue
            t, n = _apply_rule(r, t, log, 'type')
            if isinstance(r.expect, int) and r in item.rules and n != r.expect:
                raise ExtractError('%s %s: rule %s fired %d times, expected %s' % (item.kind, item.name, r.id, n, r.expect))
        if item.known_fields is not None:
            have = re.findall(r'(?m)^[ \t]*(?:pub(?:\([a-z]+\))? )?(\w+)\s*:', rl.mask(t))
            extra = [f for f in have if f not in item.known_fields]
            if extra:
                raise ExtractError('%s %s has state the contracts do not talk about (field %s): what the functions do to it cannot be judged against them' % (item.kind, item.name, ', '.join(extra)))
        # widen visibility so spec functions may mention the fields
        if item.kind == 'struct':
            t = re.sub(r'(?m)^([ \t]+)(?!pub\b)(\w+: )', r'\1pub \2', t)
            mt = re.match(r'((?:pub(?:\([a-z]+\))? )?struct \w+(?:<[^>]*>)?)\(([^()]*)\);\s*$', t.strip())
            if mt:   # tuple struct: widen each field
                fields = [x.strip() for x in mt.group(2).split(',') if x.strip()]
                t = mt.group(1) + '(' + ', '.join(x if x.startswith('pub') else 'pub ' + x for x in fields) + ');'
        t = re.sub(r'^(?!pub\b)', 'pub ', t)
        a, b = gen.add((item.attrs + '\n' if item.attrs else '') + t)
        prov['items'].append(dict(kind=item.kind, name=item.name, src=item.src,
                                  src_lines=[rl.line_of(text, s), rl.line_of(text, e)], sha256=_sha(orig),
                                  gen_lines=[a, b], rule_applications=log))

    def check_expect(r, n, fname):
        if (isinstance(r.expect, int) and n != r.expect) or (r.expect == '+' and n == 0):
            raise ExtractError('%s: rule %s fired %d times, expected %s (source shape changed)' % (fname, r.id, n, r.expect))

    def process_body(body, f, log, part='body'):
        body = _drop_macro_calls(body, log)
        counts = {}
        for r in GLOBAL_BODY_RULES + [x for x in unit.rules if x.where != 'sig'] + [x for x in f.rules if x.where != 'sig']:
            body, n = _apply_rule(r, body, log, part)
            counts[id(r)] = n
        for prim in unit.fx_fns + unit.fx_prims:
            body, _ = _add_call_arg(body, prim, 'Tracked(fx)', log, 'R6:fx-prim')
        body = _expand_ready(body, log)
        return body, counts

    def reindent(t, delta):
        if delta == 0:
            return t
        lines = t.split('\n')
        res = [lines[0]]
        for l in lines[1:]:
            if delta > 0:
                res.append(' ' * delta + l if l.strip() else l)
            else:
                res.append(l[-delta:] if l[:-delta].strip() == '' else l)
        return '\n'.join(res)

    def render(head, ret, ret_name, where, requires, ensures, body):
        s = '    ' + head
        if ret is not None:
            s += ' -> (%s: %s)' % (ret_name, ret)
        if where:
            s += '\n    ' + where
        s += '\n'
        if requires.strip():
            s += '        requires\n' + _indent(requires, 12)
        if ensures.strip():
            s += '        ensures\n' + _indent(ensures, 12)
        s += '    ' + body + '\n'
        return s

    def add_pre(body, pre):
        if not pre:
            return body
        nl = body.find('\n')
        return body[:nl + 1] + '        ' + pre.strip() + '\n' + body[nl + 1:]

    def emit_fn(f: Fn, impl_header, fx_type=None, trait_impl=False, qual=None):
        fx_type = fx_type or unit.fx_type
        qname = (qual + '::' if qual else '') + f.name
        text, masked = src(f.src)
        try:
            if f.impl:
                _, ibo, ibc = rl.find_impl(text, masked, f.impl)
                loc = rl.find_fn(text, masked, f.name, ibo, ibc)
            else:
                loc = rl.find_fn(text, masked, f.name, indent=0)
        except rl.LexError as ex:
            raise ExtractError('%s: anchor lost: %s' % (f.src, ex))
        sig = text[loc['sig_start']:loc['body_open']].rstrip()
        body = text[loc['body_open']:loc['body_close'] + 1]
        attrs_orig = text[loc['attr_start']:loc['sig_start']]
        orig = text[loc['attr_start']:loc['body_close'] + 1]
        delta = 4 - loc['indent']
        body, sig = reindent(body, delta), reindent(sig, delta)
        log = []
        if attrs_orig.strip():
            log.append(dict(rule='R0:attrs-docs', part='sig', count=1, matched=[' '.join(attrs_orig.split())[:200]], replaced_by='', why='doc comments and attributes are not copied'))
        # ---- R4 hoist items nested in the body
        hoist_found = set()
        for kind, name in f.hoist:
            mb = rl.mask(body)
            hm = list(re.finditer(r'(?m)^[ \t]*(?:#\[derive\([^)]*\)\]\n[ \t]*)?%s %s\b' % (kind, re.escape(name)), mb))
            if len(hm) != 1:
                raise ExtractError('%s: nested %s %s matched %d times' % (f.name, kind, name, len(hm)))
            bo_ = rl.find_block_open(mb, hm[0].end())
            bc_ = rl.match_bracket(mb, bo_)
            item_text = body[hm[0].start():bc_ + 1]
            le_ = body.find('\n', bc_)
            body = body[:hm[0].start()] + body[le_ + 1:]
            htext = '\n'.join(l[4:] if l.startswith('    ') else l for l in reindent(item_text, 0).split('\n'))
            if kind != 'impl':
                htext = htext.replace(kind + ' ' + name, 'pub ' + kind + ' ' + name, 1)
            htext = _drop_macro_calls(htext, log)
            for r in [x for x in unit.rules if x.where != 'sig'] + ([x for x in f.rules if x.where != 'sig'] if kind == 'impl' else []):
                htext, _ = _apply_rule(r, htext, log, 'hoisted')
            for hk, hv in (f.hoist_contracts or {}).items():
                hm2 = re.search(r'(fn %s\([^)]*\)) -> (\w+) \{' % re.escape(hk), htext)
                if not hm2:
                    continue
                hoist_found.add(hk)
                htext = htext[:hm2.start()] + hm2.group(1) + ' -> (r: ' + hm2.group(2) + ')\n' + hv + '\n    {' + htext[hm2.end():]
            hoisted.append(htext)
            log.append(dict(rule='R4:hoist', part='body', count=1, matched=[kind + ' ' + name], replaced_by='(moved to module level)', why='Verus does not support items declared inside a function body'))
        for hk in (f.hoist_contracts or {}):
            if hk not in hoist_found:
                raise ExtractError('%s: hoisted fn %s not found' % (f.name, hk))
        # ---- R8 lambda lifting (before other rules, so both halves get the same treatment)
        lifted = []
        for lift in f.lifts:
            try:
                body, cbody = _do_lift(body, lift, log, f.name)
            except rl.LexError as ex:
                raise ExtractError('%s: %s' % (f.name, ex))
            lifted.append((lift, cbody))
        # ---- R15 / R14
        abort_body = None
        if f.abortable:
            body = _drop_macro_calls(body, log)
            try:
                body, abort_body = _rewrite_abortable(body, f.abortable, log)
            except rl.LexError as ex:
                raise ExtractError('%s: %s' % (f.name, ex))
        for local in f.drops_at_end:
            has_value = bool(re.search(r'\)\s*->', sig))
            if has_value:
                if re.search(r'\breturn\b', rl.mask(body)):
                    raise ExtractError('%s: R14 cannot place the drop of %s: the body has early returns' % (f.name, local))
                body = '{\n        let r__tail = ' + body + ';\n        %s.drop(Tracked(fx));\n        r__tail\n    }' % local
            else:
                k = body.rstrip().rfind('}')
                body = body[:k] + '    %s.drop(Tracked(fx));\n    ' % local + body[k:]
            log.append(dict(rule='R14:explicit-drop', part='body', count=1, matched=[local], replaced_by='%s.drop(..) at the end of the body' % local,
                            why='Rust drops the local there; Verus does not model implicit Drop calls'))
        # ---- R17
        if f.fuse_iter:
            body = _drop_macro_calls(body, log)
            try:
                body = _fuse_iter(body, log, bool(re.search(r'->\s*impl\s+Iterator\b', sig)))
            except rl.LexError as ex:
                raise ExtractError('%s: %s' % (f.name, ex))
        # ---- body
        if '.unwrap_or_else(' in body:
            body = _drop_macro_calls(body, log)
            try:
                body = _rewrite_unwrap_or_else(body, f.unwrap_or_else, log)
            except rl.LexError as ex:
                raise ExtractError('%s: %s' % (f.name, ex))
        body, counts = process_body(body, f, log)
        # ---- R20: module-level constants of the same file that the body mentions and nothing in the unit defines
        for cname in sorted(set(re.findall(r'(?<![\w:.])([A-Z][A-Z0-9_]{2,})\b(?!\s*[:(!{])', rl.mask(body)))):
            if cname in consts_done or re.search(r'\bconst %s\b' % cname, gen.text()) or any(re.search(r'\bconst %s\b' % cname, _read(os.path.join(VERIF, 'prelude', pf))) for pf in unit.prelude):
                continue
            cm = re.search(r'(?m)^[ \t]*(?:pub(?:\([a-z]+\))? )?const %s: ([\w:<>]+) = ([^;{}]+);' % cname, text)
            if not cm:
                continue
            consts_done.add(cname)
            hoisted.append('pub const %s: %s = %s;' % (cname, cm.group(1), ' '.join(cm.group(2).split())))
            log.append(dict(rule='R20:const', part='body', count=1, matched=[cname], replaced_by='(module-level const copied)', why='constant of the same source file referenced by the body'))
        # ---- signature
        for r in GLOBAL_SIG_RULES + [x for x in unit.rules if x.where != 'body'] + [x for x in f.rules if x.where != 'body']:
            sig, n = _apply_rule(r, sig, log, 'sig')
            counts[id(r)] = counts.get(id(r), 0) + n
        lifted2 = []
        for lift, cbody in lifted:
            cbody, c2 = process_body(cbody, f, log, 'lifted')
            for k, v in c2.items():
                counts[k] = counts.get(k, 0) + v
            lifted2.append((lift, cbody))
        abody_done = None
        if abort_body is not None:
            abody_done, c3 = process_body(abort_body, f, log, 'lifted')
            for k, v in c3.items():
                counts[k] = counts.get(k, 0) + v
        for r in f.rules:
            check_expect(r, counts.get(id(r), 0), f.name)
        try:
            head, ret, where, (po, pc) = rl.split_sig(sig)
        except rl.LexError as ex:
            raise ExtractError('%s: %s' % (f.name, ex))
        if f.fx or f.extra_params:
            extra = []
            if f.extra_params:
                extra.append(f.extra_params)
            if f.fx:
                extra.append('Tracked(fx): Tracked<&mut %s>' % fx_type)
            inner = head[po + 1:pc]
            ex = ', '.join(extra)
            if inner.strip() == '':
                inner2 = ex
            elif inner.rstrip().endswith(','):
                inner2 = inner.rstrip() + ' ' + ex + ',' + inner[len(inner.rstrip()):]
            else:
                inner2 = inner + ', ' + ex
            head = head[:po + 1] + inner2 + head[pc:]
            log.append(dict(rule='R6:fx-param', part='sig', count=1, matched=[f.name], replaced_by='+ ' + ex, why='ghost parameter'))
        ename = f.emit_name or f.name
        if f.emit_name:
            head = re.sub(r'\bfn %s\b' % re.escape(f.name), 'fn ' + f.emit_name, head, count=1)
            log.append(dict(rule='R4:rename', part='sig', count=1, matched=[f.name], replaced_by=f.emit_name, why='trait-impl method emitted as inherent method'))
        body = _insert_loop_invariants(body, f.loops, f.name, f.loops_optional)
        body, lost = _insert_hints(body, f.hints, f.name, log)
        hints_lost.extend((f.name, a) for a in lost)
        body = add_pre(body, f.pre)
        if f.post:
            k = body.rstrip().rfind('}')
            body = body[:k] + '    ' + f.post.strip() + '\n    ' + body[k:]

        attrs = f.attrs.strip()
        if 'exec_allows_no_decreases_clause' not in attrs:
            # termination is not claimed for any extracted function (it depends on the environment)
            attrs = (attrs + ' ' if attrs else '') + '#[verifier::exec_allows_no_decreases_clause]'
        pre_attr = ('    ' + attrs + '\n' if attrs else '')
        if trait_impl:
            head = re.sub(r'^pub(?:\([a-z]+\))? ', '', head)
        a, b = gen.add(pre_attr + render(head, ret, f.ret, where, '' if trait_impl else f.requires, f.ensures, body))
        entry = dict(name=qname, emit_name=ename, impl=impl_header, src=f.src,
                     src_lines=[rl.line_of(text, loc['attr_start']), rl.line_of(text, loc['body_close'])],
                     sha256=_sha(orig), gen_lines=[a, b], tags=f.tags,
                     ensures_tags=_clauses(f.ensures) + _clauses(f.inherited_ensures), requires_tags=_clauses(f.requires),
                     invariant_tags=[t for inv in f.loops if inv for t in _clauses(inv)],
                     hint_asserts=sum(h[1].count('assert') for h in f.hints),
                     rule_applications=log, canary_lines=None)
        if f.canary:
            chead = re.sub(r'\bfn %s\b' % re.escape(ename), 'fn ' + ename + '__canary', head, count=1)
            ctext = pre_attr + render(chead, ret, f.ret, where, f.requires, 'false, // @canary\n', body)
            if trait_impl:
                deferred_canaries.append((entry, ctext))
            else:
                ca, cb = gen.add(ctext)
                entry['canary_lines'] = [ca, cb]
        fn_table.append(entry)
        prov['items'].append(dict(kind='fn', **{k: entry[k] for k in ('name', 'impl', 'src', 'src_lines', 'sha256', 'gen_lines', 'rule_applications')}))
        if abort_body is not None:
            ab = f.abortable
            abody = abody_done
            ahead = 'async fn %s%s(%s%s)' % (ab['name'], ab.get('generics', ''), ab['params'], (', Tracked(fx): Tracked<&mut %s>' % fx_type) if ab.get('fx') else '')
            la, lb = gen.add(render(ahead, ab.get('ret'), 'r', '', ab.get('requires', ''), ab.get('ensures', ''), abody))
            aentry = dict(name=qname + '{async-block:' + ab['name'] + '}', emit_name=ab['name'], impl=impl_header, src=f.src,
                          src_lines=entry['src_lines'], sha256=entry['sha256'], gen_lines=[la, lb], tags=ab.get('tags', 'core'),
                          ensures_tags=_clauses(ab.get('ensures', '')), requires_tags=_clauses(ab.get('requires', '')), invariant_tags=[],
                          hint_asserts=0, rule_applications=[], canary_lines=None)
            ca, cb = gen.add(render(ahead.replace('fn ' + ab['name'], 'fn ' + ab['name'] + '__canary', 1), ab.get('ret'), 'r', '', ab.get('requires', ''), 'false, // @canary\n', abody))
            aentry['canary_lines'] = [ca, cb]
            fn_table.append(aentry)
        for lift, cbody in lifted2:
            lhead = 'fn %s%s(%s%s)' % (lift.name, lift.generics, lift.params,
                                        (', Tracked(fx): Tracked<&mut %s>' % fx_type) if lift.fx else '')
            cbody = add_pre(cbody, lift.pre)
            la, lb = gen.add(render(lhead, lift.ret, lift.ret_name, '', lift.requires, lift.ensures, cbody))
            lentry = dict(name=qname + '{closure:' + lift.name + '}', emit_name=lift.name, impl=impl_header, src=f.src,
                          src_lines=entry['src_lines'], sha256=entry['sha256'], gen_lines=[la, lb], tags=lift.tags,
                          ensures_tags=_clauses(lift.ensures), requires_tags=_clauses(lift.requires), invariant_tags=[],
                          hint_asserts=0, rule_applications=[], canary_lines=None)
            chead = lhead.replace('fn ' + lift.name, 'fn ' + lift.name + '__canary', 1)
            ca, cb = gen.add(render(chead, lift.ret, lift.ret_name, '', lift.requires, 'false, // @canary\n', cbody))
            lentry['canary_lines'] = [ca, cb]
            fn_table.append(lentry)

    hoisted = []
    consts_done = set()
    deferred_canaries = []

    def emit_parts(parts, impl_header=None, fx_type=None, trait_impl=False, qual=None):
        for p in parts:
            if isinstance(p, Raw):
                gen.add(p.text)
            elif isinstance(p, TypeItem):
                emit_type(p)
            elif isinstance(p, Fn):
                emit_fn(p, impl_header, fx_type, trait_impl, qual)
            elif isinstance(p, Impl):
                gen.add(p.header + ' {')
                emit_parts(p.parts, p.header, p.fx_type, p.trait_impl, p.qual)
                gen.add('}')
                if deferred_canaries:
                    gen.add((p.canary_header or p.header) + ' {')
                    while deferred_canaries:
                        centry, ctext = deferred_canaries.pop(0)
                        ca, cb = gen.add(ctext)
                        centry['canary_lines'] = [ca, cb]
                    gen.add('}')
                while hoisted:
                    gen.add(hoisted.pop(0))
            else:
                raise ExtractError('unknown part %r' % (p,))

    for (gsrc, gimpl, gname, grx) in unit.accessor_guards:
        gtext, gmasked = src(gsrc)
        try:
            _, ibo, ibc = rl.find_impl(gtext, gmasked, gimpl)
            gl = rl.find_fn(gtext, gmasked, gname, ibo, ibc)
        except rl.LexError as ex:
            raise ExtractError('R3 guard: accessor %s: %s' % (gname, ex))
        gbody = gtext[gl['body_open']:gl['body_close'] + 1]
        if not re.fullmatch(grx, gbody.strip()):
            raise ExtractError('R3 guard: accessor %s is no longer the bare projection: %s' % (gname, ' '.join(gbody.split())))
        prov['rules_global'].append(dict(rule='R3:guard', accessor=gname, body=' '.join(gbody.split())))
    emit_parts(unit.parts)
    for l in unit.lemmas:
        t = _read(os.path.join(VERIF, 'lemmas', l))
        a, b = gen.add('// ======== lemmas: %s ========\n' % l + t)
        prov['lemmas'].append(dict(file='lemmas/' + l, sha256=_sha(t), gen_lines=[a, b]))
    gen.add(FOOTER)
    text = gen.text()
    # ---- guards: nothing of the dropped layers may survive
    body_only = text
    for bad, why in [(r'\btracing::', 'tracing call survived'), (r'Pin<', 'Pin survived'), (r'\.project\(\)', 'project() survived'),
                     (r'\b(?:info|debug|warn|trace|error)!\(', 'log macro survived'), (r'\binfo_span!', 'span macro survived')]:
        # only check generated function regions
        for e in fn_table:
            a, b = e['gen_lines']
            region = '\n'.join(gen.lines[a - 1:b])
            if re.search(bad, rl.mask(region)):
                raise ExtractError('%s: %s after rewriting (unsupported shape)' % (e['name'], why))
    out_rs = os.path.join(outdir, unit.name + '.rs')
    with open(out_rs, 'w') as fh:
        fh.write(text)
    # tag map: gen line -> tags
    tagmap = {}
    for i, l in enumerate(gen.lines, 1):
        m = TAG_RE.search(l)
        if m:
            tagmap[i] = m.group(1)
    prov['functions'] = fn_table
    prov['tagmap'] = tagmap
    prov['hints_lost'] = hints_lost
    prov['generated'] = out_rs
    prov['generated_sha256'] = _sha(text)
    with open(os.path.join(outdir, unit.name + '.provenance.json'), 'w') as fh:
        json.dump(prov, fh, indent=1)
    return prov


def _indent(text, n):
    out = []
    for l in text.strip('\n').split('\n'):
        out.append(' ' * n + l.strip() if l.strip() else '')
    return '\n'.join(out) + '\n'


def source_files(unit: Unit):
    files = set()

    def walk(parts):
        for p in parts:
            if isinstance(p, (Fn, TypeItem)):
                files.add(p.src)
            elif isinstance(p, Impl):
                walk(p.parts)
    walk(unit.parts)
    return sorted(files)
