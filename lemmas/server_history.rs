// @lemma-for: C04,C06,C08,C11
// U7 for the server channel's table (properties C08, with C04 / C06 / C11): the history argument as checked lemmas.
//
// `sstep_start / sstep_remove / sstep_cancel / sstep_expire` are what the contracts of the real table functions say
// about (view, effect log); each of those functions carries the matching clause as a postcondition (proved from its
// real body in this same unit), so every table operation of the channel is an `sapply` step of the ghost history
// below (`lemma_ssteps_are_apply`).  `lemma_server_history` shows, by induction over *every* sequence of such steps,
//   accepted(id) = answered(id) + ended(id) + [id still tracked]           for every id,
// i.e. each accepted request ends by exactly one route; hence at most one response per accepted request (a response
// is transmitted only when `remove_request` finds the entry: contract of `BaseChannel::start_send`), none after a
// cancellation or expiry, and the aborted handles are exactly those of the requests that ended that way.
// Environment assumption: the channel is the table's only owner (Rust ownership).
/// The step relations: exactly what the contracts of the server table functions say about (view, effect log).
pub open spec fn sstep_start(v: Map<u64, SEntry>, v2: Map<u64, SEntry>, id: u64, handle: int, ok: bool) -> bool {
    &&& v.contains_key(id) ==> !ok && v2 =~= v
    &&& !v.contains_key(id) ==> ok && v2 =~= v.insert(id, SEntry { handle })
}
pub open spec fn sstep_remove(v: Map<u64, SEntry>, v2: Map<u64, SEntry>, id: u64, found: bool) -> bool {
    &&& v2 =~= v.remove(id)
    &&& found == v.contains_key(id)
}
pub open spec fn sstep_cancel(v: Map<u64, SEntry>, l: Seq<SEffect>, v2: Map<u64, SEntry>, l2: Seq<SEffect>, id: u64, found: bool) -> bool {
    &&& v2 =~= v.remove(id)
    &&& found == v.contains_key(id)
    &&& v.contains_key(id) ==> l2 == l.push(SEffect::Abort { handle: v[id].handle })
    &&& !v.contains_key(id) ==> l2 == l
}
pub open spec fn sstep_expire(v: Map<u64, SEntry>, l: Seq<SEffect>, v2: Map<u64, SEntry>, l2: Seq<SEffect>, id: u64) -> bool {
    &&& v.contains_key(id)
    &&& v2 =~= v.remove(id)
    &&& l2 == l.push(SEffect::Abort { handle: v[id].handle })
}

/// Ghost history of one server channel's table: which requests were accepted (a handler invocation is offered for
/// exactly these), which were answered (`remove_request` found the entry: the only case in which
/// `BaseChannel::start_send` transmits a response), which ended by cancellation or expiry (handler aborted).
pub struct SHist {
    pub view: Map<u64, SEntry>,
    pub log: Seq<SEffect>,
    pub accepted: Seq<u64>,
    pub answered: Seq<u64>,
    pub ended: Seq<(u64, int)>,
}
pub enum SStep {
    Start { id: u64, handle: int },
    Remove { id: u64 },
    Cancel { id: u64 },
    Expire { id: u64 },
}
pub open spec fn shist0() -> SHist {
    SHist { view: Map::empty(), log: Seq::empty(), accepted: Seq::empty(), answered: Seq::empty(), ended: Seq::empty() }
}
pub open spec fn sadmissible(h: SHist, s: SStep) -> bool {
    match s { SStep::Expire { id } => h.view.contains_key(id), _ => true }
}
pub open spec fn sapply(h: SHist, s: SStep) -> SHist {
    match s {
        SStep::Start { id, handle } =>
            if h.view.contains_key(id) { h } else { SHist { view: h.view.insert(id, SEntry { handle }), accepted: h.accepted.push(id), ..h } },
        SStep::Remove { id } =>
            if h.view.contains_key(id) { SHist { view: h.view.remove(id), answered: h.answered.push(id), ..h } } else { h },
        SStep::Cancel { id } =>
            if h.view.contains_key(id) {
                SHist { view: h.view.remove(id), log: h.log.push(SEffect::Abort { handle: h.view[id].handle }), ended: h.ended.push((id, h.view[id].handle)), ..h }
            } else { h },
        SStep::Expire { id } =>
            SHist { view: h.view.remove(id), log: h.log.push(SEffect::Abort { handle: h.view[id].handle }), ended: h.ended.push((id, h.view[id].handle)), ..h },
    }
}
/// the contracts' step relations are exactly `sapply` on (view, log)
pub proof fn lemma_ssteps_are_apply(h: SHist, s: SStep, v2: Map<u64, SEntry>, l2: Seq<SEffect>, flag: bool)
    requires
        sadmissible(h, s),
        match s {
            SStep::Start { id, handle } => sstep_start(h.view, v2, id, handle, flag) && l2 == h.log,
            SStep::Remove { id } => sstep_remove(h.view, v2, id, flag) && l2 == h.log,
            SStep::Cancel { id } => sstep_cancel(h.view, h.log, v2, l2, id, flag),
            SStep::Expire { id } => sstep_expire(h.view, h.log, v2, l2, id),
        },
    ensures sapply(h, s).view =~= v2, sapply(h, s).log == l2,
{
    match s {
        SStep::Remove { id } => { if !h.view.contains_key(id) { assert(h.view.remove(id) =~= h.view); } },
        SStep::Cancel { id } => { if !h.view.contains_key(id) { assert(h.view.remove(id) =~= h.view); } },
        _ => {},
    }
}
pub open spec fn count(s: Seq<u64>, id: u64) -> nat
    decreases s.len()
{
    if s.len() == 0 { 0 } else { count(s.drop_last(), id) + if s.last() == id { 1nat } else { 0nat } }
}
pub open spec fn count_ended(s: Seq<(u64, int)>, id: u64) -> nat
    decreases s.len()
{
    if s.len() == 0 { 0 } else { count_ended(s.drop_last(), id) + if s.last().0 == id { 1nat } else { 0nat } }
}
proof fn lemma_count_push(s: Seq<u64>, x: u64, id: u64)
    ensures count(s.push(x), id) == count(s, id) + if x == id { 1nat } else { 0nat }
{
    assert(s.push(x).drop_last() =~= s);
}
proof fn lemma_count_ended_push(s: Seq<(u64, int)>, x: (u64, int), id: u64)
    ensures count_ended(s.push(x), id) == count_ended(s, id) + if x.0 == id { 1nat } else { 0nat }
{
    assert(s.push(x).drop_last() =~= s);
}
pub open spec fn srun(steps: Seq<SStep>) -> SHist
    decreases steps.len()
{
    if steps.len() == 0 { shist0() } else { sapply(srun(steps.drop_last()), steps.last()) }
}
pub open spec fn sadmissible_all(steps: Seq<SStep>) -> bool
    decreases steps.len()
{
    if steps.len() == 0 { true } else { sadmissible_all(steps.drop_last()) && sadmissible(srun(steps.drop_last()), steps.last()) }
}
pub open spec fn sinv(h: SHist) -> bool {
    // C08 / C11: every accepted request has ended by exactly one route -- answered once, or cancelled/expired (handler
    // aborted, nothing transmitted) -- or is still tracked; so: at most one response per accepted request, none after
    // cancellation or expiry, and the tracked count is what has not ended
    &&& forall|id: u64| #[trigger] count(h.accepted, id) == count(h.answered, id) + count_ended(h.ended, id) + if h.view.contains_key(id) { 1nat } else { 0nat }
    // C04 / C06: the aborted handles are exactly the handles of the requests that ended by cancellation or expiry, in order
    &&& h.log.len() == h.ended.len()
    &&& forall|i: int| 0 <= i < h.log.len() ==> #[trigger] h.log[i] == (SEffect::Abort { handle: h.ended[i].1 })
}
pub proof fn lemma_sapply_preserves_inv(h: SHist, s: SStep)
    requires sinv(h), sadmissible(h, s)
    ensures sinv(sapply(h, s))
{
    let h2 = sapply(h, s);
    match s {
        SStep::Start { id, handle } => {
            if !h.view.contains_key(id) {
                assert forall|x: u64| #[trigger] count(h2.accepted, x) == count(h2.answered, x) + count_ended(h2.ended, x) + if h2.view.contains_key(x) { 1nat } else { 0nat } by {
                    lemma_count_push(h.accepted, id, x);
                    assert(count(h.accepted, x) == count(h.answered, x) + count_ended(h.ended, x) + if h.view.contains_key(x) { 1nat } else { 0nat });
                }
            }
        },
        SStep::Remove { id } => {
            if h.view.contains_key(id) {
                assert forall|x: u64| #[trigger] count(h2.accepted, x) == count(h2.answered, x) + count_ended(h2.ended, x) + if h2.view.contains_key(x) { 1nat } else { 0nat } by {
                    lemma_count_push(h.answered, id, x);
                    assert(count(h.accepted, x) == count(h.answered, x) + count_ended(h.ended, x) + if h.view.contains_key(x) { 1nat } else { 0nat });
                }
            }
        },
        SStep::Cancel { id } => {
            if h.view.contains_key(id) {
                assert forall|x: u64| #[trigger] count(h2.accepted, x) == count(h2.answered, x) + count_ended(h2.ended, x) + if h2.view.contains_key(x) { 1nat } else { 0nat } by {
                    lemma_count_ended_push(h.ended, (id, h.view[id].handle), x);
                    assert(count(h.accepted, x) == count(h.answered, x) + count_ended(h.ended, x) + if h.view.contains_key(x) { 1nat } else { 0nat });
                }
            }
        },
        SStep::Expire { id } => {
            assert forall|x: u64| #[trigger] count(h2.accepted, x) == count(h2.answered, x) + count_ended(h2.ended, x) + if h2.view.contains_key(x) { 1nat } else { 0nat } by {
                lemma_count_ended_push(h.ended, (id, h.view[id].handle), x);
                assert(count(h.accepted, x) == count(h.answered, x) + count_ended(h.ended, x) + if h.view.contains_key(x) { 1nat } else { 0nat });
            }
        },
    }
}
/// C08 (with C04, C06, C11) over every history of one server channel's table
pub proof fn lemma_server_history(steps: Seq<SStep>)
    requires sadmissible_all(steps)
    ensures
        sinv(srun(steps)),
        // at most one response per accepted request
        forall|id: u64| #[trigger] count(srun(steps).answered, id) <= count(srun(steps).accepted, id),
    decreases steps.len()
{
    if steps.len() > 0 {
        lemma_server_history(steps.drop_last());
        lemma_sapply_preserves_inv(srun(steps.drop_last()), steps.last());
    } else {
        assert forall|id: u64| #[trigger] count(shist0().accepted, id) == count(shist0().answered, id) + count_ended(shist0().ended, id) + if shist0().view.contains_key(id) { 1nat } else { 0nat } by {}
    }
    assert forall|id: u64| #[trigger] count(srun(steps).answered, id) <= count(srun(steps).accepted, id) by {
        let h = srun(steps);
        assert(count(h.accepted, id) == count(h.answered, id) + count_ended(h.ended, id) + if h.view.contains_key(id) { 1nat } else { 0nat });
    }
}

// ---- dropping the table (the channel went away) as history steps (C09 / C04 / C11) ----
// `Drop for InFlightRequests` is proved (from its real body, rule R17) to satisfy `aborted_all`: the log grows by exactly one
// Abort per tracked entry, on that entry's handle. The lemma below shows that, for the history, this is the sequence of
// `Expire` steps over everything still tracked: every request the channel had accepted and not yet answered ends by the
// "handler aborted" route, exactly once, and the invariant `sinv` (each accepted request ends by exactly one route; the
// aborted handles are exactly those of the requests that ended unanswered) holds for the final history, in which nothing is
// tracked any more.
pub open spec fn drop_steps(order: Seq<u64>) -> Seq<SStep> {
    Seq::new(order.len(), |i: int| SStep::Expire { id: order[i] })
}
pub open spec fn srun_from(h: SHist, steps: Seq<SStep>) -> SHist
    decreases steps.len()
{
    if steps.len() == 0 { h } else { sapply(srun_from(h, steps.drop_last()), steps.last()) }
}
pub proof fn lemma_drop_is_steps(h: SHist, l1: Seq<SEffect>, order: Seq<u64>, k: int)
    requires sinv(h), aborted_all(h.view, h.log, l1, order), 0 <= k <= order.len()
    ensures ({
        let hk = srun_from(h, drop_steps(order).take(k));
        &&& sinv(hk)
        &&& hk.log == l1.take(h.log.len() + k)
        &&& forall|id: u64| #[trigger] hk.view.contains_key(id) <==> (h.view.contains_key(id) && !order.take(k).contains(id))
        &&& forall|id: u64| #[trigger] hk.view.contains_key(id) ==> hk.view[id] == h.view[id]
    })
    decreases k
{
    let steps = drop_steps(order);
    if k == 0 {
        assert(steps.take(0).len() == 0);
        assert(l1.take(h.log.len() as int) =~= h.log);
        assert(order.take(0).len() == 0);
    } else {
        lemma_drop_is_steps(h, l1, order, k - 1);
        let pre = order.take(k - 1);
        let cur = order.take(k);
        let hp = srun_from(h, steps.take(k - 1));
        let s = steps[k - 1];
        let id = order[k - 1];
        assert(steps.take(k).drop_last() =~= steps.take(k - 1));
        assert(steps.take(k).last() == s);
        assert(srun_from(h, steps.take(k)) == sapply(hp, s));
        assert(h.view.contains_key(id));
        assert(!pre.contains(id)) by {
            if pre.contains(id) {
                let j = choose|j: int| 0 <= j < pre.len() && #[trigger] pre[j] == id;
                assert(order[j] == order[k - 1]);
            }
        }
        assert(hp.view.contains_key(id));
        assert(sadmissible(hp, s));
        lemma_sapply_preserves_inv(hp, s);
        let hk = sapply(hp, s);
        let at = h.log.len() + (k - 1);
        assert(hk.log =~= l1.take(h.log.len() + k)) by {
            assert(l1.take(h.log.len() + k) =~= l1.take(at).push(l1[at]));
        }
        assert(cur =~= pre.push(id));
        assert forall|x: u64| #[trigger] hk.view.contains_key(x) <==> (h.view.contains_key(x) && !cur.contains(x)) by {
            if x == id {
                assert(cur[k - 1] == id);
            } else if cur.contains(x) {
                let j = choose|j: int| 0 <= j < cur.len() && #[trigger] cur[j] == x;
                assert(pre[j] == x);
            } else if pre.contains(x) {
                let j = choose|j: int| 0 <= j < pre.len() && #[trigger] pre[j] == x;
                assert(cur[j] == x);
            }
        }
    }
}
/// C09 / C04 / C11 when a channel is dropped: every request still tracked ends by the aborted route, once; nothing stays tracked.
pub proof fn lemma_table_drop(h: SHist, l1: Seq<SEffect>, order: Seq<u64>)
    requires sinv(h), aborted_all(h.view, h.log, l1, order)
    ensures ({
        let h2 = srun_from(h, drop_steps(order));
        sinv(h2) && h2.log == l1 && h2.view =~= Map::<u64, SEntry>::empty()
    })
{
    let steps = drop_steps(order);
    lemma_drop_is_steps(h, l1, order, order.len() as int);
    assert(steps.take(order.len() as int) =~= steps);
    assert(l1.take((h.log.len() + order.len()) as int) =~= l1);
    let h2 = srun_from(h, steps);
    assert forall|x: u64| !h2.view.contains_key(x) by {
        if h.view.contains_key(x) {
            let i = choose|i: int| 0 <= i < order.len() && #[trigger] order[i] == x;
            let all = order.take(order.len() as int);
            assert(all[i] == x);
        }
    }
}
