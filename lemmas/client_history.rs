// @lemma-for: C01,C03,C11
// U7 for the client table (property C01): the history argument as checked lemmas.
//
// The step relations `step_insert / step_complete / step_cancel / step_expire` are what the contracts of
// the real table functions say about (view, effect log); each of those functions carries the matching
// `step_*` clause as a postcondition (proved from its real body in this same unit), so every table
// operation the dispatch performs is an `apply` step of the ghost history below
// (`lemma_steps_are_apply`).  `lemma_history` then shows, by induction over *every* sequence of such
// steps, the invariant `inv`, whose fourth clause is C01: a delivery that stems from a response went to
// the oneshot channel of the call that owns the response's id and carries a value that was received for
// that id; its last clause is "at most one delivery per call".  A second invariant (`binv`) counts routes:
//   inserted(id) = completed(id) + cancelled(id) + expired(id) + [id still tracked]        for every id,
// so (with ids inserted at most once, A-ids) an entry is removed by a cancellation at most once and never after a
// response or an expiry removed it (C03: a Cancel is written only when `cancel_request` finds the entry), and when
// every inserted request has ended nothing is tracked (C11).
// Environment assumptions (in `admissible`): the oneshot channel of a new call is fresh (A-oneshot,
// A-pair: `Channel::call` creates it); the dispatch is the table's only owner (Rust ownership).
/// The step relations: exactly what the contracts of the table functions say about (view, effect log).
pub open spec fn step_insert<Res>(v: Map<u64, CEntry>, l: Seq<Effect<Res>>, v2: Map<u64, CEntry>, l2: Seq<Effect<Res>>, id: u64, e: CEntry) -> bool {
    &&& l2 == l
    &&& v.contains_key(id) ==> v2 =~= v
    &&& !v.contains_key(id) ==> v2 =~= v.insert(id, e)
}
pub open spec fn step_complete<Res>(v: Map<u64, CEntry>, l: Seq<Effect<Res>>, v2: Map<u64, CEntry>, l2: Seq<Effect<Res>>, id: u64, value: Res) -> bool {
    &&& v2 =~= v.remove(id)
    &&& v.contains_key(id) ==> l2 == l.push(Effect::Deliver { chan: v[id].chan, value })
    &&& !v.contains_key(id) ==> l2 == l
}
pub open spec fn step_cancel<Res>(v: Map<u64, CEntry>, l: Seq<Effect<Res>>, v2: Map<u64, CEntry>, l2: Seq<Effect<Res>>, id: u64) -> bool {
    &&& v2 =~= v.remove(id)
    &&& l2 == l
}
/// expiry of the entry `id` (present), delivering `value` -- a value made by the table's own error function
pub open spec fn step_expire<Res>(v: Map<u64, CEntry>, l: Seq<Effect<Res>>, v2: Map<u64, CEntry>, l2: Seq<Effect<Res>>, id: u64, value: Res) -> bool {
    &&& v.contains_key(id)
    &&& v2 =~= v.remove(id)
    &&& l2 == l.push(Effect::Deliver { chan: v[id].chan, value })
}

/// Ghost history: the table view and effect log the contracts talk about, plus who owns each oneshot
/// channel (the id it was inserted under), which responses were processed, and where each delivery came from.
pub enum Prov { Response { id: u64 }, Expiry }
pub struct Hist<Res> {
    pub view: Map<u64, CEntry>,
    pub log: Seq<Effect<Res>>,
    pub owner: Map<int, u64>,
    pub responses: Seq<(u64, Res)>,
    pub prov: Seq<Prov>,
    /// ids by the route their entry took: inserted; removed by a processed response; by a cancellation; by expiry
    pub inserted: Seq<u64>,
    pub completed: Seq<u64>,
    pub cancelled: Seq<u64>,
    pub expired: Seq<u64>,
}
pub enum Step<Res> {
    Insert { id: u64, e: CEntry },
    Complete { id: u64, value: Res },
    Cancel { id: u64 },
    Expire { id: u64, value: Res },
}
pub open spec fn hist0<Res>() -> Hist<Res> {
    Hist { view: Map::empty(), log: Seq::empty(), owner: Map::empty(), responses: Seq::empty(), prov: Seq::empty(), inserted: Seq::empty(), completed: Seq::empty(), cancelled: Seq::empty(), expired: Seq::empty() }
}
/// a step is admissible if the environment assumptions hold: a call's oneshot channel is fresh (A-oneshot, A-pair)
pub open spec fn admissible<Res>(h: Hist<Res>, s: Step<Res>) -> bool {
    match s {
        Step::Insert { id, e } => !h.owner.contains_key(e.chan),
        Step::Expire { id, value } => h.view.contains_key(id),
        _ => true,
    }
}
pub open spec fn apply<Res>(h: Hist<Res>, s: Step<Res>) -> Hist<Res> {
    match s {
        Step::Insert { id, e } =>
            if h.view.contains_key(id) { h } else { Hist { view: h.view.insert(id, e), owner: h.owner.insert(e.chan, id), inserted: h.inserted.push(id), ..h } },
        Step::Complete { id, value } =>
            if h.view.contains_key(id) {
                Hist { view: h.view.remove(id), log: h.log.push(Effect::Deliver { chan: h.view[id].chan, value }),
                       responses: h.responses.push((id, value)), prov: h.prov.push(Prov::Response { id }), completed: h.completed.push(id), ..h }
            } else { Hist { responses: h.responses.push((id, value)), ..h } },
        Step::Cancel { id } => if h.view.contains_key(id) { Hist { view: h.view.remove(id), cancelled: h.cancelled.push(id), ..h } } else { h },
        Step::Expire { id, value } =>
            Hist { view: h.view.remove(id), log: h.log.push(Effect::Deliver { chan: h.view[id].chan, value }), prov: h.prov.push(Prov::Expiry), expired: h.expired.push(id), ..h },
    }
}
/// the contracts' step relations are exactly `apply` on (view, log)
pub proof fn lemma_steps_are_apply<Res>(h: Hist<Res>, s: Step<Res>, v2: Map<u64, CEntry>, l2: Seq<Effect<Res>>)
    requires
        admissible(h, s),
        match s {
            Step::Insert { id, e } => step_insert(h.view, h.log, v2, l2, id, e),
            Step::Complete { id, value } => step_complete(h.view, h.log, v2, l2, id, value),
            Step::Cancel { id } => step_cancel(h.view, h.log, v2, l2, id),
            Step::Expire { id, value } => step_expire(h.view, h.log, v2, l2, id, value),
        },
    ensures apply(h, s).view =~= v2, apply(h, s).log == l2,
{
    match s {
        Step::Cancel { id } => { if !h.view.contains_key(id) { assert(h.view.remove(id) =~= h.view); } },
        _ => {},
    }
}

pub open spec fn run<Res>(steps: Seq<Step<Res>>) -> Hist<Res>
    decreases steps.len()
{
    if steps.len() == 0 { hist0() } else { apply(run(steps.drop_last()), steps.last()) }
}
pub open spec fn admissible_all<Res>(steps: Seq<Step<Res>>) -> bool
    decreases steps.len()
{
    if steps.len() == 0 { true } else { admissible_all(steps.drop_last()) && admissible(run(steps.drop_last()), steps.last()) }
}
pub open spec fn count(s: Seq<u64>, id: u64) -> nat
    decreases s.len()
{
    if s.len() == 0 { 0 } else { count(s.drop_last(), id) + if s.last() == id { 1nat } else { 0nat } }
}
proof fn lemma_count_push(s: Seq<u64>, x: u64, id: u64)
    ensures count(s.push(x), id) == count(s, id) + if x == id { 1nat } else { 0nat }
{
    assert(s.push(x).drop_last() =~= s);
}
/// C03 / C11 (client): every inserted request leaves the table by exactly one route, or is still tracked
pub open spec fn balance<Res>(h: Hist<Res>, id: u64) -> bool {
    count(h.inserted, id) == count(h.completed, id) + count(h.cancelled, id) + count(h.expired, id) + if h.view.contains_key(id) { 1nat } else { 0nat }
}
pub open spec fn chan_at<Res>(h: Hist<Res>, i: int) -> int { h.log[i]->chan }
pub open spec fn inv<Res>(h: Hist<Res>) -> bool {
    // every tracked entry's channel is owned by the id it is stored under
    &&& forall|id: u64| #[trigger] h.view.contains_key(id) ==> h.owner.contains_key(h.view[id].chan) && h.owner[h.view[id].chan] == id
    &&& h.prov.len() == h.log.len()
    // every delivery went to a channel some call owns
    &&& forall|i: int| 0 <= i < h.log.len() ==> h.owner.contains_key(#[trigger] chan_at(h, i))
    // C01: a delivery that stems from a response went to the channel of the call that owns the response's id,
    // and carries a value that was actually received for that id
    &&& forall|i: int| 0 <= i < h.log.len() ==> (#[trigger] h.prov[i] matches Prov::Response { id } ==>
            h.owner[chan_at(h, i)] == id
            && exists|j: int| 0 <= j < h.responses.len() && #[trigger] h.responses[j] == (id, h.log[i]->value))
    // a delivery consumes the entry: no delivery went to the channel of a call that is still tracked (at most one per call)
    &&& forall|i: int, id: u64| 0 <= i < h.log.len() && #[trigger] h.view.contains_key(id) ==> #[trigger] chan_at(h, i) != h.view[id].chan
}
pub proof fn lemma_apply_preserves_inv<Res>(h: Hist<Res>, s: Step<Res>)
    requires inv(h), admissible(h, s)
    ensures inv(apply(h, s))
{
    let h2 = apply(h, s);
    assert forall|i: int| 0 <= i < h.log.len() implies chan_at(h2, i) == chan_at(h, i) by {}
    match s {
        Step::Insert { id, e } => {
            if !h.view.contains_key(id) {
                assert forall|i: int| 0 <= i < h2.log.len() implies (#[trigger] h2.prov[i] matches Prov::Response { id: rid } ==>
                    h2.owner[chan_at(h2, i)] == rid
                    && exists|j: int| 0 <= j < h2.responses.len() && #[trigger] h2.responses[j] == (rid, h2.log[i]->value)) by {
                    assert(h.owner.contains_key(chan_at(h, i)));
                }
                assert forall|i: int, id2: u64| 0 <= i < h2.log.len() && #[trigger] h2.view.contains_key(id2) implies #[trigger] chan_at(h2, i) != h2.view[id2].chan by {
                    assert(h.owner.contains_key(chan_at(h, i)));
                    if id2 != id { assert(h.view.contains_key(id2)); }
                }
                assert forall|id2: u64| #[trigger] h2.view.contains_key(id2) implies h2.owner.contains_key(h2.view[id2].chan) && h2.owner[h2.view[id2].chan] == id2 by {
                    if id2 != id { assert(h.view.contains_key(id2)); }
                }
            }
        },
        Step::Complete { id, value } => {
            let n = h.log.len() as int;
            if h.view.contains_key(id) {
                assert(h2.responses[h2.responses.len() - 1] == (id, value));
                assert forall|i: int| 0 <= i < h2.log.len() implies (#[trigger] h2.prov[i] matches Prov::Response { id: rid } ==>
                    h2.owner[chan_at(h2, i)] == rid
                    && exists|j: int| 0 <= j < h2.responses.len() && #[trigger] h2.responses[j] == (rid, h2.log[i]->value)) by {
                    if i < n {
                        if let Prov::Response { id: rid } = h.prov[i] {
                            let j = choose|j: int| 0 <= j < h.responses.len() && #[trigger] h.responses[j] == (rid, h.log[i]->value);
                            assert(h2.responses[j] == (rid, h2.log[i]->value));
                        }
                    } else {
                        assert(h2.responses[h2.responses.len() - 1] == (id, h2.log[i]->value));
                    }
                }
                assert forall|i: int, id2: u64| 0 <= i < h2.log.len() && #[trigger] h2.view.contains_key(id2) implies #[trigger] chan_at(h2, i) != h2.view[id2].chan by {
                    assert(h.view.contains_key(id2));
                    if i == n {
                        // two tracked entries with the same channel would have the same owner
                        assert(h.owner[h.view[id].chan] == id && h.owner[h.view[id2].chan] == id2);
                    }
                }
            } else {
                assert(h.view.remove(id) =~= h.view);
                assert forall|i: int| 0 <= i < h2.log.len() implies (#[trigger] h2.prov[i] matches Prov::Response { id: rid } ==>
                    h2.owner[chan_at(h2, i)] == rid
                    && exists|j: int| 0 <= j < h2.responses.len() && #[trigger] h2.responses[j] == (rid, h2.log[i]->value)) by {
                    if let Prov::Response { id: rid } = h.prov[i] {
                        let j = choose|j: int| 0 <= j < h.responses.len() && #[trigger] h.responses[j] == (rid, h.log[i]->value);
                        assert(h2.responses[j] == (rid, h2.log[i]->value));
                    }
                }
            }
        },
        Step::Cancel { id } => {
            assert forall|i: int, id2: u64| 0 <= i < h2.log.len() && #[trigger] h2.view.contains_key(id2) implies #[trigger] chan_at(h2, i) != h2.view[id2].chan by {
                assert(h.view.contains_key(id2));
            }
        },
        Step::Expire { id, value } => {
            let n = h.log.len() as int;
            assert forall|i: int, id2: u64| 0 <= i < h2.log.len() && #[trigger] h2.view.contains_key(id2) implies #[trigger] chan_at(h2, i) != h2.view[id2].chan by {
                assert(h.view.contains_key(id2));
                if i == n {
                    assert(h.owner[h.view[id].chan] == id && h.owner[h.view[id2].chan] == id2);
                }
            }
        },
    }
}

pub open spec fn binv<Res>(h: Hist<Res>) -> bool { forall|id: u64| #[trigger] balance(h, id) }
pub proof fn lemma_apply_preserves_balance<Res>(h: Hist<Res>, s: Step<Res>)
    requires binv(h), admissible(h, s)
    ensures binv(apply(h, s))
{
    let h2 = apply(h, s);
    assert forall|x: u64| #[trigger] balance(h2, x) by {
        assert(balance(h, x));
        match s {
            Step::Insert { id, e } => { lemma_count_push(h.inserted, id, x); },
            Step::Complete { id, value } => { lemma_count_push(h.completed, id, x); },
            Step::Cancel { id } => { lemma_count_push(h.cancelled, id, x); },
            Step::Expire { id, value } => { lemma_count_push(h.expired, id, x); },
        }
    }
}
/// C03 / C11 corollaries, under A-ids (every id is inserted at most once): an entry is removed by a cancellation at
/// most once and never after a response or an expiry removed it; when every inserted request has ended, nothing is tracked.
pub proof fn lemma_at_most_one_end<Res>(h: Hist<Res>, id: u64)
    requires binv(h), count(h.inserted, id) <= 1
    ensures count(h.cancelled, id) + count(h.completed, id) + count(h.expired, id) <= 1,
            count(h.cancelled, id) + count(h.completed, id) + count(h.expired, id) == count(h.inserted, id) ==> !h.view.contains_key(id),
{
    assert(balance(h, id));
}

/// C01 over every history: whatever sequence of table operations the dispatch performs (each satisfying its
/// contract, hence an `apply` step), a response's value is delivered only to the call that owns the response's id.
pub proof fn lemma_history<Res>(steps: Seq<Step<Res>>)
    requires admissible_all(steps)
    ensures inv(run(steps)), binv(run(steps))
    decreases steps.len()
{
    if steps.len() > 0 {
        lemma_history(steps.drop_last());
        lemma_apply_preserves_inv(run(steps.drop_last()), steps.last());
        lemma_apply_preserves_balance(run(steps.drop_last()), steps.last());
    } else {
        assert forall|id: u64| #[trigger] balance(hist0::<Res>(), id) by {}
    }
}

// ---- the shutdown of the dispatch as history steps (C09, C11, and "at most one delivery per call" across a shutdown) ----
// `complete_all_requests` is proved (from its real body, rule R17) to satisfy `delivered_all`: the log grows by exactly one
// delivery per tracked entry, to that entry's channel, in drain order. The lemma below shows that this transition *is* a
// sequence of `Expire`-shaped steps -- a present entry is removed and its call receives a value the dispatch made itself
// (provenance "not a response") -- so the invariants of `lemma_history` carry across a shutdown, and afterwards nothing is
// tracked.
pub open spec fn fail_steps<Res>(order: Seq<u64>, l0: Seq<Effect<Res>>, l1: Seq<Effect<Res>>) -> Seq<Step<Res>> {
    Seq::new(order.len(), |i: int| Step::Expire { id: order[i], value: l1[l0.len() + i]->value })
}
pub open spec fn run_from<Res>(h: Hist<Res>, steps: Seq<Step<Res>>) -> Hist<Res>
    decreases steps.len()
{
    if steps.len() == 0 { h } else { apply(run_from(h, steps.drop_last()), steps.last()) }
}
pub proof fn lemma_complete_all_is_steps<Res, F: Fn() -> Res>(h: Hist<Res>, l1: Seq<Effect<Res>>, order: Seq<u64>, f: F, k: int)
    requires inv(h), binv(h), delivered_all(h.view, h.log, l1, order, f), 0 <= k <= order.len()
    ensures ({
        let hk = run_from(h, fail_steps(order, h.log, l1).take(k));
        &&& inv(hk) && binv(hk)
        &&& hk.log == l1.take(h.log.len() + k)
        &&& forall|id: u64| #[trigger] hk.view.contains_key(id) <==> (h.view.contains_key(id) && !order.take(k).contains(id))
        &&& forall|id: u64| #[trigger] hk.view.contains_key(id) ==> hk.view[id] == h.view[id]
    })
    decreases k
{
    let steps = fail_steps(order, h.log, l1);
    if k == 0 {
        assert(steps.take(0).len() == 0);
        assert(l1.take(h.log.len() as int) =~= h.log);
        assert(order.take(0).len() == 0);
    } else {
        lemma_complete_all_is_steps(h, l1, order, f, k - 1);
        let pre = order.take(k - 1);
        let cur = order.take(k);
        let hp = run_from(h, steps.take(k - 1));
        let s = steps[k - 1];
        let id = order[k - 1];
        assert(steps.take(k).drop_last() =~= steps.take(k - 1));
        assert(steps.take(k).last() == s);
        assert(run_from(h, steps.take(k)) == apply(hp, s));
        // the entry is still there: it was tracked at the start and has not been drained yet (ids in `order` are distinct)
        assert(h.view.contains_key(id));
        assert(!pre.contains(id)) by {
            if pre.contains(id) {
                let j = choose|j: int| 0 <= j < pre.len() && #[trigger] pre[j] == id;
                assert(order[j] == order[k - 1]);
            }
        }
        assert(hp.view.contains_key(id));
        assert(admissible(hp, s));
        lemma_apply_preserves_inv(hp, s);
        lemma_apply_preserves_balance(hp, s);
        let hk = apply(hp, s);
        let at = h.log.len() + (k - 1);
        assert(l1[at] == Effect::Deliver { chan: h.view[id].chan, value: l1[at]->value });
        assert(hk.log =~= l1.take(h.log.len() + k)) by {
            assert(l1.take(h.log.len() + k) =~= l1.take(at).push(l1[at]));
        }
        assert(cur =~= pre.push(id));
        assert forall|x: u64| #[trigger] hk.view.contains_key(x) <==> (h.view.contains_key(x) && !cur.contains(x)) by {
            if x == id {
                assert(cur[k - 1] == id);
            } else if cur.contains(x) {
                let j = choose|j: int| 0 <= j < cur.len() && #[trigger] cur[j] == x;
                assert(pre[j] == x);
            } else if pre.contains(x) {
                let j = choose|j: int| 0 <= j < pre.len() && #[trigger] pre[j] == x;
                assert(cur[j] == x);
            }
        }
    }
}
/// C09 / C11 / C01 across a shutdown: after `complete_all_requests` the history invariants still hold, the log is the one the
/// function produced, and nothing is tracked.
pub proof fn lemma_shutdown<Res, F: Fn() -> Res>(h: Hist<Res>, l1: Seq<Effect<Res>>, order: Seq<u64>, f: F)
    requires inv(h), binv(h), delivered_all(h.view, h.log, l1, order, f)
    ensures ({
        let h2 = run_from(h, fail_steps(order, h.log, l1));
        inv(h2) && binv(h2) && h2.log == l1 && h2.view =~= Map::<u64, CEntry>::empty()
    })
{
    let steps = fail_steps(order, h.log, l1);
    lemma_complete_all_is_steps(h, l1, order, f, order.len() as int);
    assert(steps.take(order.len() as int) =~= steps);
    assert(l1.take((h.log.len() + order.len()) as int) =~= l1);
    let h2 = run_from(h, steps);
    assert forall|x: u64| !h2.view.contains_key(x) by {
        if h.view.contains_key(x) {
            let i = choose|i: int| 0 <= i < order.len() && #[trigger] order[i] == x;
            let all = order.take(order.len() as int);
            assert(all[i] == x);
        }
    }
}
