// @lemma-for: C20
// C20 fairness corollary, as a lemma over the contract that Kani proves for the real
// `round_robin::cycle::State::next` (harness k5_cycle_next_is_counter_mod_len): the call that draws
// counter value k is sent to backend k % n, and every call draws the next counter value (atomic
// fetch_add, so concurrent calls draw distinct consecutive values).  Hence any m calls draw m
// consecutive values c, c+1, .., c+m-1 (no wrap: fewer than 2^64 calls, assumption A-ids) and the
// lemma below bounds the difference between any two backends' shares by one -- for every c, m, n.
/// how many of the m consecutive counter values c, c+1, .., c+m-1 select backend j out of n
pub open spec fn hits(c: int, m: int, n: int, j: int) -> int
    decreases m
{
    if m <= 0 { 0 } else { hits(c, m - 1, n, j) + if (c + (m - 1)) % n == j { 1int } else { 0int } }
}
/// offset of backend j from the backend the first counter selects
pub open spec fn off(c: int, n: int, j: int) -> int { (j + n - c % n) % n }

proof fn lemma_step(m: int, n: int)
    requires n > 0, m >= 0
    ensures
        m % n == n - 1 ==> (m + 1) / n == m / n + 1 && (m + 1) % n == 0,
        m % n != n - 1 ==> (m + 1) / n == m / n && (m + 1) % n == m % n + 1,
{
    lemma_fundamental_div_mod(m, n);
    lemma_mod_bound(m, n);
    let q = m / n; let r = m % n;
    if r == n - 1 {
        assert(m + 1 == (q + 1) * n + 0) by (nonlinear_arith) requires m == n * q + r, r == n - 1;
        lemma_fundamental_div_mod_converse(m + 1, n, q + 1, 0);
    } else {
        assert(m + 1 == q * n + (r + 1)) by (nonlinear_arith) requires m == n * q + r;
        lemma_fundamental_div_mod_converse(m + 1, n, q, r + 1);
    }
}

proof fn lemma_offset(c: int, m: int, n: int, j: int)
    requires n > 0, 0 <= j < n, c >= 0, m >= 0
    ensures ((c + m) % n == j) <==> (off(c, n, j) == m % n)
{
    lemma_add_mod_noop(c, m, n);
    lemma_mod_bound(c, n);
    lemma_mod_bound(m, n);
    let a = c % n; let b = m % n;
    if a + b < n { lemma_small_mod((a + b) as nat, n as nat); } else {
        lemma_mod_sub_multiples_vanish(a + b, n);
        lemma_small_mod((a + b - n) as nat, n as nat);
    }
    if j >= a {
        lemma_mod_sub_multiples_vanish(j + n - a, n);
        lemma_small_mod((j - a) as nat, n as nat);
    } else { lemma_small_mod((j + n - a) as nat, n as nat); }
}

pub proof fn lemma_hits(c: int, m: int, n: int, j: int)
    requires n > 0, 0 <= j < n, c >= 0, m >= 0
    ensures hits(c, m, n, j) == m / n + if off(c, n, j) < m % n { 1int } else { 0int }
    decreases m
{
    if m == 0 {
        lemma_small_mod(0, n as nat);
        lemma_basic_div(0, n);
    } else {
        let p = m - 1;
        lemma_hits(c, p, n, j);
        lemma_step(p, n);
        lemma_offset(c, p, n, j);
        lemma_mod_bound(p, n);
        lemma_mod_bound(j + n - c % n, n);
    }
}

/// C20 fairness: over any m consecutive counter values (no wrap), the numbers of calls two backends receive differ by at most one
pub proof fn lemma_round_robin_fair(c: int, m: int, n: int, j1: int, j2: int)
    requires n > 0, 0 <= j1 < n, 0 <= j2 < n, c >= 0, m >= 0
    ensures hits(c, m, n, j1) <= hits(c, m, n, j2) + 1
{
    lemma_hits(c, m, n, j1);
    lemma_hits(c, m, n, j2);
}
